"""Shared pre-state builders, assumed contracts of external code, and spec helpers.

Everything in EXTERNAL below is an *assumed* contract (trusted, listed in the evidence):
lifxlan devices, time, threading, bisect, random.
"""
import z3

from pyvc import spec
from pyvc.values import (SymVal, PyObj, PyList, SymSeq, PyDict, PySet, ClassObj, BuiltinClass, EnumMember,
                         ModuleObj, Builtin, ExcObj, Opaque, FuncObj, _MISSING)
from pyvc.ops import to_term, mk, kind_of
from pyvc.interp import PyRaise, Unsupported

EXTERNAL = {
    'lifxlan': 'lifxlan device methods either perform the request (recorded in ghost Dev) or raise WorkflowException; '
               'nothing else. Their argument ranges (ints, 0..65535, duration 0..2^32-1) are checked as obligations at '
               'the call (this is the range half of C07).',
    'time': 'time.time() returns a non-decreasing real (ghost now); time.sleep returns',
    'threading': 'Thread.start runs the target later exactly once; Event/RLock per DESIGN 2.8',
    'bisect': 'bisect_left / bisect / insort on a sorted sequence return / insert at the partition point: discharged for the '
              'pure-Python reference implementation in the running interpreter\'s bisect.py (contracts/c13_bisect_ref.py, '
              'loop invariant + variant, any length); assumed: the C accelerator _bisect that shadows it computes the same function',
    'random': 'randrange(a, b) returns some integer of [a, b) and raises ValueError when empty; random() some real of [0, 1); uniform(a, b) some real between a and b, the far end-point excluded',
}


def install(I):
    E = I.ext_modules

    def module(name, **ns):
        m = ModuleObj(name)
        m.ns.update(ns)
        E[name] = m
        return m

    module('termios')
    module('tty')
    exc = I.builtins['Exception']
    lifx = module('lifxlan')
    errors = module('lifxlan.errors')
    wf = ClassObj('WorkflowException', [exc], errors)
    errors.ns['WorkflowException'] = wf
    lifx.ns['errors'] = errors
    lifx.ns['WorkflowException'] = wf
    mt = module('lifxlan.msgtypes')
    for nm in ('GetDeviceChain', 'GetTileState64', 'SetTileState64', 'StateDeviceChain', 'StateTileState64'):
        mt.ns[nm] = Opaque(nm)
    lifx.ns['msgtypes'] = mt
    lifx.ns['LifxLAN'] = Builtin('LifxLAN', lambda I_, a, k: I_.ghost['LifxLAN'](I_, a, k))

    def time_time(I_, a, k):
        prev = I_.ghost.get('now')
        now = I_.fresh('real', 'now')
        if prev is not None:
            I_.assume(now.t >= to_term(prev, 'real'))
        I_.ghost['now'] = now
        I_.ghost.setdefault('time_calls', []).append(now)
        return now
    module('time', time=Builtin('time.time', time_time),
           sleep=Builtin('time.sleep', lambda I_, a, k: None))

    def thread_ctor(I_, a, k):
        th = Opaque('Thread', attrs={'target': k.get('target'), 'args': k.get('args', ()), 'started': False})

        def start(I2, o, a2, k2):
            o.attrs['started'] = True
            I2.ghost.setdefault('threads', []).append(o)
        th.methods['start'] = start
        th.methods['is_alive'] = lambda I2, o, a2, k2: I2.fresh('bool', 'alive')
        return th

    def event_ctor(I_, a, k):
        ev = Opaque('Event')
        ev.methods['set'] = lambda I2, o, a2, k2: I2.ghost.setdefault('event', []).append('set')
        ev.methods['clear'] = lambda I2, o, a2, k2: I2.ghost.setdefault('event', []).append('clear')
        ev.methods['wait'] = lambda I2, o, a2, k2: I2.ghost['event_wait'](I2) if 'event_wait' in I2.ghost else True
        return ev

    def rlock_ctor(I_, a, k):
        lk = Opaque('RLock', attrs={'depth': 0})
        def acquire(I2, o, a2, k2):          # default: an uncontended re-entrant lock
            if 'lock_acquire' in I2.ghost:
                return I2.ghost['lock_acquire'](I2, o, a2, k2)
            o.attrs['depth'] += 1
            return True
        def release(I2, o, a2, k2):
            if 'lock_release' in I2.ghost:
                return I2.ghost['lock_release'](I2, o, a2, k2)
            if o.attrs['depth'] <= 0:
                I2.raise_builtin('RuntimeError', 'cannot release un-acquired lock')
            o.attrs['depth'] -= 1
        lk.methods['acquire'] = acquire
        lk.methods['release'] = release
        return lk
    module('threading', Thread=Builtin('Thread', thread_ctor), Event=Builtin('Event', event_ctor),
           RLock=Builtin('RLock', rlock_ctor))

    def dt_now(I_, a, k):
        h = I_.fresh('int', 'hour')
        m = I_.fresh('int', 'minute')
        I_.assume(z3.And(h.t >= 0, h.t < 24, m.t >= 0, m.t < 60))
        I_.ghost['last_h'], I_.ghost['last_m'] = h, m
        I_.ghost['clock_readings'] = I_.ghost.get('clock_readings', 0) + 1
        return Opaque('datetime', methods={'strftime': lambda I2, o, a2, k2: I2.fresh('str', 'formatted_time')}, attrs={'hour': h, 'minute': m})
    module('datetime', datetime=Opaque('datetime_cls', methods={'now': lambda I_, o, a, k: dt_now(I_, a, k)}))

    # bisect: assumed contract on sorted sequences
    def bisect_impl(left):
        def f(I_, a, k):
            seq, x = a[0], a[1]
            if isinstance(seq, PyList) and all(isinstance(v, (int, float, str)) for v in seq.items) \
                    and isinstance(x, (int, float, str)):
                import bisect
                return (bisect.bisect_left if left else bisect.bisect_right)(seq.items, x)
            if isinstance(seq, PyList):
                # concrete length, symbolic items: position = number of items < x (<= x for right)
                pos = 0
                for it in seq.items:
                    c = I_.compare('Lt' if left else 'LtE', it, x)
                    if I_.truth(c):
                        pos += 1
                    else:
                        break
                return pos
            if isinstance(seq, SymSeq):
                p = I_.fresh('int', 'bisect')
                xt = to_term(x)
                kq = z3.Int('k!bis%d' % I_.fresh_n)
                I_.assume(z3.And(p.t >= 0, p.t <= seq.n))
                I_.ghost['bisect'] = p
                if left:
                    I_.assume(z3.ForAll([kq], z3.Implies(z3.And(kq >= 0, kq < p.t), z3.Select(seq.arr, kq) < xt)))
                    I_.assume(z3.ForAll([kq], z3.Implies(z3.And(kq >= p.t, kq < seq.n), z3.Select(seq.arr, kq) >= xt)))
                else:
                    I_.assume(z3.ForAll([kq], z3.Implies(z3.And(kq >= 0, kq < p.t), z3.Select(seq.arr, kq) <= xt)))
                    I_.assume(z3.ForAll([kq], z3.Implies(z3.And(kq >= p.t, kq < seq.n), z3.Select(seq.arr, kq) > xt)))
                return p
            raise Unsupported('bisect on %r' % (seq,))
        return f

    def insort(I_, a, k):
        seq, x = a[0], a[1]
        p = bisect_impl(False)(I_, [seq, x], {})
        if isinstance(seq, PyList):
            seq.items.insert(p, x)
            return None
        kq = z3.Int('k!ins%d' % I_.fresh_n)
        pt = to_term(p, 'int')
        seq.arr = z3.Lambda([kq], z3.If(kq < pt, z3.Select(seq.arr, kq),
                                        z3.If(kq == pt, to_term(x), z3.Select(seq.arr, kq - 1))))
        seq.n = z3.simplify(seq.n + 1)
        return None
    module('bisect', bisect_left=Builtin('bisect_left', bisect_impl(True)),
           bisect=Builtin('bisect', bisect_impl(False)), bisect_right=Builtin('bisect_right', bisect_impl(False)),
           insort=Builtin('insort', insort), insort_right=Builtin('insort_right', insort))

    def randrange(I_, a, k):
        lo, hi = (a[0], a[1]) if len(a) > 1 else (0, a[0])
        for v in (lo, hi):
            if kind_of(v) not in ('int', 'bool'):
                I_.raise_builtin('TypeError' if kind_of(v) != 'real' else 'ValueError', 'non-integer arg for randrange()')
        lt, ht = to_term(lo, 'int'), to_term(hi, 'int')
        if I_.branch(lt >= ht, 'empty-range'):
            I_.raise_builtin('ValueError', 'empty range for randrange()')
        r = I_.fresh('int', 'random')
        I_.assume(z3.And(r.t >= lt, r.t < ht))
        I_.ghost.setdefault('random_draws', PyList()).items.append((r, lo, hi))
        return r
    def unit_random(I_, a, k):
        r = I_.fresh('real', 'unit_random')
        I_.assume(z3.And(r.t >= 0, r.t < 1))
        I_.ghost.setdefault('unit_draws', PyList()).items.append(r)
        return r
    def uniform(I_, a, k):
        # a + (b - a) * random(): some real between the two bounds (the far end-point, which CPython reaches only through
        # floating-point rounding, is left out: assumed, see TRUSTED)
        lo, hi = to_term(a[0], 'real'), to_term(a[1], 'real')
        r = I_.fresh('real', 'uniform')
        I_.assume(z3.Or(z3.And(lo <= r.t, r.t < hi), z3.And(hi < r.t, r.t <= lo), z3.And(lo == hi, r.t == lo)))
        I_.ghost.setdefault('uniform_draws', PyList()).items.append((r, a[0], a[1]))
        return r
    module('random', randrange=Builtin('randrange', randrange), seed=Builtin('seed', lambda I_, a, k: None),
           random=Builtin('random', unit_random), uniform=Builtin('uniform', uniform),
           randint=Builtin('randint', lambda I_, a, k: randrange(I_, [a[0], I_.binop('Add', a[1], 1)], k)))

    module('html', escape=Builtin('html.escape', lambda I_, a, k: html_escape(I_, a[0])),
           unescape=Builtin('html.unescape', lambda I_, a, k: html_unescape(I_, a[0])))
    module('json', load=Builtin('json.load', lambda I_, a, k: I_.ghost['json_load'](I_, a, k)))
    fl = module('flask')
    fl.ns['render_template'] = Builtin('render_template', lambda I_, a, k: render_template(I_, a, k))
    fl.ns['request'] = Opaque('request', attrs={'headers': Opaque('headers', methods={
        'get': lambda I_, o, a, k: I_.fresh('str', 'header')})})
    fl.ns['Blueprint'] = Builtin('Blueprint', lambda I_, a, k: Opaque('blueprint', methods={
        'route': lambda I2, o, a2, k2: Builtin('route', lambda I3, a3, k3: (I3.ghost.setdefault('routes', {}).__setitem__(a2[0], a3[0]), a3[0])[1])}))


_esc_fn = z3.Function('html_escape', z3.StringSort(), z3.StringSort())


def html_escape(I, s):
    if isinstance(s, str):
        import html
        return html.escape(s)
    if isinstance(s, SymVal) and s.k == 'str':
        return SymVal(_esc_fn(s.t), 'str')
    I.raise_builtin('AttributeError', "'%s' object has no attribute 'replace'" % I.typename(s))


_unesc_fn = z3.Function('html_unescape', z3.StringSort(), z3.StringSort())


def html_unescape(I, s):
    """assumed: html.unescape(html.escape(x)) == x"""
    if isinstance(s, str):
        import html
        return html.unescape(s)
    t = s.t
    if z3.is_app(t) and t.decl().name() == 'html_escape':
        return SymVal(t.arg(0), 'str')
    # the assumed law, instantiated for every escaped text that occurs on this path (quantifier-free: a quantified axiom leaves the
    # solver without an answer exactly when a counterexample is asked for)
    seen, insts = set(), []
    def walk(e):
        if e.get_id() in seen:
            return
        seen.add(e.get_id())
        if z3.is_app(e):
            if e.decl().name() == 'html_escape':
                insts.append(e)
            for ch in e.children():
                walk(ch)
    walk(t)
    for c_ in I.pc:
        if z3.is_expr(c_):
            walk(c_)
    for e in insts:
        I.assume(_unesc_fn(e) == e.arg(0))
    return SymVal(_unesc_fn(t), 'str')


def render_template(I, a, k):
    I.ghost.setdefault('rendered', []).append((a[0], dict(k)))
    return I.fresh('str', 'page')


spec.EXTRA_INSTALLERS = getattr(spec, 'EXTRA_INSTALLERS', [])
if install not in spec.EXTRA_INSTALLERS:
    spec.EXTRA_INSTALLERS.append(install)


# ------------------------------------------------------------------------------ builders
def injection_reset(b):
    inj = b.module('bardolph.lib.injection')
    inj.ns['_providers'].d.clear()
    return inj


def provide(b, iface, obj):
    inj = b.module('bardolph.lib.injection')
    inj.ns['_providers'].d[iface] = Builtin('provider', lambda I, a, k: obj)
    b.provided.append((iface, obj))


def clock_stub(b):
    """records requests in ghost Clk: ('pause_for', t) / ('wait_until', p) / ('start',) / ('stop',)"""
    def rec(kind):
        def f(I, o, a, k):
            I.ghost.setdefault('Clk', PyList()).items.append((kind,) + tuple(a))
        return f
    il = b.module('bardolph.lib.i_lib')
    clk = Opaque('clock', {m: rec(m) for m in ('start', 'stop', 'reset', 'pause_for', 'wait_until')},
                 classes=(il.ns['Clock'],))
    clk.native = {'kind': 'clock'}
    return clk


def device(b, name, fail=False, color=None, power=None, features=None):
    """lifxlan device stub. Every request is appended to ghost Dev as (device, method, args...).
    Argument ranges demanded by the LIFX protocol are obligations at the call."""
    I = b.I
    wf = b.module('lifxlan.errors').ns['WorkflowException']
    dev = Opaque(name)
    dev.native = {'kind': 'device'}
    if color is not None or power is not None:      # what the device reports, for native replays
        dev.native['returns'] = dict(([('device_color', color)] if color is not None else []) + ([('device_power', power)] if power is not None else []))
    if fail == 'other':
        dev.native['raises'] = {'*': I.builtins['ValueError']}

    def maybe_fail(I_):
        I_.ghost['attempts'] = I_.ghost.get('attempts', 0) + 1
        if fail == 'other':
            I_.raise_builtin('ValueError', 'not a network fault')
        if fail:
            if I_.branch(I_.fresh('bool', 'fault').t):
                raise PyRaise(PyObj(wf, {'__args__': ('no response',)}))

    def u16(I_, v, what):
        ok = kind_of(v) == 'int' or (isinstance(v, int) and not isinstance(v, bool))
        cn = I_.ghost.get('contract_name', '?')
        if not ok:
            I_.oblige('%s::device.%s-is-int' % (cn, what), False, kind='pre', info={'value': repr(v)})
            return
        I_.oblige('%s::device.%s-in-0..65535' % (cn, what), z3.And(to_term(v, 'int') >= 0, to_term(v, 'int') <= 65535), kind='pre')

    def u32(I_, v, what):
        ok = kind_of(v) == 'int' or (isinstance(v, int) and not isinstance(v, bool))
        cn = I_.ghost.get('contract_name', '?')
        if not ok:
            I_.oblige('%s::device.%s-is-int' % (cn, what), False, kind='pre', info={'value': repr(v)})
            return
        I_.oblige('%s::device.%s-in-0..2^32-1' % (cn, what), z3.And(to_term(v, 'int') >= 0, to_term(v, 'int') <= 4294967295), kind='pre')

    def color_ok(I_, c, what):
        cn = I_.ghost.get('contract_name', '?')
        if not isinstance(c, PyList) or len(c.items) != 4:
            I_.oblige('%s::device.%s-is-4-list' % (cn, what), False, kind='pre', info={'value': repr(c)})
            return
        for i, x in enumerate(c.items):
            u16(I_, x, '%s[%d]' % (what, i))

    def record(I_, *entry):
        I_.ghost.setdefault('Dev', PyList()).items.append((dev,) + entry)

    def set_color(I_, o, a, k):
        maybe_fail(I_)
        color_ok(I_, a[0], 'set_color.color')
        u32(I_, a[1], 'set_color.duration')
        record(I_, 'set_color', a[0], a[1])

    def set_power(I_, o, a, k):
        maybe_fail(I_)
        u16(I_, a[0], 'set_power.power')
        u32(I_, a[1], 'set_power.duration')
        record(I_, 'set_power', a[0], a[1])

    def set_zone_color(I_, o, a, k):
        maybe_fail(I_)
        u16(I_, a[0], 'set_zone_color.start')
        u16(I_, a[1], 'set_zone_color.end')
        color_ok(I_, a[2], 'set_zone_color.color')
        u32(I_, a[3], 'set_zone_color.duration')
        record(I_, 'set_zone_color', a[0], a[1], a[2], a[3])

    def fire_and_forget(I_, o, a, k):
        maybe_fail(I_)
        payload = a[1]
        colors = payload.d['colors']
        cn = I_.ghost.get('contract_name', '?')
        for ci, cc in enumerate(colors.items if isinstance(colors, PyList) else []):
            color_ok(I_, cc, 'set_matrix.colors[%d]' % ci)
        u32(I_, payload.d['duration'], 'set_matrix.duration')
        record(I_, 'set_matrix', colors, payload.d['duration'])

    def get_color(I_, o, a, k):
        maybe_fail(I_)
        record(I_, 'get_color')
        return color if color is not None else PyList([0, 0, 0, 0])

    def get_power(I_, o, a, k):
        maybe_fail(I_)
        record(I_, 'get_power')
        return power if power is not None else 0

    def simple(name_, value):
        def f(I_, o, a, k):
            maybe_fail(I_)
            return value(I_) if callable(value) else value
        return f

    def get_color_zones(I_, o, a, k):
        maybe_fail(I_)
        record(I_, 'get_color_zones')
        return PyList([PyList([0, 0, 0, 0]) for _ in range(3)])

    dev.methods.update(set_color=set_color, set_power=set_power, set_zone_color=set_zone_color,
                       fire_and_forget=fire_and_forget, get_color=get_color, get_power=get_power,
                       get_label=simple('get_label', lambda I_: I_.fresh('str', 'label')),
                       get_group=simple('get_group', lambda I_: I_.fresh('str', 'group')),
                       get_location=simple('get_location', lambda I_: I_.fresh('str', 'location')),
                       get_product_name=simple('get_product_name', 'bulb'),
                       get_mac_addr=simple('get_mac_addr', 'd0:73:d5:%s' % name),
                       get_product_features=simple('get_product_features', lambda I_: PyDict(dict(features or {}))),
                       get_color_zones=get_color_zones)
    return dev


def lifx_light(b, kind, impl, name, **extra):
    """a bardolph.controller.lifx_lan_light object wrapping a device stub (constructor bypassed)."""
    cls = b.cls('bardolph.controller.lifx_lan_light', {'plain': 'Light', 'multizone': 'MultizoneLight', 'matrix': 'MatrixLight'}[kind])
    attrs = {'_name': name, '_group': 'g', '_location': 'l', '_birth': 0.0, '_impl': impl, 'product_features': PyDict()}
    attrs.update(extra)
    return PyObj(cls, attrs)


def light_set_with(b, lights, groups=None, locations=None):
    """real LightSet object (constructor bypassed) holding the given {name: light} directory."""
    cls = b.cls('bardolph.controller.light_set', 'LightSet')
    sl = b.cls('bardolph.lib.sorted_list', 'SortedList')
    ls = PyObj(cls, {'_lights': PyDict(lights), '_light_names': PyList(list(lights.keys()), sl),
                     '_groups': PyDict({g: PyList(list(v), sl) for g, v in (groups or {}).items()}),
                     '_locations': PyDict({g: PyList(list(v), sl) for g, v in (locations or {}).items()}),
                     '_num_successful_discovers': 0, '_num_failed_discovers': 0})
    return ls


def machine(b, mode, light_set=None, clock=None):
    """a real Machine built by its real constructor, registers then overwritten by the caller."""
    injection_reset(b)
    il = b.module('bardolph.lib.i_lib')
    ic = b.module('bardolph.controller.i_controller')
    clk = clock or clock_stub(b)
    provide(b, il.ns['Clock'], clk)
    if light_set is not None:
        provide(b, ic.ns['LightSet'], light_set)
    M = b.cls('bardolph.vm.machine', 'Machine')
    m = b.new(M)
    m.attrs['_reg'].attrs['unit_mode'] = b.enum('bardolph.controller.units', 'UnitMode', mode)
    return m


def sym_regs(b, m, kind, names=('hue', 'saturation', 'brightness', 'kelvin', 'duration')):
    reg = m.attrs['_reg']
    for n in names:
        reg.attrs[n] = b.sym(kind, n)
    return reg


# ------------------------------------------------------------------------------ spec functions (C07 formulas)
def _r(v):
    return to_term(v, 'real')


def _round_clamp(t, top):
    from pyvc.ops import round_half_even
    c = z3.If(t < 0, z3.RealVal(0), z3.If(t > top, z3.RealVal(top), t))
    return round_half_even(c)


def install_spec(I):
    S = I.spec_fns

    def reg(name, f):
        S[name] = Builtin('spec.' + name, lambda I_, a, k: f(*a))

    # the statement's formulas: what must reach the device for a logical register value
    reg('sent_hue', lambda deg: mk(_round_clamp((_r(deg) - 360 * z3.ToReal(z3.ToInt(_r(deg) / 360))) / 360 * 65535, 65535), 'int'))
    reg('sent_pct', lambda p: mk(_round_clamp(_r(p) / 100 * 65535, 65535), 'int'))
    reg('sent_u16', lambda v: mk(_round_clamp(_r(v), 65535), 'int'))
    reg('sent_u32', lambda v: mk(_round_clamp(_r(v), 4294967295), 'int'))
    reg('sent_ms', lambda s: mk(_round_clamp(_r(s) * 1000, 4294967295), 'int'))

    # HSV of an rgb triple: uninterpreted at use sites (callers need only congruence); the textbook
    # definition is revealed (assumed as a definitional unfolding at given arguments) where it is needed.
    RS = z3.RealSort()
    HSV = {n: z3.Function('HSV_' + n, RS, RS, RS, RS) for n in 'hsv'}

    def hsv_def(r, g, b):
        """textbook hexagon formulas for an rgb triple in [0,1]^3 (h as a fraction of the full turn)."""
        mx = z3.If(z3.And(r >= g, r >= b), r, z3.If(g >= b, g, b))
        mn = z3.If(z3.And(r <= g, r <= b), r, z3.If(g <= b, g, b))
        d = mx - mn
        s = z3.If(mx == 0, z3.RealVal(0), d / mx)
        h6 = z3.If(d == 0, z3.RealVal(0),
                   z3.If(r == mx, (g - b) / d, z3.If(g == mx, 2 + (b - r) / d, 4 + (r - g) / d)))
        h = h6 / 6
        h = h - z3.ToReal(z3.ToInt(h))      # mod 1
        return h, s, mx
    for i_, n_ in enumerate('hsv'):
        reg('hsv_' + n_, lambda r, g, b, n_=n_: mk(HSV[n_](_r(r), _r(g), _r(b)), 'real'))

    def reveal_hsv(r, g, b):
        r, g, b = _r(r), _r(g), _r(b)
        h, s_, v = hsv_def(r, g, b)
        return mk(z3.And(HSV['h'](r, g, b) == h, HSV['s'](r, g, b) == s_, HSV['v'](r, g, b) == v), 'bool')
    reg('reveal_hsv', reveal_hsv)
    S['ghost_bisect'] = Builtin('spec.ghost_bisect', lambda I_, a, k: I_.ghost.get('bisect'))
    reg('sent_frac', lambda f: mk(_round_clamp(_r(f) * 65535, 65535), 'int'))


if install_spec not in spec.EXTRA_INSTALLERS:
    spec.EXTRA_INSTALLERS.append(install_spec)


def lan_api(b):
    """real LifxLanApi (constructor bypassed) over a lifxlan.LifxLAN stub recording all-lights requests."""
    I = b.I
    stub = Opaque('lifxlan')
    stub.native = {'kind': 'device'}

    def chk(I_, v, what, top):
        cn = I_.ghost.get('contract_name', '?')
        if kind_of(v) != 'int' or isinstance(v, bool):
            I_.oblige('%s::device.%s-is-int' % (cn, what), False, kind='pre', info={'value': repr(v)})
        else:
            I_.oblige('%s::device.%s-in-range' % (cn, what), z3.And(to_term(v, 'int') >= 0, to_term(v, 'int') <= top), kind='pre')

    def set_color_all(I_, o, a, k):
        col = a[0]
        if not isinstance(col, PyList) or len(col.items) != 4:
            I_.oblige('%s::device.all-color-is-4-list' % I_.ghost.get('contract_name'), False, kind='pre')
        else:
            for i, x in enumerate(col.items):
                chk(I_, x, 'set_color_all_lights.color[%d]' % i, 65535)
        chk(I_, a[1], 'set_color_all_lights.duration', 4294967295)
        I_.ghost.setdefault('Dev', PyList()).items.append((stub, 'set_color_all_lights', a[0], a[1]))

    def set_power_all(I_, o, a, k):
        chk(I_, a[0], 'set_power_all_lights.power', 65535)
        chk(I_, a[1], 'set_power_all_lights.duration', 4294967295)
        I_.ghost.setdefault('Dev', PyList()).items.append((stub, 'set_power_all_lights', a[0], a[1]))
    stub.methods.update(set_color_all_lights=set_color_all, set_power_all_lights=set_power_all)
    api = PyObj(b.cls('bardolph.controller.lifx_lan_api', 'LifxLanApi'), {'_lifxlan': stub})
    return api, stub


def color_matrix(b, height, width, cells):
    """real ColorMatrix (constructor bypassed); cells: row-major list of None / PyList colours."""
    cls = b.cls('bardolph.controller.color_matrix', 'ColorMatrix')
    rows = [PyList([cells[r * width + c] for c in range(width)]) for r in range(height)]
    return PyObj(cls, {'_height': height, '_width': width, '_mat': PyList(rows)})
