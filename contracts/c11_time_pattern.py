"""C11: TimePattern (bardolph/lib/time_pattern.py) against the denotation of the property statement.

A field is '*' (anything), a one-character hour d (H == d), or two characters each of which is '*'
or must equal the corresponding digit of the two-digit rendering of the number.  Pattern fields are
strings of concrete length (1 or 2) with *symbolic* characters constrained by REGEX_SPEC's groups,
so each clause is one symbolic query over all 131 x 121 well-formed patterns and all 1440 times.
"""
import z3
from pyvc.spec import contract, Scalar, Const, Chars
from pyvc.values import CharStr, SymVal, Builtin, PyObj
from pyvc.ops import to_term, mk
from pyvc import spec
from . import lib

T = 'bardolph/lib/time_pattern.py'
STAR = 42


def _ch(c):
    return c if z3.is_expr(c) else z3.IntVal(c)


def field_matches_term(pattern, n):
    """Den for one field: z3 Bool."""
    n = to_term(n, 'int')
    if isinstance(pattern, str):
        chars = [ord(ch) for ch in pattern]
    else:
        chars = pattern.chars
    if len(chars) == 1:
        c = _ch(chars[0])
        return z3.Or(c == STAR, n == c - 48)
    if len(chars) == 2:
        c0, c1 = _ch(chars[0]), _ch(chars[1])
        return z3.And(z3.Or(c0 == STAR, c0 == 48 + n / 10), z3.Or(c1 == STAR, c1 == 48 + n % 10))
    return z3.BoolVal(False)


def install(I):
    S = I.spec_fns
    S['field_matches'] = Builtin('spec.field_matches', lambda I_, a, k: mk(field_matches_term(a[0], a[1]), 'bool'))
    S['some_hour'] = Builtin('spec.some_hour', lambda I_, a, k: mk(z3.Or(*[field_matches_term(a[0], h) for h in range(24)]), 'bool'))
    S['some_minute'] = Builtin('spec.some_minute', lambda I_, a, k: mk(z3.Or(*[field_matches_term(a[0], m) for m in range(60)]), 'bool'))


spec.EXTRA_INSTALLERS.append(install)

DIG = '0123456789'


def hours_alts():
    """the hour fields REGEX_SPEC group 1 admits: * | *d | d* | dd | d"""
    return ['*', 'sd', 'ds', 'dd', 'd']


def minutes_alts():
    """group 2: dd | d* | *d | *"""
    return ['*', 'sd', 'ds', 'dd']


def build_field(b, shape, name):
    if shape == '*':
        return '*'
    cs = []
    for i, ch in enumerate(shape):
        if ch == 's':
            cs.append(STAR)
        else:
            c = b.sym('int', '%s_c%d' % (name, i))
            b.between(c, 48, 57)
            cs.append(c.t if isinstance(c, SymVal) else c)
    if all(isinstance(x, int) for x in cs):     # replay: concrete field
        return ''.join(chr(x) for x in cs)
    return CharStr(cs)


# ---- _number_match: positionwise agreement with the two-digit rendering
c = contract(T, 'TimePattern._number_match', serves=['C11'])
def _setup(b, case):
    n = b.sym('int', 'number')
    b.between(n, 0, 59)
    return {'number': n, 'pattern': build_field(b, case['shape'], 'pattern')}
c.setup(_setup)
c.cases([{'shape': s} for s in ('sd', 'ds', 'dd')])
c.ensures('denotation', 'iff(result, field_matches(pattern, number))')

# ---- validity: accepted <=> some time of day matches the field
for fn, alts, some in (('hours_valid', hours_alts(), 'some_hour'), ('minutes_valid', minutes_alts(), 'some_minute')):
    c = contract(T, 'TimePattern.' + fn, serves=['C11', 'C06'])
    def _setup(b, case, fn=fn):
        return {fn.split('_')[0]: build_field(b, case['shape'], 'f')}
    c.setup(_setup)
    c.cases([{'shape': s} for s in alts])
    c.ensures('valid-iff-matches-some-time', 'iff(result, %s(%s))' % (some, fn.split('_')[0]))

# ---- the sets built by the constructor: membership <=> denotation  (loop invariants over the 24 / 60 trips)
def _set_effect(attr, top):
    from pyvc.values import SymSet
    def eff(I, env):
        h = z3.Int('h!eff%d' % I.fresh_n)
        I.fresh_n += 1
        pat = env.vars['pattern']
        m = z3.Lambda([h], z3.And(h >= 0, h < top, field_matches_term(pat, h)))
        env.vars['self'].attrs[attr] = SymSet(m)
    return eff

c = contract(T, 'TimePattern._init_hour_set', serves=['C11'], modular=True)
c.effect(_set_effect('_hour_set', 24))
def _setup(b, case):
    tp = PyObj(b.cls('bardolph.lib.time_pattern', 'TimePattern'), {'_hour_set': b.I.call(b.I.builtins['set'], [], {}),
                                                                  '_minute_set': b.I.call(b.I.builtins['set'], [], {})})
    return {'self': tp, 'pattern': build_field(b, case['shape'], 'pattern')}
c.setup(_setup)
c.cases([{'shape': s} for s in hours_alts()])
c.loop(0, ['forall(lambda h: iff(select(self._hour_set, h), 0 <= h and h < _i and field_matches(pattern, h)))'],
       modifies=['self._hour_set'], index='_i', keep_index=True, cut_concrete=True)
c.ensures('members', 'forall(lambda h: iff(select(self._hour_set, h), 0 <= h and h < 24 and field_matches(pattern, h)))')

c = contract(T, 'TimePattern._init_minute_set', serves=['C11'], modular=True)
c.effect(_set_effect('_minute_set', 60))
c.setup(_setup)
c.cases([{'shape': s} for s in minutes_alts()])
c.loop(0, ['forall(lambda m: iff(select(self._minute_set, m), 0 <= m and m < _i and field_matches(pattern, m)))'],
       modifies=['self._minute_set'], index='_i', keep_index=True, cut_concrete=True)
c.ensures('members', 'forall(lambda m: iff(select(self._minute_set, m), 0 <= m and m < 60 and field_matches(pattern, m)))')

# ---- end to end: construct with the real constructor, then match(H, M) <=> Den
c = contract(T, 'TimePattern.match', serves=['C11'])
def _setup(b, case):
    hf = build_field(b, case['h'], 'hours')
    mf = build_field(b, case['m'], 'minutes')
    tp = b.new(('bardolph.lib.time_pattern', 'TimePattern'), hf, mf)
    H, Mi = b.sym('int', 'H'), b.sym('int', 'M')
    b.between(H, 0, 23)
    b.between(Mi, 0, 59)
    return {'self': tp, 'hours': H, 'minutes': Mi, '_hf': hf, '_mf': mf}
c.setup(_setup)
c.cases([{'h': h, 'm': m} for h in hours_alts() for m in minutes_alts()])
c.ensures('match-iff-denoted', 'iff(result, field_matches(_hf, hours) and field_matches(_mf, minutes))')


# ---- alternatives mean OR; using a pattern never changes it or any other pattern (frame)
def _two_patterns(b, case):
    out = {}
    for nm in ('p', 'q'):
        hf = build_field(b, case[nm + 'h'], nm + '_hours')
        mf = build_field(b, case[nm + 'm'], nm + '_minutes')
        out[nm] = b.new(('bardolph.lib.time_pattern', 'TimePattern'), hf, mf)
        out['_%sh' % nm], out['_%sm' % nm] = hf, mf
    H, Mi = b.sym('int', 'H'), b.sym('int', 'M')
    b.between(H, 0, 23)
    b.between(Mi, 0, 59)
    out['H'], out['M'] = H, Mi
    return out

PAIRS = [{'ph': 'dd', 'pm': 'dd', 'qh': 'dd', 'qm': 'dd'}, {'ph': 'sd', 'pm': 'ds', 'qh': 'ds', 'qm': 'sd'},
         {'ph': '*', 'pm': 'dd', 'qh': 'd', 'qm': '*'}, {'ph': 'd', 'pm': 'sd', 'qh': 'dd', 'qm': 'ds'}]
DEN_P = '(field_matches(_ph, H) and field_matches(_pm, M))'
DEN_Q = '(field_matches(_qh, H) and field_matches(_qm, M))'

c = contract(T, 'union_then_match', serves=['C11'], name='lemma:TimePattern.union;match', src='''
def union_then_match(p, q, H, M):
    p.union(q)
    return (p.match(H, M), q.match(H, M))
''')
def _setup(b, case):
    d = _two_patterns(b, case)
    return {'p': d['p'], 'q': d['q'], 'H': d['H'], 'M': d['M'], '_ph': d['_ph'], '_pm': d['_pm'], '_qh': d['_qh'], '_qm': d['_qm']}
c.setup(_setup)
c.cases(PAIRS)
c.ensures('exactly-the-union', 'iff(result[0], %s or %s)' % (DEN_P, DEN_Q))
c.ensures('operand-unchanged', 'iff(result[1], %s)' % DEN_Q)

c = contract('bardolph/vm/machine.py', 'time_at_p_or_q', serves=['C11', 'C17', 'C01', 'C10'], name='lemma:Machine._time_pattern(INIT p; UNION q)', src='''
def time_at_p_or_q(self, p, q, H, M):
    from bardolph.vm.instruction import Instruction
    self._program = [Instruction(OpCode.TIME_PATTERN, SetOp.INIT, p), Instruction(OpCode.TIME_PATTERN, SetOp.UNION, q)]
    self._reg.pc = 0
    self._time_pattern()
    self._reg.pc = 1
    self._time_pattern()
    first = self._reg.time.match(H, M)
    # the same statement executed again (a loop, or a second run of the job)
    self._reg.pc = 0
    self._time_pattern()
    self._reg.pc = 1
    self._time_pattern()
    again = self._reg.time.match(H, M)
    # a NEXT statement `time at p` (the same macro, hence the same pattern object, without alternatives)
    self._reg.pc = 0
    self._time_pattern()
    return (first, again, p.match(H, M), q.match(H, M), self._reg.time.match(H, M))
''')
def _setup(b, case):
    d = _two_patterns(b, case)
    m = lib.machine(b, 'LOGICAL', lib.light_set_with(b, {}))
    return {'self': m, 'p': d['p'], 'q': d['q'], 'H': d['H'], 'M': d['M'], '_ph': d['_ph'], '_pm': d['_pm'], '_qh': d['_qh'], '_qm': d['_qm']}
c.setup(_setup)
c.cases(PAIRS)
c.ensures('waits-for-exactly-the-union', 'iff(result[0], %s or %s)' % (DEN_P, DEN_Q))
c.ensures('same-when-executed-again', 'iff(result[1], result[0])')
c.ensures('first-operand-unchanged', 'iff(result[2], %s)' % DEN_P)
c.ensures('second-operand-unchanged', 'iff(result[3], %s)' % DEN_Q)
c.ensures('a-following-time-at-p-waits-for-p-alone', 'iff(result[4], %s)' % DEN_P)


# ---- three alternatives: a time matched only by the third one is matched (any number follows by the same clause per alternative)
c = contract(T, 'three_alternatives', serves=['C11'], name='lemma:p.union(q); p.union(r); match', src='''
def three_alternatives(p, q, r, H, M):
    p.union(q)
    p.union(r)
    return (p.match(H, M), q.match(H, M), r.match(H, M))
''')
def _setup(b, case):
    out = {}
    for nm in ('p', 'q', 'r'):
        hf = build_field(b, 'dd', nm + '_hours')
        mf = build_field(b, case[nm], nm + '_minutes')
        out[nm] = b.new(('bardolph.lib.time_pattern', 'TimePattern'), hf, mf)
        out['_%sh' % nm], out['_%sm' % nm] = hf, mf
    H, Mi = b.sym('int', 'H'), b.sym('int', 'M')
    b.between(H, 0, 23)
    b.between(Mi, 0, 59)
    out['H'], out['M'] = H, Mi
    return out
c.setup(_setup)
c.cases([{'p': 'dd', 'q': 'ds', 'r': 'sd'}, {'p': 'sd', 'q': 'dd', 'r': 'dd'}])
DEN_R = '(field_matches(_rh, H) and field_matches(_rm, M))'
c.ensures('exactly-the-union-of-all-three', 'iff(result[0], %s or %s or %s)' % (DEN_P, DEN_Q, DEN_R))
c.ensures('operands-unchanged', 'iff(result[1], %s) and iff(result[2], %s)' % (DEN_Q, DEN_R))


# ---- the compiler's literal reader: a pattern text that can never match a time yields no constant (and a message),
#      whichever statement it appears in (define p 24:00 / time at p must not compile into a wait that never ends)
from . import parserlib as PL
for text, valid, hit, miss in (('12:30', True, (12, 30), (12, 31)), ('*:15', True, (7, 15), (7, 16)), ('2*:*5', True, (23, 45), (19, 45)),
                               ('24:00', False, None, None), ('7:60', False, None, None), ('3*:00', False, None, None), ('0:6*', False, None, None)):
    c = contract('bardolph/parser/parse.py', 'Parser._current_literal', serves=['C11', 'C06'], name='Parser._current_literal[TIME_PATTERN %s]' % text)
    def _setup(b, case, text=text):
        pr = PL.parser(b, first_token=PL.concrete_token(b.I, 'TIME_PATTERN', text))
        return {'self': pr}
    c.setup(_setup)
    if valid:
        c.ensures('the-pattern-it-spells', "result.match(%d, %d) and not result.match(%d, %d) and self._error_output == ''" % (hit + miss))
    else:
        c.ensures('no-constant-and-a-message', "result is None and self._error_output != ''")


# ---- the statement itself on a concrete token sequence: `time at 12:30 or *:15 <next statement>` is accepted and compiles to
#      INIT 12:30; UNION *:15 (the cursor must be ON the first pattern when the pattern list is read, and stop after the last)
c = contract('bardolph/parser/parse.py', 'Parser._time', serves=['C11', 'C06', 'C10'], name='Parser._time[time at 12:30 or *:15 set]')
def _setup(b, case):
    T = lambda t, text=None: PL.concrete_token(b.I, t, text)
    pr = PL.parser(b, first_token=T('REGISTER', 'time'), then=(T('AT'), T('TIME_PATTERN', '12:30'), T('OR'), T('TIME_PATTERN', '*:15'), T('SET')))
    return {'self': pr}
c.setup(_setup)
c.no_loop_cuts = True
c.ensures('accepted-without-a-message', "result is True and self._error_output == old(self._error_output)")
c.ensures('first-replaces-second-is-added', "len(emitted(self)) == 2 and instr(emitted(self)[0], 'TIME_PATTERN', SetOp.INIT) and instr(emitted(self)[1], 'TIME_PATTERN', SetOp.UNION) "
          "and emitted(self)[0].param1.match(12, 30) and not emitted(self)[0].param1.match(7, 15) and emitted(self)[1].param1.match(7, 15) and not emitted(self)[1].param1.match(12, 30)")
c.ensures('stops-on-the-next-statement', 'self._current_token._token_type is TokenTypes.SET')


# ---- the literal reader on numerals: an integer numeral is that integer (exactly, however long), a numeral with a
#      decimal point is a float - also 1.0 (print 1.0 writes 1.0, print 1 writes 1)
for text, kind, val in (('3', 'int', 3), ('0', 'int', 0), ('007', 'int', 7), ('9007199254740993', 'int', 9007199254740993),
                        ('1.0', 'float', 1.0), ('2.5', 'float', 2.5), ('.5', 'float', 0.5), ('10.', None, None), ('120.00', 'float', 120.0)):
    if kind is None:
        continue
    c = contract('bardolph/parser/parse.py', 'Parser._current_literal', serves=['C19', 'C02', 'C06', 'C01'], name='Parser._current_literal[NUMBER %s]' % text)
    def _setup(b, case, text=text):
        return {'self': PL.parser(b, first_token=PL.concrete_token(b.I, 'NUMBER', text))}
    c.setup(_setup)
    c.ensures('the-number-it-spells-as-the-kind-it-spells', "result == %r and typename(result) == '%s' and self._error_output == ''" % (val, kind))


# ---- round 9: "using a pattern never changes what any other pattern matches later" with the REAL bodies of the constructor and its
#      helpers (the contracts above stand in for _init_hour_set / _init_minute_set at call sites, so state kept *between* two
#      constructions - a table of field sets keyed by the field text, say - would be invisible to them).  Concrete field texts that are
#      legal in both positions; the same text is used as an hour field first and as a minute field afterwards, and the other way round.
for _f in ('0*', '1*', '2*', '*0', '*3', '*5', '*9', '*', '05', '23', '10'):
    c = contract(T, 'same_field_in_both_positions', serves=['C11', 'C17'],
                 name='lemma:TimePattern(%s, ..) then TimePattern(.., %s) and the reverse [real bodies]' % (_f, _f), src='''
def same_field_in_both_positions(f, H, M):
    a = TimePattern(f, '00')
    b = TimePattern('8', f)
    c = TimePattern('9', f)
    d = TimePattern(f, '30')
    return (a.match(H, 0), b.match(8, M), c.match(9, M), d.match(H, 30))
''')
    def _setup(b, case, f=_f):
        H, Mi = b.sym('int', 'H'), b.sym('int', 'M')
        b.between(H, 0, 23)
        b.between(Mi, 0, 59)
        return {'f': f, 'H': H, 'M': Mi}
    c.setup(_setup)
    c.no_loop_cuts = True
    c.real_bodies_only = True
    c.bounded('one concrete field text; every hour and minute')
    c.ensures('hour-use-first', 'iff(result[0], field_matches(f, H))')
    c.ensures('minute-use-after-hour-use', 'iff(result[1], field_matches(f, M))')
    c.ensures('minute-use-again', 'iff(result[2], field_matches(f, M))')
    c.ensures('hour-use-after-minute-use', 'iff(result[3], field_matches(f, H))')
