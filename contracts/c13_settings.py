"""bardolph/lib/settings.py: configured values reach their readers as configured - also 0, False and '' (the expiry age
light_gc_time = 0, sleep_time = 0, single_light_discover = False ...); the default is used only for a key that is absent."""
from pyvc.spec import contract
from pyvc.values import PyObj, PyDict

ST = 'bardolph/lib/settings.py'

for kind, val in (('int', None), ('zero', 0), ('false', False), ('empty-string', ''), ('real', None)):
    c = contract(ST, 'Settings.get_value', serves=['C13', 'C10', 'C20', 'C09'], name='Settings.get_value[configured: %s]' % kind)
    def _setup(b, case, kind=kind, val=val):
        v = b.sym(kind, 'configured') if val is None else val
        other = b.sym('int', 'other_value')
        s = PyObj(b.cls('bardolph.lib.settings', 'Settings'), {'_config': PyDict({'light_gc_time': v, 'other_key': other})})
        return {'self': s, 'name': 'light_gc_time', 'default': b.sym('int', 'default'), '_v': v}
    c.setup(_setup)
    c.ensures('the-configured-value-itself', 'result is _v' if val is not None else 'result == _v')

c = contract(ST, 'Settings.get_value', serves=['C13', 'C10', 'C20', 'C09'], name='Settings.get_value[key absent]')
def _setup(b, case):
    s = PyObj(b.cls('bardolph.lib.settings', 'Settings'), {'_config': PyDict({'other_key': b.sym('int', 'other_value')})})
    return {'self': s, 'name': 'light_gc_time', 'default': b.sym('int', 'default')}
c.setup(_setup)
c.ensures('the-default', 'result == default')
