"""colorsys.rgb_to_hsv / hsv_to_rgb (pure-Python stdlib, read from the interpreter that runs the repo)
against the textbook hexagon formulas, so that callers can use the contract instead of the body."""
from pyvc.spec import contract, Scalar
from . import lib

c = contract('stdlib:colorsys', 'rgb_to_hsv', serves=['C07', 'C14'], name='colorsys.rgb_to_hsv', modular=True)
c.returns(lambda I, env: (I.fresh('real', 'h'), I.fresh('real', 's'), I.fresh('real', 'v')))
c.arg('r', Scalar('real'))
c.arg('g', Scalar('real'))
c.arg('b', Scalar('real'))
c.requires('unit-cube', '0 <= r <= 1 and 0 <= g <= 1 and 0 <= b <= 1')
c.reveal('reveal_hsv(r, g, b)')
c.ensures('v', 'result[2] == hsv_v(r, g, b)')
c.ensures('s', 'result[1] == hsv_s(r, g, b)')
c.ensures('h', 'result[0] == hsv_h(r, g, b)')
c.ensures('ranges', '0 <= result[0] < 1 and 0 <= result[1] <= 1 and 0 <= result[2] <= 1')


# hsv_to_rgb: the result is an rgb triple whose HSV is the argument ("the same colour"): value always,
# saturation when v > 0, hue (as an angle, mod 1) when s > 0 and v > 0.
c = contract('stdlib:colorsys', 'hsv_to_rgb', serves=['C07', 'C14'], name='colorsys.hsv_to_rgb', modular=True)
c.returns(lambda I, env: (I.fresh('real', 'r'), I.fresh('real', 'g'), I.fresh('real', 'b')))
c.arg('h', Scalar('real'))
c.arg('s', Scalar('real'))
c.arg('v', Scalar('real'))
c.requires('unit-ranges', '0 <= h <= 1 and 0 <= s <= 1 and 0 <= v <= 1')
c.reveal('reveal_hsv(result[0], result[1], result[2])')
c.ensures('unit-cube', '0 <= result[0] <= 1 and 0 <= result[1] <= 1 and 0 <= result[2] <= 1')
c.ensures('v', 'hsv_v(result[0], result[1], result[2]) == v')
c.ensures('s', 'v > 0 ==> hsv_s(result[0], result[1], result[2]) == s')
c.ensures('h', 'v > 0 and s > 0 ==> hsv_h(result[0], result[1], result[2]) == h - floor(h)')
c.ensures('grey', 's == 0 ==> result[0] == v and result[1] == v and result[2] == v')
