"""colorsys.rgb_to_hsv / hsv_to_rgb (pure-Python stdlib, read from the interpreter that runs the repo)
against the textbook hexagon formulas, so that callers can use the contract instead of the body."""
from pyvc.spec import contract, Scalar
from . import lib

c = contract('stdlib:colorsys', 'rgb_to_hsv', serves=['C07', 'C14'], name='colorsys.rgb_to_hsv', modular=True)
c.returns(lambda I, env: (I.fresh('real', 'h'), I.fresh('real', 's'), I.fresh('real', 'v')))
c.arg('r', Scalar('real'))
c.arg('g', Scalar('real'))
c.arg('b', Scalar('real'))
c.requires('unit-cube', '0 <= r <= 1 and 0 <= g <= 1 and 0 <= b <= 1')
c.ensures('v', 'result[2] == hsv_v(r, g, b)')
c.ensures('s', 'result[1] == hsv_s(r, g, b)')
c.ensures('h', 'result[0] == hsv_h(r, g, b)')
c.ensures('ranges', '0 <= result[0] < 1 and 0 <= result[1] <= 1 and 0 <= result[2] <= 1')
