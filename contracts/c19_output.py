"""C19: print, println and printf write exactly the documented text to standard output.

Ghost Out is the sequence of pieces handed to print() (assumed: print(x, end=e) appends str(x) then e).
str.format is uninterpreted (the specification says "as Python's str.format would"): both sides build the
same structured term format(fmt, args, kwargs).
"""
from pyvc.spec import contract
from pyvc.values import PyObj, PyList, PyDict
from . import lib

from pyvc import spec as _spec
from pyvc.values import Builtin as _Builtin
def _install_sys(I):
    I.spec_fns['sys_stdout'] = _Builtin('spec.sys_stdout', lambda I_, a, k: I_.load_module('sys').ns['stdout'])
_spec.EXTRA_INSTALLERS.append(_install_sys)

SO = 'bardolph/lib/std_out_output.py'
VI = 'bardolph/vm/vm_io.py'


def sink(b, pending):
    return PyObj(b.cls('bardolph.lib.std_out_output', 'StdOutOutput'), {'_line_pending': pending})


for pend in (False, True):
    c = contract(SO, 'StdOutOutput.out', serves=['C19'], name='StdOutOutput.out[pending=%s]' % pend)
    def _setup(b, case, pend=pend):
        b.ghost('Out', PyList())
        return {'self': sink(b, pend), 'output': b.sym('int', 'x')}
    c.setup(_setup)
    if pend:
        c.ensures('single-space-then-text', "out_is(' ', output) and self._line_pending is True")
    else:
        c.ensures('text-only-at-line-start', "out_is(output) and self._line_pending is True")

    # text that itself ends the line (printf "...\\n") leaves no line open: what follows starts a line and gets no separator
    c = contract(SO, 'StdOutOutput.out', serves=['C19'], name='StdOutOutput.out[pending=%s, any text]' % pend)
    def _setup(b, case, pend=pend):
        b.ghost('Out', PyList())
        return {'self': sink(b, pend), 'output': b.sym('str', 'text')}
    c.setup(_setup)
    c.ensures('separator-only-inside-a-line', "out_is(' ', output)" if pend else "out_is(output)")
    c.ensures('a-line-is-open-afterwards-unless-the-text-ended-it', "self._line_pending == (not output.endswith('\\n'))")

    c = contract(SO, 'StdOutOutput.newline', serves=['C19'], name='StdOutOutput.newline[pending=%s]' % pend)
    def _setup(b, case, pend=pend):
        b.ghost('Out', PyList())
        return {'self': sink(b, pend)}
    c.setup(_setup)
    c.ensures('ends-the-line', "out_is('\\n') and self._line_pending is False")

    c = contract(SO, 'StdOutOutput.flush', serves=['C19'], name='StdOutOutput.flush[pending=%s]' % pend)
    c.setup(_setup)
    # the property leaves open whether an unfinished last line gets a final line break
    c.ensures('forgets-the-pending-line', "(out_is('\\n') or out_is()) and self._line_pending is False")


# ---- under the production binding (light_module.configure -> std_out_output.configure) the separator state survives
SRC = '''
def print_sequence(self, x, y, z):
    from bardolph.lib import std_out_output, injection
    from bardolph.vm.instruction import Instruction
    from bardolph.vm.vm_codes import OpCode
    injection.configure()
    std_out_output.configure()
    self._reg.result = x
    self.out(Instruction(OpCode.OUT, IoOp.REGISTER, Register.RESULT))
    self.out(Instruction(OpCode.OUT, IoOp.PRINT))                    # print x
    self._reg.result = y
    self.out(Instruction(OpCode.OUT, IoOp.REGISTER, Register.RESULT))
    self.out(Instruction(OpCode.OUT, IoOp.PRINT))                    # print y
    self.out(Instruction(OpCode.OUT, IoOp.PRINT_END))                # println
    self._reg.result = z
    self.out(Instruction(OpCode.OUT, IoOp.REGISTER, Register.RESULT))
    self.out(Instruction(OpCode.OUT, IoOp.PRINT))                    # print z
    self.flush()                                                     # end of script
    self._reg.result = x                                             # the NEXT script, same process: a fresh line
    self.out(Instruction(OpCode.OUT, IoOp.REGISTER, Register.RESULT))
    self.out(Instruction(OpCode.OUT, IoOp.PRINT))
'''
c = contract(VI, 'print_sequence', serves=['C19', 'C17'], src=SRC, name='lemma:print x print y println print z <end>; next script prints x (production binding)')
def _setup(b, case):
    m = lib.machine(b, 'LOGICAL', lib.light_set_with(b, {}))
    b.ghost('Out', PyList())
    return {'self': m.attrs['_vm_io'], 'x': b.sym('int', 'x'), 'y': b.sym('real', 'y'), 'z': b.sym('int', 'z')}
c.setup(_setup)
# whether the unterminated last line gets a final line break is not stated by the property: both accepted
c.ensures('text-space-text-newline-text-then-the-next-script-starts-unseparated', "out_is(x, ' ', y, '\\n', z, '\\n', x) or out_is(x, ' ', y, '\\n', z, x)")

# ---- printf and print on one line / on successive lines
for fmt, ends_line in (('v={}', False), ('v={}\\n', True), ('{}', False), ('{}\\n\\n', True)):
    c = contract(VI, 'printf_then_print', serves=['C19'], name='lemma:printf %r a; print b (production binding)' % fmt, src='''
def printf_then_print(self, a, b):
    from bardolph.lib import std_out_output, injection
    from bardolph.vm.instruction import Instruction
    from bardolph.vm.vm_codes import OpCode
    injection.configure()
    std_out_output.configure()
    self._reg.result = a
    self.out(Instruction(OpCode.OUT, IoOp.REGISTER, Register.RESULT))
    self.out(Instruction(OpCode.OUT, IoOp.PRINTF, %r))
    self._reg.result = b
    self.out(Instruction(OpCode.OUT, IoOp.REGISTER, Register.RESULT))
    self.out(Instruction(OpCode.OUT, IoOp.PRINT))
''' % fmt)
    def _setup(b, case):
        m = lib.machine(b, 'LOGICAL', lib.light_set_with(b, {}))
        b.ghost('Out', PyList())
        return {'self': m.attrs['_vm_io'], 'a': b.sym('int', 'a'), 'b': b.sym('int', 'b')}
    c.setup(_setup)
    real = fmt.replace('\\n', '\n')
    if ends_line:
        c.ensures('the-print-starts-its-line-unseparated', 'out_is(%r.format(a), b)' % real)
    else:
        c.ensures('one-space-between-successive-outputs-on-a-line', "out_is(%r.format(a), ' ', b)" % real)

# ---- the same printf executed a second time (a loop, a routine called twice, the same statement again) prints as the first time
c = contract(VI, 'printf_twice', serves=['C19', 'C17', 'C01'], name="lemma:printf '{v}:{}' executed twice", src='''
def printf_twice(self, a, b):
    from bardolph.vm.instruction import Instruction
    from bardolph.vm.vm_codes import OpCode
    inst = Instruction(OpCode.OUT, IoOp.PRINTF, '{v}:{}')
    self._unnamed.append(a)
    self.out(inst)
    self._unnamed.append(b)
    self.out(inst)
''')
def _setup(b, case):
    from pyvc.values import Opaque
    m = lib.machine(b, 'LOGICAL', lib.light_set_with(b, {}))
    v = b.sym('int', 'var_v')
    m.attrs['_call_stack'].attrs['_top'].attrs['vars'].d.update({'v': v})
    calls = b.ghost('Calls', PyList())
    out = Opaque('output', {'out': lambda I_, o, a, k: calls.items.append((o, 'out', tuple(a)))})
    out.native = {'kind': 'generic'}
    lib.provide(b, b.module('bardolph.lib.i_lib').ns['Output'], out)
    return {'self': m.attrs['_vm_io'], 'a': b.sym('int', 'a'), 'b': b.sym('int', 'b'), '_v': v}
c.setup(_setup)
c.crosscheck = False
c.ensures('both-times-as-str-format-would', "len(ghost('Calls')) == 2 and ghost('Calls')[0][2][0] == '{v}:{}'.format(a, v=_v) and ghost('Calls')[1][2][0] == '{v}:{}'.format(b, v=_v)")

# ---- printf
for fmt, nfields in (('{} and {}\\n', 2), ('{1}-{0} {hue:.1f} {v}', 2), ('no fields', 0), ('{:>6} {saturation} {w}', 1)):
  for vkind in ('int', 'str'):
    if vkind == 'str' and not nfields:
        continue
    c = contract(VI, 'VmIo._printf', serves=['C19'], unwrap=1, name='VmIo._printf[%r,%s values]' % (fmt, vkind))
    def _setup(b, case, fmt=fmt, nfields=nfields, vkind=vkind):
        m = lib.machine(b, 'LOGICAL', lib.light_set_with(b, {}))
        io = m.attrs['_vm_io']
        vals = [b.sym(vkind, 'p%d' % i) for i in range(nfields)]
        b.I.getattr_(io, '_unnamed').items.extend(vals)
        reg = lib.sym_regs(b, m, 'real', ('hue', 'saturation'))
        v, w = b.sym('int', 'var_v'), b.sym(vkind, 'var_w')
        m.attrs['_call_stack'].attrs['_top'].attrs['vars'].d.update({'v': v, 'w': w})
        from pyvc.values import Opaque
        calls = b.ghost('Calls', PyList())
        out = Opaque('output', {'out': lambda I_, o, a, k: calls.items.append((o, 'out', tuple(a)))})
        out.native = {'kind': 'generic'}
        inst = b.new(('bardolph.vm.instruction', 'Instruction'), b.enum('bardolph.vm.vm_codes', 'OpCode', 'OUT'),
                     b.enum('bardolph.vm.vm_codes', 'IoOp', 'PRINTF'), fmt)
        return {'self': io, 'inst': inst, 'output': out, '_vals': PyList(list(vals)), '_reg': reg, '_v': v, '_w': w}
    c.setup(_setup)
    real = fmt.replace('\\n', '\n')
    named = {'{1}-{0} {hue:.1f} {v}': "hue=_reg.hue, v=_v", '{:>6} {saturation} {w}': "saturation=_reg.saturation, w=_w"}.get(fmt, '')
    args = ', '.join('_vals[%d]' % i for i in range(nfields))
    call = ', '.join(x for x in (args, named) if x)
    c.ensures('as-str-format-would', "len(ghost('Calls')) == 1 and ghost('Calls')[0][2][0] == %r.format(%s)" % (real, call))
    c.ensures('pending-values-consumed', 'len(self._unnamed) == 0')


# ---- pending values belong to ONE machine: another job starting (its Machine.reset) must not discard or mix them
c = contract(VI, 'two_jobs', serves=['C19', 'C17'], name='lemma:job A collected a value; job B starts; A prints', src='''
def two_jobs(io_a, machine_b, x):
    from bardolph.vm.instruction import Instruction
    from bardolph.vm.vm_codes import OpCode
    from bardolph.lib import std_out_output
    std_out_output.configure()
    io_a._reg.result = x
    io_a.out(Instruction(OpCode.OUT, IoOp.REGISTER, Register.RESULT))    # print x ... (value collected)
    machine_b.reset()                                                    # meanwhile another job starts
    io_a.out(Instruction(OpCode.OUT, IoOp.PRINT))                        # ... the print itself
''')
def _setup(b, case):
    ma = lib.machine(b, 'LOGICAL', lib.light_set_with(b, {}))
    mb = b.new(b.cls('bardolph.vm.machine', 'Machine'))
    b.ghost('Out', PyList())
    return {'io_a': ma.attrs['_vm_io'], 'machine_b': mb, 'x': b.sym('int', 'x')}
c.setup(_setup)
c.ensures('a-prints-its-own-value', 'out_is(x)')


# ---- the compiler side of printf: the format handed to the VM is the RESOLVED text (a literal's text or the value of the
#      macro named), one value phrase per positional field ({} or {n}), named fields take no value
from . import parserlib as PL
IOP = 'bardolph/parser/io_parser.py'
for how in ('literal', 'macro'):
    for fmt, npos in (('{} and {}\\n', 2), ('{1}-{0} {hue:.1f} {v}', 2), ('no fields', 0), ('{:>6} {saturation} {w}', 1), ('{{}} {}', 1),
                      ('{10}{0}', 2)):       # a field number of two digits is a positional field like any other (as in str.format)
        c = contract(IOP, 'IoParser.printf', serves=['C19', 'C06'], uses=('parser',), name='IoParser.printf[%s %r]' % (how, fmt))
        def _setup(b, case, how=how, fmt=fmt):
            if how == 'literal':
                tok = PL.concrete_token(b.I, 'LITERAL_STRING', fmt)
            else:
                tok = PL.concrete_token(b.I, 'NAME', 'fmt_macro')
            pr = PL.parser(b, first_token=PL.concrete_token(b.I, 'PRINTF'), then=(tok,))
            if how == 'macro':
                symcls = b.cls('bardolph.lib.symbol', 'Symbol')
                styp = b.cls('bardolph.lib.symbol', 'SymbolType')
                sym = PyObj(symcls, {'_name': 'fmt_macro', '_symbol_type': styp.members['MACRO'], '_value': fmt})
                for table in (pr.attrs['_context'].attrs['_globals'], pr.attrs['_context'].attrs['_locals']):
                    b.I.ghost['symbols'][(id(table), repr('fmt_macro'))] = sym
            iop = b.new(('bardolph.parser.io_parser', 'IoParser'), pr)
            b.ghost('nesting_at_last_phrase', None)
            return {'self': iop, '_p': pr}
        c.setup(_setup)
        c.ensures('accept-or-message', 'result is True or (falsy(result) and errs() > old(errs()))')
        c.ensures('no-message-when-accepted', 'result is True ==> errs() == old(errs())')
        if npos == 0:       # nothing but the format (a literal, or a macro that holds one): nothing can be wrong with it
            c.ensures('a-format-without-fields-is-accepted-as-it-is', 'result is True')
        else:               # a rejection can only come from a value phrase: the format itself (literal or macro) is accepted
            c.ensures('the-format-is-accepted-a-rejection-comes-from-a-value', "falsy(result) ==> ghost('nesting_at_last_phrase') is not None")
        c.ensures('one-value-per-positional-field-then-the-resolved-format',
                  "result is True ==> len(emitted(_p)) == %d and instr(emitted(_p)[-1], 'OUT', IoOp.PRINTF) and emitted(_p)[-1].param1 == %r and %s"
                  % (2 * npos + 1, fmt, ' and '.join(["is_seg(emitted(_p)[%d], 'value') and instr(emitted(_p)[%d], 'OUT', IoOp.REGISTER, Register.RESULT)" % (2 * i, 2 * i + 1)
                                                      for i in range(npos)]) or 'True'))


# ---- round 9: a named field takes the CURRENT register or variable of that name at every execution: the same format text is
#      executed while no variable `Hue` exists (the register is printed), again after `assign Hue ..` (the variable), and again
#      after the variable changed (what a field refers to must not be remembered per format text)
c = contract(VI, 'printf_named_field_over_time', serves=['C19', 'C17', 'C01'],
             name="lemma:printf '{Hue}' ; assign Hue ; printf '{Hue}' ; assign Hue ; printf '{Hue}'", src='''
def printf_named_field_over_time(self, x, y):
    from bardolph.vm.instruction import Instruction
    from bardolph.vm.vm_codes import OpCode
    inst = Instruction(OpCode.OUT, IoOp.PRINTF, 'h={Hue};')
    self.out(inst)
    self._call_stack.put_variable('Hue', x)
    self.out(inst)
    self._call_stack.put_variable('Hue', y)
    self.out(Instruction(OpCode.OUT, IoOp.PRINTF, 'h={Hue};'))
''')
def _setup(b, case):
    from pyvc.values import Opaque
    m = lib.machine(b, 'LOGICAL', lib.light_set_with(b, {}))
    reg = lib.sym_regs(b, m, 'int', ('hue',))
    calls = b.ghost('Calls', PyList())
    out = Opaque('output', {'out': lambda I_, o, a, k: calls.items.append((o, 'out', tuple(a)))})
    out.native = {'kind': 'generic'}
    lib.provide(b, b.module('bardolph.lib.i_lib').ns['Output'], out)
    return {'self': m.attrs['_vm_io'], 'x': b.sym('int', 'x'), 'y': b.sym('int', 'y'), '_reg': reg}
c.setup(_setup)
c.crosscheck = False
c.ensures('register-then-the-variable-as-it-is-now',
          "len(ghost('Calls')) == 3 and ghost('Calls')[0][2][0] == 'h={Hue};'.format(Hue=_reg.hue) "
          "and ghost('Calls')[1][2][0] == 'h={Hue};'.format(Hue=x) and ghost('Calls')[2][2][0] == 'h={Hue};'.format(Hue=y)")

# ---- named printf fields: a variable is found under its exact (case-sensitive) name, also when the name resembles an
#      internal register (Hue, power, result, name, pc ...); the ten documented register names give the register
c = contract(VI, 'VmIo._printf', serves=['C19', 'C16'], unwrap=1, name="VmIo._printf['{Hue}|{power}|{result}|{hue}', variables named like registers]")
def _setup(b, case):
    from pyvc.values import Opaque
    m = lib.machine(b, 'LOGICAL', lib.light_set_with(b, {}))
    io = m.attrs['_vm_io']
    reg = lib.sym_regs(b, m, 'real', ('hue',))
    vs = {n: b.sym('int', 'var_' + n) for n in ('Hue', 'power', 'result')}
    m.attrs['_call_stack'].attrs['_top'].attrs['vars'].d.update(vs)
    calls = b.ghost('Calls', PyList())
    out = Opaque('output', {'out': lambda I_, o, a, k: calls.items.append((o, 'out', tuple(a)))})
    out.native = {'kind': 'generic'}
    inst = b.new(('bardolph.vm.instruction', 'Instruction'), b.enum('bardolph.vm.vm_codes', 'OpCode', 'OUT'),
                 b.enum('bardolph.vm.vm_codes', 'IoOp', 'PRINTF'), '{Hue}|{power}|{result}|{hue}')
    return {'self': io, 'inst': inst, 'output': out, '_reg': reg, '_Hue': vs['Hue'], '_power': vs['power'], '_result': vs['result']}
c.setup(_setup)
c.ensures('variables-by-their-exact-names-registers-by-the-documented-ones',
          "len(ghost('Calls')) == 1 and ghost('Calls')[0][2][0] == '{Hue}|{power}|{result}|{hue}'.format(Hue=_Hue, power=_power, result=_result, hue=_reg.hue)")


# ---- standard output belongs to the script: the log goes to a file or to the error stream, never to standard output
#      (logging.basicConfig without `stream` writes to sys.stderr)
LC = 'bardolph/lib/log_config.py'
for console in (True, False):
    c = contract(LC, 'LogConfig.configure', serves=['C19'], name='LogConfig.configure[log_to_console=%s]' % console)
    def _setup(b, case, console=console):
        from pyvc.values import Opaque
        lib.injection_reset(b)
        def get_value(I_, o, a, k):
            if a[0] == 'log_to_console':
                return console
            return a[1] if len(a) > 1 else None
        lib.provide(b, b.cls('bardolph.lib.i_lib', 'Settings'), Opaque('settings', {'get_value': get_value}))
        b.ghost('logging_config', PyList())
        dt = b.module('datetime')
        return {'self': PyObj(b.cls('bardolph.lib.log_config', 'LogConfig'), {})}
    c.setup(_setup)
    c.ensures('configured-once-and-never-onto-standard-output',
              "len(ghost('logging_config')) == 1 and (not ('stream' in ghost('logging_config')[0]) or not same(ghost('logging_config')[0]['stream'], sys_stdout()))"
              + (" and not ('filename' in ghost('logging_config')[0])" if console else " and 'filename' in ghost('logging_config')[0]"))
