"""C04 / C12: bardolph/vm/vm_discover.py — the stepping primitives under `repeat all / in / group / location`.

The light set is the real LightSet class laid out with up to 3 names (symbolic atoms of a total order, strictly
increasing); the name asked for may be known or unknown.  An unknown group / location (or an emptied one) must give
zero iterations (Operand.NULL), never an exception that would end the script (C12).
"""
from pyvc.spec import contract
from pyvc.values import PyObj, PyList, PyDict, SymVal
from . import lib

VD = 'bardolph/vm/vm_discover.py'


def _world(b, operand, n, known=True):
    """VmDiscover over real Registers / CallStack; the collection stepped over has n names"""
    names = [b.sym('atom', 'name%d' % i) for i in range(n)]
    for i in range(n - 1):
        if isinstance(names[i], SymVal):
            b.assume(names[i].t < names[i + 1].t)
    b.nonempty(*names)          # assumed: lights, groups and locations have non-empty names
    key = b.sym('atom', 'collection')
    other = b.sym('atom', 'asked')
    if isinstance(key, SymVal) and not known:
        b.assume(other.t != key.t)
    lights = {}
    groups, locations = {}, {}
    if operand == 'GROUP':
        groups = {key: names}
    elif operand == 'LOCATION':
        locations = {key: names}
    ls = lib.light_set_with(b, lights, groups, locations)
    if operand == 'LIGHT':
        sl = b.cls('bardolph.lib.sorted_list', 'SortedList')
        ls.attrs['_light_names'] = PyList(list(names), sl)
    lib.injection_reset(b)
    lib.provide(b, b.cls('bardolph.controller.i_controller', 'LightSet'), ls)
    m = b.module('bardolph.vm.machine')
    reg = b.new(m.ns['Registers'])
    reg.attrs['operand'] = b.enum('bardolph.vm.vm_codes', 'Operand', operand)
    reg.attrs['disc_forward'] = b.sym('bool', 'forward')
    cs = b.new(b.cls('bardolph.vm.call_stack', 'CallStack'), PyDict())
    vd = b.new(b.cls('bardolph.vm.vm_discover', 'VmDiscover'), cs, reg)
    return vd, names, key if known else other


for operand in ('GROUP', 'LOCATION'):
    for n in (1, 2, 3):
        c = contract(VD, 'VmDiscover.discm', serves=['C04', 'C12'], name='VmDiscover.discm[%s,%d members]' % (operand, n))
        def _setup(b, case, operand=operand, n=n):
            vd, names, key = _world(b, operand, n)
            return {'self': vd, 'name': key, '_first': names[0], '_last': names[-1]}
        c.setup(_setup)
        c.bounded('%d members' % n)
        c.ensures('starts-at-the-end-the-direction-says', 'self._reg.result is (_first if old(self._reg.disc_forward) else _last)')
    c = contract(VD, 'VmDiscover.discm', serves=['C04', 'C12'], name='VmDiscover.discm[%s,unknown name]' % operand)
    def _setup(b, case, operand=operand):
        vd, names, asked = _world(b, operand, 2, known=False)
        return {'self': vd, 'name': asked}
    c.setup(_setup)
    c.ensures('zero-iterations-not-a-fault', 'self._reg.result is Operand.NULL')

for operand in ('GROUP', 'LOCATION', 'LIGHT'):
    c = contract(VD, 'VmDiscover.disc', serves=['C04', 'C12'], name='VmDiscover.disc[%s,nothing known]' % operand)
    def _setup(b, case, operand=operand):
        ls = lib.light_set_with(b, {})
        lib.injection_reset(b)
        lib.provide(b, b.cls('bardolph.controller.i_controller', 'LightSet'), ls)
        reg = b.new(b.module('bardolph.vm.machine').ns['Registers'])
        reg.attrs['operand'] = b.enum('bardolph.vm.vm_codes', 'Operand', operand)
        reg.attrs['disc_forward'] = b.sym('bool', 'forward')
        cs = b.new(b.cls('bardolph.vm.call_stack', 'CallStack'), PyDict())
        return {'self': b.new(b.cls('bardolph.vm.vm_discover', 'VmDiscover'), cs, reg)}
    c.setup(_setup)
    c.ensures('zero-iterations-not-a-fault', 'self._reg.result is Operand.NULL')

# stepping: from ANY current name (it may have vanished meanwhile) to the next greater / smaller one, NULL at the end
for operand, meth in (('GROUP', 'dnextm'), ('LOCATION', 'dnextm'), ('LIGHT', 'dnext')):
    for n in (1, 2, 3):
        c = contract(VD, 'VmDiscover.' + meth, serves=['C04'], name='VmDiscover.%s[%s,%d names]' % (meth, operand, n))
        def _setup(b, case, operand=operand, n=n, meth=meth):
            vd, names, key = _world(b, operand, n)
            cur = b.sym('atom', 'current')
            d = {'self': vd}
            if meth == 'dnextm':
                d['name'] = key
            d.update({'current': cur, '_names': PyList(list(names))})       # (arguments are passed in this order)
            return d
        c.setup(_setup)
        c.bounded('%d names' % n)
        c.ensures('forward-the-least-greater-name-else-null',
                  "old(self._reg.disc_forward) ==> ((self._reg.result is Operand.NULL and all(x <= current for x in _names)) or "
                  "(any(self._reg.result is x for x in _names) and self._reg.result > current and all(x <= current or x >= self._reg.result for x in _names)))")
        c.ensures('backward-the-greatest-smaller-name-else-null',
                  "not old(self._reg.disc_forward) ==> ((self._reg.result is Operand.NULL and all(x >= current for x in _names)) or "
                  "(any(self._reg.result is x for x in _names) and self._reg.result < current and all(x >= current or x <= self._reg.result for x in _names)))")


# ---- stepping uses the directory as it is NOW: a group / location that vanished after the iteration started is not
#      visited, one that appeared is (the name lists must not be remembered across steps)
for operand, field in (('GROUP', '_groups'), ('LOCATION', '_locations')):
    for change in ('vanishes', 'appears'):
        c = contract(VD, 'step_after_change', serves=['C04', 'C13'], name='lemma:disc; a %s %s; dnext [forward]' % (operand.lower(), change), src='''
def step_after_change(vd, table, key, members, current):
    vd.disc()
    first = vd._reg.result
    if members is None:
        del table[key]
    else:
        table[key] = members
    vd.dnext(current)
    return (first, vd._reg.result)
''')
        def _setup(b, case, operand=operand, field=field, change=change):
            n = [b.sym('atom', 'name%d' % i) for i in range(3)]
            for i in range(2):
                b.assume(n[i].t < n[i + 1].t) if isinstance(n[i], SymVal) else None
            b.nonempty(*n)
            m = b.sym('atom', 'member')
            present = {n[0]: [m], n[2]: [m]} if change == 'appears' else {n[0]: [m], n[1]: [m], n[2]: [m]}
            ls = lib.light_set_with(b, {}, **{field[1:]: present})
            lib.injection_reset(b)
            lib.provide(b, b.cls('bardolph.controller.i_controller', 'LightSet'), ls)
            reg = b.new(b.module('bardolph.vm.machine').ns['Registers'])
            reg.attrs['operand'] = b.enum('bardolph.vm.vm_codes', 'Operand', operand)
            reg.attrs['disc_forward'] = True
            cs = b.new(b.cls('bardolph.vm.call_stack', 'CallStack'), PyDict())
            vd = b.new(b.cls('bardolph.vm.vm_discover', 'VmDiscover'), cs, reg)
            sl = b.cls('bardolph.lib.sorted_list', 'SortedList')
            return {'vd': vd, 'table': ls.attrs[field], 'key': n[1], 'members': PyList([m], sl) if change == 'appears' else None,
                    'current': n[0], '_n0': n[0], '_n1': n[1], '_n2': n[2]}
        c.setup(_setup)
        c.bounded('three names')
        c.ensures('starts-at-the-first', 'result[0] is _n0')
        c.ensures('next-is-the-next-name-of-the-directory-as-it-is-now', 'result[1] is (_n1 if %s else _n2)' % ('True' if change == 'appears' else 'False'))
