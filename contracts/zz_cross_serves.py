"""Cross-property use of contracts: per-line replay lemmas of C18 are the raw-mode handler contracts (C07/C15) and
the statement templates (C06); C01 is carried by the handler, template and control contracts of the other files."""
import re
from pyvc import spec

RULES = [
    ('C18', [r'^Machine\._color_light\[RAW,int\]', r'^Machine\._power_light\[RAW', r'^Machine\._color_mz_light\[RAW,int', r'^Machine\._color_matrix_light\[RAW,int\]',
             r"^Parser\._set_reg\[\('REGISTER', '(hue|saturation|brightness|kelvin)'\)", r'^Parser\._set\[', r'^Parser\._power_o', r'^Parser\._operand$',
             r'^MatrixParser\.matrix_spec\[BEGIN\]', r'^Parser\._stage', r'^Parser\._set_units', r'^MatrixParser\._inline_operand', r'^Parser\._zone_range']),
    ('C01', [r'^Machine\._switch_unit_mode', r'^CallStack\.', r'^StackFrame\.', r'^VmMath\.', r'^lemma:JUMP', r'^Light\.', r'^MultizoneLight\.', r'^EvalStack', r'^Settings\.']),
    ('C02', [r'^CallStack\.', r'^StackFrame\.', r'^StdOutOutput\.out', r'^EvalStack', r'^lemma:push a; push b']),
    ('C04', [r'^Light\.', r'^MultizoneLight\.', r'^EvalStack', r'^lemma:push a; push b']),
    ('C06', [r'^EvalStack', r'^lemma:push a; push b']),
    ('C03', [r'^EvalStack', r'^lemma:push a; push b']),
    ('C07', [r'^Machine\._color_matrix_light\[.* lacks the capability']),
    ('C08', [r'^Settings\.']),
    ('C11', [r'^Context\.clear', r'^ScriptJob\.load_', r'^Parser\.parse\[', r'^lemma:parse\(t1\)']),
    ('C12', [r'^ColorMatrix\._standardize_raw', r'^lemma:repeat 0 ', r'^lemma:repeat n with v cycle']),
    ('C13', [r'^lemma:two requests through the same wrapper']),
    ('C17', [r'^lemma:two requests through the same wrapper']),
    ('C14', [r'^Machine\._color_default']),
    ('C15', [r'^CallStack\.enter_loop', r'^CallStack\.put_variable', r'^lemma:two requests through the same wrapper']),
    ('C20', [r'^Light\.get_color', r'^Light\.get_power']),
    ('C15', [r'^round$']),
    ('C19', [r'^VmMath\.logical_op', r'^cycle$', r'^round$']),
    ('C17', [r'^cycle$']),
    # round 6: a compiler re-used after a rejected text (C16: compilation depends only on the token sequence); a stop needs the
    # running state under the job's own name (C09); an emptied directory gives zero iterations (C13)
    ('C16', [r'^Context\.clear']),
    ('C09', [r'^WebApp\.get_script_control']),
    ('C13', [r'^VmDiscover\.disc\[']),
    ('C02', [r'^Machine\.reset$']),
    # round 7: the job's name is the (escaped) manifest path on every layer (C08: reported as running under its name; C09: stopped by it);
    # a job that raises frees its slot (C20: the next request must not find a dead script "running"); the built-ins are known at every compile (C16)
    ('C08', [r'^WebApp\.queue_script']),
    ('C09', [r'^WebApp\.queue_script']),
    ('C20', [r'^Agent\._execute_and_call', r'^JobControl\.is_running']),
    ('C16', [r'^lemma:parse\(t1\); parse\(t2\)']),
    # a word that becomes a register name is an assignment to that register (`pc 2` would be a jump no jump instruction shows): C05;
    # what a `time at` wait waits for is the minute / hour set of its pattern: C10
    ('C05', [r'^Lex\._token_type']),
    ('C10', [r'^TimePattern\._init_minute_set', r'^TimePattern\._init_hour_set', r'^TimePattern\.match']),
    # round 8: `return v` delivers v to the point of call also when the call is written directly as a register's value (C03);
    # the named fields of printf are part of the OUT instruction's semantics (C01)
    ('C03', [r'^Parser\._rvalue\[dest=']),
    ('C01', [r'^VmIo\._printf']),
    # round 9: a duration set before a `units` switch is transmitted after it - its exactness (C07) rests on the switch keeping the
    # register's meaning; a stop by name is forwarded only if the job is reported as running under that name, in the queue or in the
    # background, whatever else is active (C09)
    ('C07', [r'^Machine\._switch_unit_mode']),
    ('C09', [r'^JobControl\.is_running']),
]
for pid, pats in RULES:
    for c in spec.REGISTRY:
        if c.serves and any(re.search(p, c.name) for p in pats) and pid not in c.serves:
            c.serves.append(pid)
