"""C13 (directory part): bardolph/controller/light_set.py.

Pre-states are *all* consistent directories with up to NMAX lights: names, group names and location names
are symbolic atoms of a total order; every partition of the lights into groups and into locations is a
case.  The representation invariant Inv (the property statement, literally) is assumed on entry and proved
on exit of every operation, together with the operation's effect on the abstract directory view
{name -> (light object, group, location)}.  This is a proof for every population of at most NMAX lights
(all names / memberships), NOT for unbounded populations: it is reported as bounded(NMAX).
"""
import itertools
import z3
from pyvc.spec import contract
from pyvc.values import PyObj, PyList, PyDict, SymVal, Builtin, Opaque
from pyvc.ops import to_term, mk
from pyvc.interp import PyRaise
from pyvc import spec
from . import lib

L = 'bardolph/controller/light_set.py'
NMAX = 3


def partitions(n):
    """all set partitions of range(n) as lists of blocks (each block sorted)"""
    if n == 0:
        yield []
        return
    for p in partitions(n - 1):
        for i in range(len(p)):
            yield p[:i] + [p[i] + [n - 1]] + p[i + 1:]
        yield p + [[n - 1]]


def T(x):
    return to_term(x, 'int') if not isinstance(x, SymVal) else x.t


def And(*xs):
    xs = [x for x in xs if x is not True]
    if any(x is False for x in xs):
        return z3.BoolVal(False)
    return z3.And(*xs) if xs else z3.BoolVal(True)


def Or(*xs):
    xs = [x for x in xs if x is not False]
    if any(x is True for x in xs):
        return z3.BoolVal(True)
    return z3.Or(*xs) if xs else z3.BoolVal(False)


def eq(a, b):
    if a is b:
        return True
    return T(a) == T(b)


def sorted_items(items):
    return And(*[T(items[i]) < T(items[i + 1]) for i in range(len(items) - 1)])


def members_inv(ls_attrs, dname, field):
    """group/location dictionary part of Inv"""
    d = ls_attrs[dname].d
    lights = ls_attrs['_lights'].d
    cs = []
    keys = list(d.keys())
    for i in range(len(keys)):
        for j in range(i + 1, len(keys)):
            cs.append(z3.Not(eq(keys[i], keys[j])) if eq(keys[i], keys[j]) is not True else False)
    for k, lst in d.items():
        cs.append(len(lst.items) > 0)                       # never empty
        cs.append(sorted_items(lst.items))                  # sorted, duplicate-free
        for m in lst.items:                                 # every member is a known light
            cs.append(Or(*[eq(m, n) for n in lights.keys()]))
    for n, light in lights.items():                         # exactly the one group it last reported
        g = light.attrs[field]
        cs.append(Or(*[eq(k, g) for k in d.keys()]))
        for k, lst in d.items():
            inlist = Or(*[eq(n, m) for m in lst.items])
            cs.append(inlist == (eq(k, g) if eq(k, g) is not True else z3.BoolVal(True)))
    return And(*cs)


def dir_inv_term(ls):
    a = ls.attrs
    lights = a['_lights'].d
    names = a['_light_names'].items
    cs = [sorted_items(names)]
    for n in lights.keys():
        cs.append(Or(*[eq(n, m) for m in names]))
    for m in names:
        cs.append(Or(*[eq(n, m) for n in lights.keys()]))
    ks = list(lights.keys())
    for i in range(len(ks)):
        for j in range(i + 1, len(ks)):
            cs.append(z3.Not(eq(ks[i], ks[j])))
    for n, light in lights.items():
        cs.append(eq(light.attrs['_name'], n))
    cs.append(members_inv(a, '_groups', '_group'))
    cs.append(members_inv(a, '_locations', '_location'))
    return And(*cs)


def install(I):
    F = I.spec_fns
    F['dir_inv'] = Builtin('spec.dir_inv', lambda I_, a, k: mk(dir_inv_term(a[0]), 'bool'))

    def knows(I_, a, k):
        """knows(ls, light): the directory maps light's name to exactly this object"""
        ls, light = a
        out = []
        for n, l in I_.read_dict(ls.attrs['_lights']).items():
            if l is light:
                out.append(eq(n, light.attrs['_name']))
        return mk(Or(*out), 'bool')
    F['knows'] = Builtin('spec.knows', knows)

    def knows_name(I_, a, k):
        ls, name = a
        return mk(Or(*[eq(n, name) for n in I_.read_dict(ls.attrs['_lights']).keys()]), 'bool')
    F['knows_name'] = Builtin('spec.knows_name', knows_name)

    def count_lights(I_, a, k):
        return len(I_.read_dict(a[0].attrs['_lights']))
    F['count_lights'] = Builtin('spec.count_lights', count_lights)

    def others_kept(I_, a, k):
        """every light of the pre-state whose name differs from `name` is still known, same object"""
        ls, name = a
        old = I_.old_snapshot.get(id(ls.attrs['_lights']), {})
        new = ls.attrs['_lights'].d
        cs = []
        for n, l in old.items():
            cs.append(Or(eq(n, name), Or(*[And(eq(n, n2), z3.BoolVal(l is l2)) for n2, l2 in new.items()])))
        return mk(And(*cs), 'bool')
    F['others_kept'] = Builtin('spec.others_kept', others_kept)

    def nothing_new_but(I_, a, k):
        ls, name = a
        old = I_.old_snapshot.get(id(ls.attrs['_lights']), {})
        new = ls.attrs['_lights'].d
        cs = []
        for n2 in new.keys():
            cs.append(Or(eq(n2, name), Or(*[eq(n2, n) for n in old.keys()])))
        return mk(And(*cs), 'bool')
    F['nothing_new_but'] = Builtin('spec.nothing_new_but', nothing_new_but)

    def same_directory(I_, a, k):
        """no light added, removed or replaced; memberships identical (structurally)"""
        ls = a[0]
        def shape(attrs):
            return ([(k_, id(v)) for k_, v in I_.old_snapshot.get(id(attrs['_lights']), attrs['_lights'].d).items()])
        snap = I_.old_snapshot
        ok = True
        for dn in ('_lights', '_groups', '_locations'):
            cur = ls.attrs[dn].d
            old = snap.get(id(ls.attrs[dn]), cur)
            if list(cur.keys()) != list(old.keys()) or any(cur[k_] is not old[k_] for k_ in cur):
                ok = False
        for dn in ('_groups', '_locations'):
            for k_, lst in ls.attrs[dn].d.items():
                oldl = snap.get(id(lst), lst.items)
                if len(oldl) != len(lst.items) or any(x is not y for x, y in zip(oldl, lst.items)):
                    ok = False
        nl = ls.attrs['_light_names']
        oldn = snap.get(id(nl), nl.items)
        if len(oldn) != len(nl.items) or any(x is not y for x, y in zip(oldn, nl.items)):
            ok = False
        return ok
    F['same_directory'] = Builtin('spec.same_directory', same_directory)

    def expired_exactly(I_, a, k):
        """after expiry: a pre-state light is still known iff its age (now - birth) <= max_age"""
        ls, now, max_age = a
        old = I_.old_snapshot.get(id(ls.attrs['_lights']), {})
        new = ls.attrs['_lights'].d
        cs = []
        for n, l in old.items():
            still = Or(*[And(eq(n, n2), z3.BoolVal(l is l2)) for n2, l2 in new.items()])
            age_ok = to_term(now, 'real') - to_term(l.attrs['_birth'], 'real') <= to_term(max_age, 'real')
            cs.append(still == age_ok)
        for n2 in new.keys():
            cs.append(Or(*[eq(n2, n) for n in old.keys()]))
        return mk(And(*cs), 'bool')
    F['expired_exactly'] = Builtin('spec.expired_exactly', expired_exactly)


spec.EXTRA_INSTALLERS.append(install)


def mk_light(b, i, tag=''):
    cls = b.cls('bardolph.controller.light', 'Light')
    return PyObj(cls, {'_name': b.sym('atom', '%sname%d' % (tag, i)), '_group': b.sym('atom', '%sgroup%d' % (tag, i)),
                       '_location': b.sym('atom', '%sloc%d' % (tag, i)), '_birth': b.sym('real', '%sbirth%d' % (tag, i))})


def directory(b, n, gpart, lpart):
    """a LightSet satisfying Inv with n lights; group / location partitions given as lists of blocks"""
    lights = [mk_light(b, i) for i in range(n)]
    for i in range(n - 1):              # names strictly increasing in index order (w.l.o.g.: the list is sorted)
        a, c = lights[i].attrs['_name'], lights[i + 1].attrs['_name']
        if isinstance(a, SymVal):
            b.assume(a.t < c.t)
    sl = b.cls('bardolph.lib.sorted_list', 'SortedList')

    def build(part, field):
        d = {}
        reps = []
        for block in part:
            rep = lights[block[0]].attrs[field]
            for j in block[1:]:
                x = lights[j].attrs[field]
                if isinstance(x, SymVal):
                    b.assume(x.t == rep.t)
                lights[j].attrs[field] = rep
            for r in reps:
                if isinstance(r, SymVal):
                    b.assume(r.t != rep.t)
            reps.append(rep)
            d[rep] = PyList([lights[j].attrs['_name'] for j in block], sl)
        return PyDict(d)
    ls = PyObj(b.cls('bardolph.controller.light_set', 'LightSet'), {
        '_lights': PyDict({l.attrs['_name']: l for l in lights}),
        '_light_names': PyList([l.attrs['_name'] for l in lights], sl),
        '_groups': build(gpart, '_group'), '_locations': build(lpart, '_location'),
        '_num_successful_discovers': b.sym('int', 'n_ok'), '_num_failed_discovers': b.sym('int', 'n_fail')})
    return ls, lights


CASES = []
for n in range(0, NMAX + 1):
    for gp in partitions(n):
        for lp in partitions(n):
            CASES.append({'n': n, 'g': gp, 'l': lp})
# location structure is handled by the same code as groups: for n = 3 keep the location partition aligned
# with a representative subset to bound the number of cases (all group partitions x {finest, coarsest, same})
def _keep(c):
    if c['n'] < 3:
        return True
    finest = [[i] for i in range(c['n'])]
    coarsest = [list(range(c['n']))]
    return c['l'] in (finest, coarsest, c['g'])
CASES = [c for c in CASES if _keep(c)]


def light_api_stub(b, lights, fail=False):
    ic = b.module('bardolph.controller.i_controller')
    def get_lights(I_, o, a, k):
        if fail:
            raise PyRaise(PyObj(ic.ns['LightException'], {'__args__': ('no answer',)}))
        return PyList(list(lights))
    st = Opaque('light_api', {'get_lights': get_lights}, classes=(ic.ns['LightApi'],))
    st.native = {'kind': 'data', 'raises': {'get_lights': ic.ns['LightException']}} if fail else \
        {'kind': 'data', 'returns': {'get_lights': PyList(list(lights))}}
    return st


# ---- discover: one light reported (new, or a known one possibly with another group / location)
c = contract(L, 'LightSet.discover', serves=['C13', 'C12'], unwrap=1, name='LightSet.discover[1 light]')
def _setup(b, case):
    ls, lights = directory(b, case['n'], case['g'], case['l'])
    x = mk_light(b, 9, 'new_')
    lib.injection_reset(b)
    api = light_api_stub(b, [x])
    return {'self': ls, 'light_api': api, '_x': x}
c.setup(_setup)
c.bounded('all directories of at most %d lights (names, groups, locations symbolic; every group partition)' % NMAX)
c.cases(CASES)
c.requires('inv', 'dir_inv(self)')
c.ensures('inv', 'dir_inv(self)')
c.ensures('reports-success', 'result is True')
c.ensures('now-known-as-reported', 'knows(self, _x)')
c.ensures('others-untouched', 'others_kept(self, _x._name) and nothing_new_but(self, _x._name)')

# ---- failed discovery: reports failure, previously known lights stay in place
c = contract(L, 'LightSet.discover', serves=['C13', 'C12'], unwrap=1, name='LightSet.discover[fails]')
def _setup(b, case):
    ls, lights = directory(b, case['n'], case['g'], case['l'])
    lib.injection_reset(b)
    return {'self': ls, 'light_api': light_api_stub(b, [], fail=True)}
c.setup(_setup)
c.bounded('all directories of at most 2 lights')
c.cases([k for k in CASES if k['n'] <= 2])
c.requires('inv', 'dir_inv(self)')
c.ensures('reports-failure', 'result is False')
c.ensures('directory-unchanged', 'same_directory(self)')
c.ensures('inv', 'dir_inv(self)')

# ---- refresh (discover, then expiry) while the network does not answer and nobody is old enough to expire: the failed
#      discovery "leaves the previously known lights in place" - the lights AND the groups and locations they form
c = contract(L, 'LightSet.refresh', serves=['C12', 'C13'], name='LightSet.refresh[discovery fails, nobody expired]')
def _setup(b, case):
    ls, lights = directory(b, case['n'], case['g'], case['l'])
    lib.injection_reset(b)
    ic = b.module('bardolph.controller.i_controller')
    lib.provide(b, ic.ns['LightApi'], light_api_stub(b, [], fail=True))
    now = b.sym('real', 'now')
    for l in lights:
        bt = l.attrs['_birth']
        if isinstance(bt, SymVal):
            b.assume(bt.t == now.t)                      # everybody answered just now: age 0
        else:
            l.attrs['_birth'] = now
    b.ghost('now', now)
    b.module('time').ns['time'] = Builtin('time.time', lambda I_, a, k: now)
    if not isinstance(now, SymVal):
        b.pre_exec.append('import time; time.time = lambda: %r' % (now,))
    settings = Opaque('settings', {'get_value': lambda I_, o, a, k: 1200})
    settings.native = {'kind': 'data', 'returns': {'get_value': 1200}}
    lib.provide(b, b.module('bardolph.lib.i_lib').ns['Settings'], settings)
    return {'self': ls}
c.setup(_setup)
c.bounded('all directories of at most 2 lights')
c.cases([k for k in CASES if k['n'] <= 2])
c.requires('inv', 'dir_inv(self)')
c.ensures('directory-unchanged', 'same_directory(self)')
c.ensures('inv', 'dir_inv(self)')

# ---- refresh = discover, then expire: the periodic refresh is where lights that stopped answering leave the directory
c = contract(L, 'LightSet.refresh', serves=['C13'], name='LightSet.refresh[nothing answers any more, everybody is too old]')
def _setup(b, case):
    ls, lights = directory(b, case['n'], case['g'], case['l'])
    lib.injection_reset(b)
    ic = b.module('bardolph.controller.i_controller')
    lib.provide(b, ic.ns['LightApi'], light_api_stub(b, []))
    now = b.sym('real', 'now')
    for l in lights:
        bt = l.attrs['_birth']
        if isinstance(bt, SymVal):
            b.assume(bt.t < now.t - 1200)
        else:
            l.attrs['_birth'] = now - 1300
    b.ghost('now', now)
    b.module('time').ns['time'] = Builtin('time.time', lambda I_, a, k: now)
    if not isinstance(now, SymVal):
        b.pre_exec.append('import time; time.time = lambda: %r' % (now,))
    settings = Opaque('settings', {'get_value': lambda I_, o, a, k: 1200})
    settings.native = {'kind': 'data', 'returns': {'get_value': 1200}}
    lib.provide(b, b.module('bardolph.lib.i_lib').ns['Settings'], settings)
    return {'self': ls}
c.setup(_setup)
c.bounded('all directories of at most 2 lights')
c.cases([k for k in CASES if k['n'] <= 2])
c.requires('inv', 'dir_inv(self)')
c.ensures('everybody-expired', 'len(self._lights) == 0 and len(self._light_names) == 0 and len(self._groups) == 0 and len(self._locations) == 0')
c.ensures('inv', 'dir_inv(self)')

# ---- expiry
c = contract(L, 'LightSet._garbage_collect', serves=['C13'], unwrap=1)
def _setup(b, case):
    ls, lights = directory(b, case['n'], case['g'], case['l'])
    max_age = b.sym('int', 'max_age')
    now = b.sym('real', 'now')
    for l in lights:
        bt = l.attrs['_birth']
        if isinstance(bt, SymVal):
            b.assume(bt.t <= now.t)
    b.ghost('now', now)
    def frozen_time(I_, a, k):
        return now
    b.module('time').ns['time'] = Builtin('time.time', frozen_time)      # time does not advance during expiry
    if not isinstance(now, SymVal):
        b.pre_exec.append('import time; time.time = lambda: %r' % (now,))
    settings = Opaque('settings', {'get_value': lambda I_, o, a, k: max_age})
    settings.native = {'kind': 'data', 'returns': {'get_value': max_age}}
    return {'self': ls, 'settings': settings, '_now': now, '_max_age': max_age}
c.setup(_setup)
c.bounded('all directories of at most %d lights' % NMAX)
c.cases(CASES)
c.requires('inv', 'dir_inv(self)')
c.ensures('inv', 'dir_inv(self)')
c.ensures('removes-exactly-the-expired', 'expired_exactly(self, _now, _max_age)')
c.assume_note('expiry: time.time() frozen during one _garbage_collect (ages compared at one instant)')


# ---- what callers SEE: the accessor results name exactly the current directory, whatever was read before ----------
# (a stale cached list is a violation of "the name lists name exactly the non-empty ones" that only a history shows:
#  read, change, read again)
def _install_views(I):
    F = I.spec_fns

    def names_exactly(I_, a, k):
        """names_exactly(lst, d): lst is strictly increasing and holds exactly the keys of d"""
        lst, d = a
        if lst is None or not hasattr(lst, 'items'):
            return False
        items = I_.read_items(lst)
        keys = list(I_.read_dict(d).keys())
        cs = [sorted_items(items)]
        for x in items:
            cs.append(Or(*[eq(x, k_) for k_ in keys]))
        for k_ in keys:
            cs.append(Or(*[eq(x, k_) for x in items]))
        return mk(And(*cs), 'bool')
    F['names_exactly'] = Builtin('spec.names_exactly', names_exactly)

    def members_exactly(I_, a, k):
        """members_exactly(ls, d): for every key of d, get_*_lights(key) returned the member list held for it"""
        pairs, d = a
        dd = I_.read_dict(d)
        ok = []
        for key, got in I_.read_items(pairs):
            hit = [And(eq(key, k_), z3.BoolVal(got is v)) for k_, v in dd.items()]
            ok.append(Or(*hit))
        return mk(And(*ok), 'bool')
    F['members_exactly'] = Builtin('spec.members_exactly', members_exactly)


spec.EXTRA_INSTALLERS.append(_install_views)

VIEW = '''
    def view(ls):
        g = ls.get_group_names()
        l = ls.get_location_names()
        return (g, l, ls.get_light_names(), [(n, ls.get_group_lights(n)) for n in g], [(n, ls.get_location_lights(n)) for n in l],
                ls.get_light_count(), len(ls.get_lights()))
'''
VIEW_OK = ('names_exactly(result[0], ls._groups) and names_exactly(result[1], ls._locations) and names_exactly(result[2], ls._lights) '
           'and members_exactly(result[3], ls._groups) and members_exactly(result[4], ls._locations) '
           'and result[5] == count_lights(ls) and result[6] == count_lights(ls)')
SMALL = [k for k in CASES if k['n'] <= 2]

c = contract(L, 'seen_after_discover', serves=['C13', 'C04'], name='lemma:read names; discover; read names', src='''
def seen_after_discover(ls):
%s
    view(ls)
    ls.discover()
    return view(ls)
''' % VIEW)
def _setup(b, case):
    ls, lights = directory(b, case['n'], case['g'], case['l'])
    x = mk_light(b, 9, 'new_')
    lib.injection_reset(b)
    lib.provide(b, b.cls('bardolph.controller.i_controller', 'LightApi'), light_api_stub(b, [x]))
    return {'ls': ls}
c.setup(_setup)
c.bounded('all directories of at most 2 lights, one light reported')
c.cases(SMALL)
c.requires('inv', 'dir_inv(ls)')
c.ensures('the-accessors-show-the-directory-as-it-is-now', VIEW_OK)

c = contract(L, 'seen_after_expiry', serves=['C13', 'C04'], name='lemma:read names; expire; read names', src='''
def seen_after_expiry(ls):
%s
    view(ls)
    ls._garbage_collect()
    return view(ls)
''' % VIEW)
def _setup(b, case):
    ls, lights = directory(b, case['n'], case['g'], case['l'])
    max_age = b.sym('int', 'max_age')
    now = b.sym('real', 'now')
    for l in lights:
        bt = l.attrs['_birth']
        if isinstance(bt, SymVal):
            b.assume(bt.t <= now.t)
    b.module('time').ns['time'] = Builtin('time.time', lambda I_, a, k: now)
    if not isinstance(now, SymVal):
        b.pre_exec.append('import time; time.time = lambda: %r' % (now,))
    settings = Opaque('settings', {'get_value': lambda I_, o, a, k: max_age})
    settings.native = {'kind': 'data', 'returns': {'get_value': max_age}}
    lib.injection_reset(b)
    lib.provide(b, b.cls('bardolph.lib.i_lib', 'Settings'), settings)
    return {'ls': ls}
c.setup(_setup)
c.bounded('all directories of at most 2 lights')
c.cases(SMALL)
c.requires('inv', 'dir_inv(ls)')
c.ensures('the-accessors-show-the-directory-as-it-is-now', VIEW_OK)


# ---- a light's age is the time since THAT light object was made (i.e. since it was last seen by a discovery):
#      expiry compares get_age() with the configured age, so the birth time must be taken when the object is built
LT = 'bardolph/controller/light.py'
c = contract(LT, 'age_of_new_light', serves=['C13'], name='lemma:Light(...) at t0; get_age() at t1', src='''
def age_of_new_light(name, group, location):
    import time as _t
    t0 = _t.time()
    light = Light(name, group, location)
    t1 = _t.time()
    age = light.get_age()
    t2 = _t.time()
    return (t0, t1, age, t2, light)
''')
c.setup(lambda b, case: {'name': b.sym('atom', 'name'), 'group': b.sym('atom', 'group'), 'location': b.sym('atom', 'location')})
c.ensures('age-counts-from-construction', 'result[2] <= result[3] - result[0] and result[2] >= 0')
c.ensures('reports-what-it-was-built-with', 'result[4].get_name() is name and result[4].get_group() is group and result[4].get_location() is location')
