"""C16: compilation depends only on the token sequence; every documented name is usable.

Proved (for EVERY word, a symbolic string): Lex._unabbreviate maps exactly H,S,B,K; Lex._token_type classifies a
word as keyword k iff the word IS the documented lower-case spelling of k, as REGISTER iff it is one of the ten
register names, and otherwise by its lexical class only - regular-expression matches are uninterpreted
predicates of the word here (the languages of the patterns are the regex engine's business).
Bounded stand-in (bounded/lex_enum.py, real Lex under CPython, NOT proof): identifiers incl. all case variants
of keywords and of the internal token-class names, re-layouts of a corpus (white space, tabs, line breaks,
comments, no space around operators/brackets), string-literal contents, every string up to length 3 (4 in
thorough) over a 21-symbol alphabet (lexer never raises, one EOF and last, NUMBER texts are numerals).
"""
import json
import os
import subprocess
import z3
from pyvc import spec
from pyvc.spec import contract
from pyvc.values import PyObj, Builtin, SymVal, EnumMember
from pyvc.ops import mk, to_term
from . import lib

LX = 'bardolph/parser/lex.py'
DOC_KEYWORDS = ('all and as assign at begin break breakpoint column cycle default define else end from get group if in location '
                'logical not off on or print printf println pause raw row repeat return rgb set stage to units while with wait zone').split()
REGISTERS = 'hue saturation brightness kelvin red green blue default duration time'.split()


def install(I):
    F = I.spec_fns

    def fn(name, f):
        F[name] = Builtin('spec.' + name, lambda I_, a, k: f(I_, *a))
    fn('is_documented_keyword', lambda I_, w: mk(z3.Or(*[to_term(w) == z3.StringVal(k) for k in DOC_KEYWORDS]), 'bool'))
    fn('is_register_name', lambda I_, w: mk(z3.Or(*[to_term(w) == z3.StringVal(k) for k in REGISTERS]), 'bool'))

    def keyword_type_is(I_, w, result):
        """result is the token type spelled like the word (upper-cased)"""
        if not isinstance(result, EnumMember):
            return False
        return mk(to_term(w) == z3.StringVal(result.name.lower()), 'bool')
    fn('keyword_type_is', keyword_type_is)

    def regex(I_, self, which, w):
        pat = self.cls.lookup('_' + which) if isinstance(self, PyObj) else None
        return I_.ghost['regex_pred'](pat, w)
    fn('matches', regex)


spec.EXTRA_INSTALLERS.append(install)


def lexer(b):
    """a Lex object; regular expressions applied to a symbolic word are uninterpreted predicates (one per pattern)"""
    I = b.I
    preds = {}

    def pred(pat, w):
        key = getattr(pat, 'pattern', repr(pat))
        if key not in preds:
            preds[key] = z3.Function('regex_%d_matches' % len(preds), z3.StringSort(), z3.BoolSort())
        return mk(preds[key](to_term(w)), 'bool')
    b.ghost('regex_pred', pred)
    lx = PyObj(b.cls('bardolph.parser.lex', 'Lex'), {'_lines': None, '_source': ''})
    return lx


c = contract(LX, 'Lex._unabbreviate', serves=['C16'])
c.arg('token', spec.Scalar('str'))
c.ensures('four-abbreviations', "(token == 'H' ==> result == 'hue') and (token == 'S' ==> result == 'saturation') and (token == 'B' ==> result == 'brightness') and (token == 'K' ==> result == 'kelvin')")
c.ensures('identity-otherwise', "token != 'H' and token != 'S' and token != 'B' and token != 'K' ==> result is token")

c = contract(LX, 'Lex._token_type', serves=['C16', 'C06'])
def _setup(b, case):
    return {'self': lexer(b), 'word': b.sym('str', 'word')}
c.setup(_setup)
c.ensures('keyword-iff-documented-lower-case-spelling', "is_documented_keyword(word) ==> keyword_type_is(word, result)")
c.ensures('nothing-else-is-a-keyword', "not is_documented_keyword(word) ==> result is TokenTypes.REGISTER or result is TokenTypes.COMPARE or result is TokenTypes.TIME_PATTERN "
          "or result is TokenTypes.LITERAL_STRING or result is TokenTypes.NUMBER or result is TokenTypes.NAME or result is TokenTypes.ERROR")
c.ensures('register-iff-register-name', "not is_documented_keyword(word) ==> iff(result is TokenTypes.REGISTER, is_register_name(word))")
c.ensures('names-by-lexical-class-only', "not is_documented_keyword(word) and not is_register_name(word) and not matches(self, 'CMP', word) and not matches(self, 'TIME_PATTERN', word) "
          "and not matches(self, 'STRING', word) and not matches(self, 'NUMBER', word) and matches(self, 'NAME', word) ==> result is TokenTypes.NAME")


def bounded_lexer(tier, seed):
    repo = os.environ.get('PYVC_REPO', '/repo')
    here = os.path.dirname(os.path.dirname(os.path.abspath(__file__)))
    p = subprocess.run(['/venv/bin/python', os.path.join(here, 'bounded', 'lex_enum.py'), repo, tier, str(seed)],
                       capture_output=True, text=True, timeout=3000)
    d = json.loads(p.stdout.strip().splitlines()[-1])
    viol = [{'name': v['name'], 'case': '', 'reproduced': True, 'info': {'what': v['what']},
             'replay': {'input': v['input'], 'observed': v['what'], 'how': 'bounded/lex_enum.py on the real Lex'}} for v in d['violations']]
    # one violation line per clause
    seen, uniq = set(), []
    for v in viol:
        if v['name'] not in seen:
            seen.add(v['name'])
            uniq.append(v)
    return {'name': 'bounded:lexer-enumeration', 'kind': 'bounded', 'bound': 'identifiers up to length %d over {a,Z,_,9} + all case variants of keywords / class names; '
            'every string up to length %d over 21 symbols; corpus re-layouts; string literals up to length %d' % ((3, 3, 3) if tier == 'quick' else (5, 4, 4)),
            'evaluations': sum(d['stats'].values()), 'stats': d['stats'], 'violations': uniq, 'path': 'bounded/lex_enum.py'}


spec.EXTRA_CHECKS = getattr(spec, 'EXTRA_CHECKS', {})
spec.EXTRA_CHECKS.setdefault('C16', []).append(bounded_lexer)
for _pid in ('C19', 'C06', 'C01', 'C18'):        # what the lexer delivers is what is printed / compiled / run
    spec.EXTRA_CHECKS.setdefault(_pid, []).append(bounded_lexer)


# ---- tokens are told apart by their CLASS, not by their text: a quoted string is a value whatever it spells
#      ("a quoted string may contain any characters"; braces round a single value change nothing)
from . import parserlib as PL
EPP = 'bardolph/parser/expr_parser.py'
PL.phrase_contract(EPP, 'ExpressionParser._atom', 'atom', min_len=1)       # for the recursion under a unary sign


def _atom_setup(type_name, content=None):
    def _setup(b, case):
        text = b.sym('str', 'token_text') if content is None else content
        tok = PL.concrete_token(b.I, type_name, text)
        pr = PL.parser(b, first_token=tok)
        ep = b.new(('bardolph.parser.expr_parser', 'ExpressionParser'), pr)
        return {'self': ep, '_p': pr}
    return _setup


for tname in ('LITERAL_STRING', 'NUMBER', 'NAME', 'REGISTER'):
    c = contract(EPP, 'ExpressionParser._atom', serves=['C16', 'C02', 'C06'], uses=('parser',), name='ExpressionParser._atom[%s, any text]' % tname)
    c.setup(_atom_setup(tname))
    c.ensures('accept-or-message', 'result is True or (falsy(result) and errs() > old(errs()))')
    c.ensures('no-message-when-accepted', 'result is True ==> errs() == old(errs())')
    c.ensures('an-operand-token-is-an-operand-whatever-it-spells',
              "result is True ==> len(emitted(_p)) == 1 and is_seg(emitted(_p)[0], 'value')")

c = contract(EPP, 'ExpressionParser._atom', serves=['C02', 'C06'], uses=('parser',), name="ExpressionParser._atom[MARK '(']")
c.setup(_atom_setup('MARK', '('))
c.ensures('accept-or-message', 'result is True or (falsy(result) and errs() > old(errs()))')
c.ensures('no-message-when-accepted', 'result is True ==> errs() == old(errs())')
c.ensures('parenthesised-expression', "result is True ==> len(emitted(_p)) == 1 and is_seg(emitted(_p)[0], 'expr') and tokens_consumed() >= 3")
c = contract(EPP, 'ExpressionParser._atom', serves=['C02', 'C06'], uses=('parser',), name="ExpressionParser._atom[MARK '-']")
c.setup(_atom_setup('MARK', '-'))
c.ensures('accept-or-message', 'result is True or (falsy(result) and errs() > old(errs()))')
c.ensures('no-message-when-accepted', 'result is True ==> errs() == old(errs())')
c.ensures('a-leading-minus-negates-its-operand', "result is True ==> len(emitted(_p)) == 3 and is_seg(emitted(_p)[0], 'atom') and "
          "instr(emitted(_p)[1], 'PUSHQ', -1) and instr(emitted(_p)[2], 'OP', Operator.MUL)")
c = contract(EPP, 'ExpressionParser._atom', serves=['C02', 'C06'], uses=('parser',), name="ExpressionParser._atom[MARK '+']")
c.setup(_atom_setup('MARK', '+'))
c.ensures('accept-or-message', 'result is True or (falsy(result) and errs() > old(errs()))')
c.ensures('no-message-when-accepted', 'result is True ==> errs() == old(errs())')
c.ensures('a-leading-plus-changes-nothing', "result is True ==> len(emitted(_p)) == 1 and is_seg(emitted(_p)[0], 'atom')")

# Token.is_binop / prec: a quoted string is never an operator
c = contract('bardolph/parser/token.py', 'string_token_class', serves=['C16', 'C02'], name='lemma:a quoted string is never an operator', src='''
def string_token_class(tok):
    return (tok.is_binop, tok.prec)
''')
def _setup(b, case):
    tt = b.cls('bardolph.parser.token', 'TokenTypes')
    from pyvc.values import PyObj
    return {'tok': PyObj(b.cls('bardolph.parser.token', 'Token'), {'_token_type': tt.members['LITERAL_STRING'], '_content': b.sym('str', 'content'),
                                                                  '_line_number': 1, '_file_name': ''})}
c.setup(_setup)
c.ensures('not-a-binary-operator', 'result[0] is False or not result[0]')
c.ensures('no-precedence', 'result[1] == -1')

# the statement-level value parser: a quoted string is the value it spells, for every text and every destination
for dname, mkdest in (('Register.RESULT', lambda b: b.enum('bardolph.vm.vm_codes', 'Register', 'RESULT')),
                      ('variable', lambda b: b.sym('str', 'dest_name')),
                      ('OpCode.PUSH', lambda b: b.enum('bardolph.vm.vm_codes', 'OpCode', 'PUSH'))):
    c = contract('bardolph/parser/parse.py', 'Parser._rvalue', serves=['C16', 'C06', 'C01'], uses=('parser',),
                 name='Parser._rvalue[LITERAL_STRING, any text, dest=%s]' % dname)
    def _setup(b, case, mkdest=mkdest):
        text = b.sym('str', 'token_text')
        pr = PL.parser(b, first_token=PL.concrete_token(b.I, 'LITERAL_STRING', text))
        return {'self': pr, 'dest': mkdest(b), '_text': text}
    c.setup(_setup)
    c.ensures('accepted', 'result is True and errs() == old(errs()) and tokens_consumed() == old(tokens_consumed()) + 1')
    if dname == 'OpCode.PUSH':
        c.ensures('pushes-the-text-itself', "len(emitted(self)) == 1 and instr(emitted(self)[0], 'PUSHQ') and emitted(self)[0].param0 == _text")
    else:
        c.ensures('moves-the-text-itself', "len(emitted(self)) == 1 and instr(emitted(self)[0], 'MOVEQ') and emitted(self)[0].param0 == _text and same_dest(emitted(self)[0].param1, dest)")


# ---- Parser._at_rvalue (the look-ahead that decides whether an optional value follows): decided by the token's CLASS;
#      a token without text (end of file, a keyword) never starts a value, whatever names the script defines
for tname, expect in (('EOF', 'result is False'), ('END', 'result is False'), ('PRINT', 'result is False'), ('AND', 'result is False'),
                      ('LITERAL_STRING', 'result is True'), ('NUMBER', 'result is True'), ('REGISTER', 'result == include_reg')):
    c = contract('bardolph/parser/parse.py', 'Parser._at_rvalue', serves=['C16', 'C06'], uses=('parser',), name='Parser._at_rvalue[%s]' % tname)
    def _setup(b, case, tname=tname):
        pr = PL.parser(b, first_token=PL.concrete_token(b.I, tname, 'hue' if tname == 'REGISTER' else None))
        return {'self': pr, 'include_reg': b.sym('bool', 'include_reg')}
    c.setup(_setup)
    c.ensures('by-token-class', expect)
    c.ensures('pure', "errs() == old(errs()) and tokens_consumed() == old(tokens_consumed()) and len(emitted(self)) == 0")
# asked without saying whether registers count (print hue, the count of a repeat, the end of a range): they do - a register is a value
c = contract('bardolph/parser/parse.py', 'Parser._at_rvalue', serves=['C16', 'C06', 'C19'], uses=('parser',), name='Parser._at_rvalue[REGISTER, asked the plain way]')
c.setup(lambda b, case: {'self': PL.parser(b, first_token=PL.concrete_token(b.I, 'REGISTER', 'hue'))})
c.ensures('a-register-is-a-value', 'result is True')
for mark in '{[':
    c = contract('bardolph/parser/parse.py', 'Parser._at_rvalue', serves=['C16', 'C06'], uses=('parser',), name="Parser._at_rvalue[MARK '%s']" % mark)
    c.setup(lambda b, case, mark=mark: {'self': PL.parser(b, first_token=PL.concrete_token(b.I, 'MARK', mark)), 'include_reg': b.sym('bool', 'include_reg')})
    c.ensures('opens-a-value', 'result is True')


# ---- braces round a single variable or register: the compiler emits PUSH v; POP d instead of MOVE v d.
#      Both leave the same value in the destination and the operand stack as it was.
for src_kind in ('variable', 'register'):
    c = contract('bardolph/vm/machine.py', 'braces_or_not', serves=['C16', 'C02'], name='lemma:PUSH v; POP d == MOVE v d [%s]' % src_kind, src='''
def braces_or_not(m, src, d1, d2):
    from bardolph.vm.instruction import Instruction
    depth = len(m._vm_math._eval_stack._stack)
    m._program = [Instruction(OpCode.PUSH, src), Instruction(OpCode.POP, d1), Instruction(OpCode.MOVE, src, d2)]
    m._reg.pc = 0
    m._push()
    m._reg.pc = 1
    m._pop()
    m._reg.pc = 2
    m._move()
    return (m._call_stack.get_variable(d1), m._call_stack.get_variable(d2), len(m._vm_math._eval_stack._stack) - depth)
''')
    def _setup(b, case, src_kind=src_kind):
        from . import lib
        m = lib.machine(b, 'LOGICAL', lib.light_set_with(b, {}))
        v = b.sym('real', 'value')
        if src_kind == 'variable':
            m.attrs['_call_stack'].attrs['_top'].attrs['vars'].d['v'] = v
            src = 'v'
        else:
            m.attrs['_reg'].attrs['hue'] = v
            src = b.enum('bardolph.vm.vm_codes', 'Register', 'HUE')
        return {'m': m, 'src': src, 'd1': 'with_braces', 'd2': 'without', '_v': v}
    c.setup(_setup)
    c.ensures('same-value-either-way', 'result[0] == _v and result[1] == _v and result[2] == 0')


# ---- the names the compiler reserves for built-in functions are exactly the documented ones: nothing else that happens
#      to live in the module of the built-ins (an imported helper, a decorator) becomes a reserved routine name
c = contract('bardolph/runtime/runtime_module.py', 'Runtime.__init__', serves=['C16', 'C02'])
def _setup(b, case):
    from pyvc.values import PyObj
    return {'self': PyObj(b.cls('bardolph.runtime.runtime_module', 'Runtime'), {})}
c.setup(_setup)
DOCUMENTED = ('acos', 'asin', 'atan', 'ceil', 'cos', 'cycle', 'floor', 'random', 'round', 'sin', 'sqrt', 'tan', 'trunc')
c.ensures('exactly-the-documented-functions', 'len(self._fns) == %d and %s' % (len(DOCUMENTED), ' and '.join("'%s' in self._fns" % n for n in DOCUMENTED)))
