"""C02 (run-time half): the evaluation stack machine and the built-in functions.

OP pops the right operand first and applies the documented Python operator to (left, right);
and/or coerce with bool (zero is false); PUSH of a register pushes the register's *content*
(every register, unit_mode included); built-ins bind arguments by parameter name; [random a b]
is an integer n with a <= n <= b and every such n can occur (two-sided contract over the assumed
randrange: possible results are exactly the integers of [lo, hi)).
"""
from pyvc.spec import contract
from pyvc.values import PyObj, PyDict, PyList
from . import lib

VM = 'bardolph/vm/vm_math.py'
KINDS = [('int', 'int'), ('real', 'real'), ('int', 'real'), ('real', 'int'), ('bool', 'int')]
PYOP = {'ADD': '+', 'SUB': '-', 'MUL': '*', 'DIV': '/', 'MOD': '%', 'POW': '**',
        'EQ': '==', 'NOTEQ': '!=', 'LT': '<', 'LTE': '<=', 'GT': '>', 'GTE': '>='}


def vm_math(b, stack_items, mode='LOGICAL'):
    m = lib.machine(b, mode, lib.light_set_with(b, {}))
    vmm = m.attrs['_vm_math']
    st = b.I.getattr_(vmm.attrs['_eval_stack'], '_stack')
    st.items.extend(stack_items)
    return m, vmm, st


for opname, sym in PYOP.items():
    c = contract(VM, 'VmMath.bin_op', serves=['C02'], name='VmMath.bin_op[%s]' % opname)
    def _setup(b, case, opname=opname):
        ka, kb = KINDS[case['k']]
        below = b.sym('int', 'below')
        a, bb = b.sym(ka, 'a'), b.sym(kb, 'b')
        m, vmm, st = vm_math(b, [below, a, bb])
        if opname == 'POW':
            b.between(bb, 0, 3) if kb == 'int' else None
        return {'self': vmm, 'operator': b.enum('bardolph.vm.vm_codes', 'Operator', opname), '_a': a, '_b': bb, '_below': below, '_st': st}
    c.setup(_setup)
    c.cases([{'k': i} for i in range(len(KINDS)) if not (opname == 'POW' and KINDS[i][1] != 'int')])
    if opname in ('DIV', 'MOD'):
        c.raises('ZeroDivisionError', ('only-for-zero-divisor', '_b == 0'))
    c.ensures('left-op-right-replaces-both', 'len(_st) == 2 and _st[0] is _below and _st[1] == (_a %s _b)' % sym)

for opname, expr in (('AND', 'bool(_a) and bool(_b)'), ('OR', 'bool(_a) or bool(_b)')):
    c = contract(VM, 'VmMath.logical_op', serves=['C02'], name='VmMath.logical_op[%s]' % opname)
    def _setup(b, case, opname=opname):
        ka, kb = KINDS[case['k']]
        a, bb = b.sym(ka, 'a'), b.sym(kb, 'b')
        m, vmm, st = vm_math(b, [a, bb])
        return {'self': vmm, 'operator': b.enum('bardolph.vm.vm_codes', 'Operator', opname), '_a': a, '_b': bb, '_st': st}
    c.setup(_setup)
    c.cases([{'k': i} for i in range(len(KINDS))])
    c.ensures('zero-is-false-nonzero-true', 'len(_st) == 1 and iff(_st[0], %s)' % expr)
    c.ensures('a-truth-value-not-an-operand', "typename(_st[0]) == 'bool'")      # {1 < 2 and n} is True / False wherever it is used or printed

for opname in ('USUB', 'NOT', 'UADD'):
    c = contract(VM, 'VmMath.unary_op', serves=['C02'], name='VmMath.unary_op[%s]' % opname)
    def _setup(b, case, opname=opname):
        a = b.sym(('int', 'real')[case['k']], 'a')
        m, vmm, st = vm_math(b, [a])
        return {'self': vmm, 'operator': b.enum('bardolph.vm.vm_codes', 'Operator', opname), '_a': a, '_st': st}
    c.setup(_setup)
    c.cases([{'k': 0}, {'k': 1}])
    c.ensures('top-replaced', 'len(_st) == 1 and ' + {'USUB': '_st[0] == -_a', 'NOT': 'iff(_st[0], _a == 0)', 'UADD': '_st[0] == _a'}[opname])

# op: dispatch to the three families
for opname in list(PYOP) + ['AND', 'OR', 'USUB', 'NOT']:
    c = contract(VM, 'VmMath.op', serves=['C02'], name='VmMath.op[%s]' % opname)
    def _setup(b, case, opname=opname):
        a, bb = b.sym('int', 'a'), b.sym('int', 'b')
        if opname in ('DIV', 'MOD'):
            b.assume(bb.t != 0)
        if opname == 'POW':
            b.between(bb, 0, 3)
        m, vmm, st = vm_math(b, [a, bb])
        return {'self': vmm, 'operator': b.enum('bardolph.vm.vm_codes', 'Operator', opname), '_a': a, '_b': bb, '_st': st}
    c.setup(_setup)
    if opname in PYOP:
        c.ensures('binary', 'len(_st) == 1 and _st[0] == (_a %s _b)' % PYOP[opname])
    elif opname in ('AND', 'OR'):
        c.ensures('logical', 'len(_st) == 1 and iff(_st[0], bool(_a) %s bool(_b))' % opname.lower())
    else:
        c.ensures('unary', 'len(_st) == 2 and _st[0] == _a and ' + ('_st[1] == -_b' if opname == 'USUB' else 'iff(_st[1], _b == 0)'))

# push: numbers push themselves, registers push their content, names push the variable
REGS = ['HUE', 'SATURATION', 'BRIGHTNESS', 'KELVIN', 'DURATION', 'TIME', 'RESULT', 'RED', 'GREEN', 'BLUE',
        'FIRST_ZONE', 'LAST_ZONE', 'POWER', 'UNIT_MODE', 'DISC_FORWARD']
for rn in REGS:
    c = contract(VM, 'VmMath.push', serves=['C02', 'C04'], name='VmMath.push[register %s]' % rn.lower())
    def _setup(b, case, rn=rn):
        m, vmm, st = vm_math(b, [], mode=case.get('mode', 'LOGICAL'))
        if rn not in ('UNIT_MODE', 'POWER', 'DISC_FORWARD'):
            m.attrs['_reg'].attrs[rn.lower()] = b.sym('real', 'content')
        return {'self': vmm, 'srce': b.enum('bardolph.vm.vm_codes', 'Register', rn), '_st': st, '_reg': m.attrs['_reg']}
    c.setup(_setup)
    if rn == 'UNIT_MODE':
        c.cases([{'mode': 'LOGICAL'}, {'mode': 'RAW'}, {'mode': 'RGB'}])
    c.ensures('pushes-the-content', 'len(_st) == 1 and (_st[0] is _reg.%s or _st[0] == _reg.%s)' % (rn.lower(), rn.lower()))

c = contract(VM, 'VmMath.push', serves=['C02'], name='VmMath.push[number]')
def _setup(b, case):
    m, vmm, st = vm_math(b, [])
    return {'self': vmm, 'srce': b.sym(('int', 'real')[case['k']], 'n'), '_st': st}
c.setup(_setup)
c.cases([{'k': 0}, {'k': 1}])
c.ensures('itself', 'len(_st) == 1 and _st[0] == srce')

c = contract(VM, 'VmMath.push', serves=['C02', 'C03'], name='VmMath.push[variable]')
def _setup(b, case):
    m, vmm, st = vm_math(b, [])
    # any name, and in particular names that resemble internal registers: a variable is a variable
    x = b.sym('str', 'x') if case['name'] == 'any' else case['name']
    v = b.sym('int', 'v')
    m.attrs['_call_stack'].attrs['_top'].attrs['vars'].d[x] = v
    return {'self': vmm, 'srce': x, '_st': st, '_v': v}
c.setup(_setup)
c.cases([{'name': n} for n in ('any', 'power', 'result', 'name', 'pc', 'matrix', 'Hue', 'first_zone')])
c.ensures('its-value', 'len(_st) == 1 and _st[0] == _v')

c = contract(VM, 'VmMath.pop', serves=['C02'], name='VmMath.pop[register]')
def _setup(b, case):
    v = b.sym('real', 'v')
    m, vmm, st = vm_math(b, [b.sym('int', 'below'), v])
    return {'self': vmm, 'dest': b.enum('bardolph.vm.vm_codes', 'Register', 'HUE'), '_st': st, '_reg': m.attrs['_reg'], '_v': v}
c.setup(_setup)
c.ensures('moves-top-to-register', 'len(_st) == 1 and _reg.hue == _v')

c = contract(VM, 'VmMath.pop', serves=['C02'], name='VmMath.pop[variable]')
def _setup(b, case):
    v = b.sym('real', 'v')
    m, vmm, st = vm_math(b, [v])
    x = b.sym('str', 'x')
    return {'self': vmm, 'dest': x, '_st': st, '_cs': m.attrs['_call_stack'], '_v': v}
c.setup(_setup)
c.ensures('moves-top-to-variable', 'len(_st) == 0 and _cs.get_variable(dest) == _v')

# ---- built-in functions (bardolph/runtime/bardolph_math.py through the @builtin wrapper)
BM = 'bardolph/runtime/bardolph_math.py'


def frame(b, **params):
    fr = PyObj(b.cls('bardolph.vm.call_stack', 'StackFrame'), {'params': PyDict(params), 'vars': PyDict(), 'globals': PyDict(),
                                                              'constants': PyDict(), 'parent': None, 'return_addr': None})
    return fr


c = contract(BM, 'random', serves=['C02'])
def _setup(b, case):
    lo, hi = b.sym('int', 'min'), b.sym('int', 'max')
    # parameters deliberately inserted in the other order: binding is by name
    return {'stack_frame': frame(b, max=hi, min=lo), '_min': lo, '_max': hi}
c.setup(_setup)
c.requires('non-empty', '_min <= _max')
c.ensures('within', 'is_int(result) and _min <= result <= _max')
c.ensures('every-n-can-occur', "len(ghost('random_draws')) == 1 and ghost('random_draws')[0][0] is result "
          "and ghost('random_draws')[0][1] == _min and ghost('random_draws')[0][2] == _max + 1")

c = contract(BM, 'cycle', serves=['C02'])
def _setup(b, case):
    t = b.sym(('real', 'int')[case['k']], 'theta')
    return {'stack_frame': frame(b, theta=t), '_t': t}
c.setup(_setup)
c.cases([{'k': 0}, {'k': 1}])
c.ensures('normalised-angle', '0 <= result < 360 and result == fmod(_t, 360)')
c.ensures('an-angle-already-in-range-comes-back-as-it-is', '0 <= _t < 360 ==> typename(result) == typename(_t)')     # [cycle 355] prints 355

for fn, spec_ in (('round', 'result == round_he(_x) and is_int(result)'), ('trunc', 'is_int(result) and abs(result) <= abs(_x) and abs(real(_x) - result) < 1'),
                  ('floor', 'is_int(result) and result <= _x and _x < result + 1'), ('ceil', 'is_int(result) and result >= _x and _x > result - 1'),
                  ('sqrt', '(_x >= 0 ==> result >= 0 and result * result == _x) and (_x < 0 ==> result == -1)')):
    c = contract(BM, fn, serves=['C02'])
    def _setup(b, case):
        x = b.sym('real', 'x')
        return {'stack_frame': frame(b, x=x), '_x': x}
    c.setup(_setup)
    c.ensures('documented-result', spec_)

# ---- operator symbol -> operation (ExpressionParser._do_op) and the operator tables of Token
EP = 'bardolph/parser/expr_parser.py'
OPS = {'+': 'ADD', '-': 'SUB', '*': 'MUL', '/': 'DIV', '%': 'MOD', '^': 'POW', 'and': 'AND', 'or': 'OR', '<': 'LT',
       '<=': 'LTE', '>': 'GT', '>=': 'GTE', '==': 'EQ', '!=': 'NOTEQ'}
PREC = {'or': 2, 'and': 3, '==': 4, '<=': 4, '>=': 4, '!=': 4, '<': 4, '>': 4, '+': 5, '-': 5, '*': 6, '/': 6, '%': 6, '^': 7}
TK = 'bardolph/parser/token.py'


def token(b, content):
    tt = b.cls('bardolph.parser.token', 'TokenTypes')
    kind = 'COMPARE' if content in ('==', '<=', '>=', '!=', '<', '>') else ('AND' if content == 'and' else 'OR' if content == 'or' else 'MARK')
    return b.new(('bardolph.parser.token', 'Token'), tt.members[kind], content, 1)


for content, opn in OPS.items():
    c = contract(EP, 'ExpressionParser._do_op', serves=['C02'], name='ExpressionParser._do_op[%s]' % content)
    def _setup(b, case, content=content):
        cg = b.new(('bardolph.parser.code_gen', 'CodeGen'))
        parser = PyObj(b.cls('bardolph.parser.parse', 'Parser'), {'_code_gen': cg})
        ep = PyObj(b.cls('bardolph.parser.expr_parser', 'ExpressionParser'), {'parser': parser})
        return {'self': ep, 'op': token(b, content), '_cg': cg}
    c.setup(_setup)
    c.ensures('emits-exactly-the-documented-operation',
              "result is True and len(_cg._code) == 1 and _cg._code[0].op_code is OpCode.OP and _cg._code[0].param0 is Operator.%s" % opn)

c = contract(TK, 'token_tables', serves=['C02'], name='lemma:Token.prec/assoc/is_binop tables', src='''
def token_tables(toks):
    return [(t.is_binop, t.prec, t.assoc is Assoc.RIGHT) for t in toks]
''')
def _setup(b, case):
    return {'toks': PyList([token(b, k) for k in OPS])}
c.setup(_setup)
keys = list(OPS)
for i, k in enumerate(keys):
    c.ensures('%s' % k, 'result[%d][0] is True and result[%d][1] == %d and result[%d][2] is %s' % (i, i, PREC[k], i, k == '^'))


def _random_replay(ob, repo):
    """angelic clause: sample the real built-in 3000 times for the model's bounds; the clause is refuted
    natively when some n of [min, max] never occurs (for max - min <= 20 the miss probability of a possible
    value is < 1e-60)."""
    import subprocess, json, sys
    inp = ob.get('inputs') or {}
    lo, hi = int(inp.get('min', 0)), int(inp.get('max', 1))
    hi = min(hi, lo + 20)
    code = ("import sys; sys.path.insert(0, %r)\n"
            "from bardolph.runtime import bardolph_math\n"
            "from bardolph.vm.call_stack import StackFrame\n"
            "f = StackFrame(); f.params = {'max': %d, 'min': %d}\n"
            "seen = set(); err = None\n"
            "for _ in range(3000):\n"
            "    try: seen.add(bardolph_math.random(f))\n"
            "    except Exception as e: err = type(e).__name__; break\n"
            "import json; print(json.dumps({'seen': sorted(seen), 'raised': err}))\n" % (repo, hi, lo))
    out = subprocess.run(['/venv/bin/python', '-c', code], capture_output=True, text=True, timeout=120)
    try:
        res = json.loads(out.stdout.strip().splitlines()[-1])
    except Exception:
        return {'reproduced': False, 'why': 'native sampling failed: ' + out.stderr[-300:]}
    missing = [n for n in range(lo, hi + 1) if n not in res['seen']]
    outside = [n for n in res['seen'] if not lo <= n <= hi]
    return {'reproduced': bool(missing or outside or res['raised']), 'call': '[random %d %d] x 3000' % (lo, hi), 'observed': res,
            'never_returned': missing, 'outside': outside,
            'required': 'every integer n with %d <= n <= %d can occur, and only those' % (lo, hi)}


for _c in __import__('pyvc.spec', fromlist=['REGISTRY']).REGISTRY:
    if _c.path == BM and _c.qualname == 'random':
        _c.replay_hook = _random_replay


# ---- the operand stack itself: a LIFO of ANY depth (deeply nested or recursive expressions keep all their pending
#      operands); the stack is the real EvalStack built by its real constructor, then filled with an abstract run of
#      `depth` operands (depth symbolic, unbounded)
ES = 'bardolph/vm/eval_stack.py'
def _eval_stack(b):
    from pyvc.values import Segment
    import z3 as _z3
    es = b.new(('bardolph.vm.eval_stack', 'EvalStack'))
    depth = b.sym('int', 'depth')
    b.between(depth, 0, 10 ** 9)
    st = b.I.getattr_(es, '_stack')
    if isinstance(depth, int):
        st.items.extend([0] * min(depth, 200))
    else:
        st.items.append(Segment('pending', _z3.IntVal(0), depth.t, elem=lambda I_, base, ix: I_.fresh('int', 'operand'), tag='pending operands'))
    return es, depth


c = contract(ES, 'EvalStack.push', serves=['C02', 'C01'])
def _setup(b, case):
    es, depth = _eval_stack(b)
    return {'self': es, 'value': b.sym('int', 'value'), '_depth': depth}
c.setup(_setup)
c.ensures('one-more-operand-on-top-nothing-lost', 'len(self._stack) == _depth + 1 and self._stack[-1] is value')

c = contract(ES, 'EvalStack.clear', serves=['C02', 'C17', 'C01'])
def _setup(b, case):
    es, depth = _eval_stack(b)
    return {'self': es}
c.setup(_setup)
c.ensures('no-operand-of-an-earlier-run-left', 'len(self._stack) == 0')

c = contract(ES, 'push_pop', serves=['C02', 'C01'], name='lemma:push a; push b; pop; pop at any depth', src='''
def push_pop(es, a, b):
    es.push(a)
    es.push(b)
    x = es.pop()
    y = es.pop()
    return (x, y)
''')
def _setup(b, case):
    es, depth = _eval_stack(b)
    return {'es': es, 'a': b.sym('int', 'a'), 'b': b.sym('int', 'b'), '_depth': depth}
c.setup(_setup)
c.ensures('last-in-first-out', 'result[0] is b and result[1] is a and len(es._stack) == _depth')


# ---- a built-in's result depends on THIS call's argument only: the int 90 and the float 90.0 are different arguments
#      (what an earlier call - of this or another script - computed must not come back)
c = contract(BM, 'twice', serves=['C02', 'C17', 'C19'], name='lemma:[cycle x]; [cycle y] with x == y numerically, one a float one an int', src='''
def twice(f1, f2):
    a = cycle(f1)
    b = cycle(f2)
    return (a, b)
''')
def _setup(b, case):
    x = b.sym('int', 'x')
    b.between(x, 0, 359)
    from pyvc.ops import mk
    import z3 as _z3
    xf = mk(_z3.ToReal(x.t), 'real') if hasattr(x, 't') else float(x)
    first, second = (xf, x) if case['first'] == 'float' else (x, xf)
    return {'f1': frame(b, theta=first), 'f2': frame(b, theta=second), '_first': first, '_second': second}
c.setup(_setup)
c.cases([{'first': 'float'}, {'first': 'int'}])
c.ensures('each-result-has-the-kind-of-its-own-argument', 'typename(result[0]) == typename(_first) and typename(result[1]) == typename(_second) and result[0] == result[1]')
