"""C06 / C01: a corpus of concrete statements through the REAL lexer and the REAL parser bodies (no family contracts at the call
sites): each is accepted without a message and compiles to the documented instruction template.  The modular proofs of
c06_parser.py show every statement parser against the family contract; what they cannot show is that two neighbours agree on
where the cursor stands when one hands over to the other (`time` / `at` / the first pattern).  This is a bounded stand-in (a
fixed corpus), labelled so.  Expected templates are written from DESIGN Appendix B, not taken from the code's output."""
from pyvc.spec import contract
from pyvc.values import PyObj, PyList, PyDict, Opaque
from . import lib, parserlib as PL

P = 'bardolph/parser/parse.py'

# (text, [op code names in order])   '*' = any run of instructions (a value phrase / an expression)
CORPUS = [
    ('hue 120', ['MOVEQ']),
    ('hue 120 saturation 50 set all', ['MOVEQ', 'MOVEQ', 'WAIT', 'MOVEQ', 'COLOR']),
    ('on "Top"', ['MOVEQ', 'WAIT', 'MOVEQ', 'MOVEQ', 'POWER']),
    ('off group "Pole"', ['MOVEQ', 'WAIT', 'MOVEQ', 'MOVEQ', 'POWER']),
    ('time at 12:30 or *:15 set all', ['TIME_PATTERN', 'TIME_PATTERN', 'WAIT', 'MOVEQ', 'COLOR']),
    ('time 5 wait', ['MOVEQ', 'WAIT']),
    ('units raw', ['MOVEQ']),
    ('assign x 5 print x', ['MOVEQ', 'MOVE', 'OUT', 'OUT']),
    ('println', ['OUT']),
    ('printf "{} {}" 1 hue', ['MOVEQ', 'OUT', 'MOVE', 'OUT', 'OUT']),
    ('define y 10 hue y', ['CONSTANT', 'MOVEQ']),
    ('set "Strip" zone 1 3', ['WAIT', 'MOVEQ', 'MOVEQ', 'MOVEQ', 'MOVEQ', 'COLOR']),
    ('get "Top"', ['MOVEQ', 'MOVE', 'GET_COLOR']),
    ('pause', ['PAUSE']),
    # two matrix operands joined by `and`: each is NAME, its matrix spec (MATRIX, stage, END), the operand kind, the action
    ('set "Candle" row 1 and "Tube" row 2', ['WAIT'] + 2 * (['MOVEQ', 'MATRIX'] + 5 * ['MOVEQ'] + ['COLOR', 'END', 'MOVEQ', 'COLOR'])),
    ('set "Candle" row 1 2 column 3 4 and "Top"', ['WAIT', 'MOVEQ', 'MATRIX'] + 5 * ['MOVEQ'] + ['COLOR', 'END', 'MOVEQ', 'COLOR', 'MOVEQ', 'MOVEQ', 'COLOR']),
    # a `units` after a block that ends in the same `units` is its own statement (the block may not have been executed)
    ('if {hue > 0} begin saturation 10 units raw end units raw', ['PUSH', 'PUSHQ', 'OP', 'POP', 'JUMP', 'MOVEQ', 'MOVEQ', 'MOVEQ']),
]
# (text, [op code names that must occur in this order, other instructions may lie between])
CORPUS_SUB = [
    ('define f with a b begin hue a saturation b end f 1 2', ['ROUTINE', 'MOVE', 'MOVE', 'END', 'CTX', 'JSR', 'END_CTX']),
    ('define g begin return 5 end assign x [g]', ['ROUTINE', 'MOVEQ', 'RETURN', 'END', 'CTX', 'JSR', 'END_CTX', 'MOVE']),
    ('if {hue > 5} on all else off all', ['PUSH', 'PUSHQ', 'OP', 'JUMP', 'POWER', 'JUMP', 'POWER']),
    ('repeat 3 begin on all end', ['LOOP', 'JUMP', 'POWER', 'JUMP', 'END_LOOP']),
    ('repeat with i from 1 to 3 hue i', ['LOOP', 'JUMP', 'MOVE', 'JUMP', 'END_LOOP']),
    ('repeat all as x on x', ['LOOP', 'JUMP', 'POWER', 'JUMP', 'END_LOOP']),
    ('repeat in "a" and "b" as x on x', ['LOOP', 'JUMP', 'POWER', 'JUMP', 'END_LOOP']),
    ('repeat group as g on group g', ['LOOP', 'JUMP', 'POWER', 'JUMP', 'END_LOOP']),
    ('repeat while {hue < 5} hue {hue + 1}', ['LOOP', 'OP', 'JUMP', 'OP', 'POP', 'JUMP', 'END_LOOP']),
    ('repeat begin break end', ['LOOP', 'JUMP', 'JUMP', 'END_LOOP']),
    ('set default', ['MOVEQ', 'COLOR']),
    ('set "Candle" row 1 2 column 3 4', ['MATRIX', 'COLOR', 'END']),
    ('set "Candle" begin stage row 1 hue 5 stage end', ['MATRIX', 'COLOR', 'MOVEQ', 'COLOR', 'END']),
    ('hue {1 + 2 * 3}', ['PUSHQ', 'PUSHQ', 'PUSHQ', 'OP', 'OP', 'POP']),
    ('hue {-(1 + 2)}', ['PUSHQ', 'PUSHQ', 'OP', 'OP', 'POP']),
    ('assign t {not hue > 5 or 1 == 1}', ['OP', 'OP', 'OP', 'POP']),
    ('wait', ['WAIT']),
    ('H 5 S 6 B 7 K 8', ['MOVEQ', 'MOVEQ', 'MOVEQ', 'MOVEQ']),
]


def _install(I):
    from pyvc.values import Builtin
    def subseq(I_, a, k):
        want, got = list(I_.read_items(a[0]) if hasattr(a[0], 'items') else a[0]), list(I_.read_items(a[1]) if hasattr(a[1], 'items') else a[1])
        i = 0
        for x in got:
            if i < len(want) and x == want[i]:
                i += 1
        return i == len(want)
    I.spec_fns['subseq'] = Builtin('spec.subseq', subseq)
from pyvc import spec as _spec
_spec.EXTRA_INSTALLERS.append(_install)

for text, ops_, exact in [(t, o, True) for t, o in CORPUS] + [(t, o, False) for t, o in CORPUS_SUB]:
    c = contract(P, 'Parser.parse', serves=['C06', 'C01', 'C16', 'C05', 'C02', 'C14', 'C15'], name='Parser.parse[corpus: %s]' % text)
    def _setup(b, case, text=text):
        pr = b.new(('bardolph.parser.parse', 'Parser'))
        rt = b.I.load_module('bardolph.runtime.i_runtime').ns['Runtime']
        lib.provide(b, rt, Opaque('runtime', {'get_fns': lambda I_, o, a, k: PyDict()}))
        return {'self': pr, 'input_string': text}
    c.setup(_setup)
    c.no_loop_cuts = True
    c.real_bodies_only = True
    c.crosscheck = False
    c.bounded('one concrete statement sequence')
    c.ensures('accepted-without-a-message', "result is True and self._error_output == ''")
    if exact:
        c.ensures('documented-template', "[x.op_code.name for x in self._code_gen.program] == %r" % (ops_,))
    else:
        c.ensures('documented-template-in-order', "subseq(%r, [x.op_code.name for x in self._code_gen.program])" % (ops_,))


# ---- round 9: what one text defined is unknown to the NEXT text compiled by the same Parser object (a memo of routine look-ups in
#      the parser, say, survives Context.clear): the second text must be rejected with a line-numbered message, and accepted once it
#      defines the routine itself.  Concrete texts through the real bodies.
c = contract(P, 'define_then_call_in_next_text', serves=['C06', 'C17', 'C16'],
             name='lemma:parse(text defining flash); parse(text calling flash) on one compiler [concrete, real bodies]', src='''
def define_then_call_in_next_text(self):
    first = self.parse('define flash begin hue 5 set all end\\nflash\\nassign y 3')
    second = self.parse('hue 1\\nflash')
    errors = self.get_errors()
    third = self.parse('hue {y}')
    errors3 = self.get_errors()
    fourth = self.parse('define flash begin hue 6 end\\nflash')
    return (first, second, errors, third, errors3, fourth, self.get_errors())
''')
def _setup2(b, case):
    pr = b.new(('bardolph.parser.parse', 'Parser'))
    rt = b.I.load_module('bardolph.runtime.i_runtime').ns['Runtime']
    lib.provide(b, rt, Opaque('runtime', {'get_fns': lambda I_, o, a, k: PyDict()}))
    return {'self': pr}
c.setup(_setup2)
c.no_loop_cuts = True
c.real_bodies_only = True
c.crosscheck = False
c.bounded('four concrete texts on one Parser object')
c.ensures('first-text-accepted', 'result[0] is True')
c.ensures('a-routine-of-the-previous-text-is-unknown', "not result[1] and 'Line 2' in result[2]")
c.ensures('a-variable-of-an-earlier-text-is-unknown', "not result[3] and 'Line 1' in result[4]")
c.ensures('accepted-when-the-text-defines-it-itself', "result[5] is True and result[6] == ''")
