"""bardolph/lib/injection.py: what every Machine, job and sink gets when it asks for an implementation.
bind(Class).to(I): EVERY provide(I) constructs a new object (each Machine has its own Clock: one script's stop or
time line never reaches another's: C09, C10, C17); bind_instance(obj).to(I): every provide(I) yields that object."""
from pyvc.spec import contract
from pyvc.values import PyObj, PyList, Builtin
from . import lib

INJ = 'bardolph/lib/injection.py'

c = contract(INJ, 'bind_then_provide', serves=['C17', 'C09', 'C10', 'C08'], name='lemma:bind(Class).to(I); provide(I); provide(I)', src='''
def bind_then_provide(constructor, interface):
    bind(constructor).to(interface)
    a = provide(interface)
    b = provide(interface)
    return (a, b)
''')
def _setup(b, case):
    lib.injection_reset(b)
    made = b.ghost('made', PyList())
    cls = b.cls('bardolph.lib.symbol_table', 'SymbolTable')       # any class with a no-argument constructor
    def ctor(I_, a, k):
        o = I_.call(cls, [], {})
        made.items.append(o)
        return o
    return {'constructor': Builtin('constructor', ctor), 'interface': b.cls('bardolph.lib.i_lib', 'Clock')}
c.setup(_setup)
c.ensures('a-new-object-for-every-request', "len(ghost('made')) == 2 and result[0] is ghost('made')[0] and result[1] is ghost('made')[1] and result[0] is not result[1]")

c = contract(INJ, 'bind_instance_then_provide', serves=['C17', 'C19'], name='lemma:bind_instance(obj).to(I); provide(I); provide(I)', src='''
def bind_instance_then_provide(obj, interface):
    bind_instance(obj).to(interface)
    return (provide(interface), provide(interface))
''')
def _setup(b, case):
    lib.injection_reset(b)
    return {'obj': b.new(('bardolph.lib.symbol_table', 'SymbolTable')), 'interface': b.cls('bardolph.lib.i_lib', 'Output')}
c.setup(_setup)
c.ensures('the-one-object-every-time', 'result[0] is obj and result[1] is obj')

c = contract(INJ, 'provide', serves=['C17'], name='provide[nothing bound]')
def _setup(b, case):
    lib.injection_reset(b)
    return {'interface': b.cls('bardolph.lib.i_lib', 'Clock')}
c.setup(_setup)
c.raises('UnboundException')
c.ensures('unreachable', 'False')

c = contract(INJ, 'rebind', serves=['C17'], name='lemma:bind A; configure(); bind B; provide', src='''
def rebind(a, b, interface):
    bind_instance(a).to(interface)
    configure()
    bind_instance(b).to(interface)
    return provide(interface)
''')
def _setup(b, case):
    lib.injection_reset(b)
    return {'a': b.new(('bardolph.lib.symbol_table', 'SymbolTable')), 'b': b.new(('bardolph.lib.symbol_table', 'SymbolTable')),
            'interface': b.cls('bardolph.lib.i_lib', 'Output')}
c.setup(_setup)
c.ensures('the-latest-binding', 'result is b')
