"""bardolph/lib/injection.py: what every Machine, job and sink gets when it asks for an implementation.
bind(Class).to(I): EVERY provide(I) constructs a new object (each Machine has its own Clock: one script's stop or
time line never reaches another's: C09, C10, C17); bind_instance(obj).to(I): every provide(I) yields that object."""
from pyvc.spec import contract
from pyvc.values import PyObj, PyList, Builtin
from . import lib

INJ = 'bardolph/lib/injection.py'

c = contract(INJ, 'bind_then_provide', serves=['C17', 'C09', 'C10', 'C08', 'C11', 'C20'], name='lemma:bind(Class).to(I); provide(I); provide(I)', src='''
def bind_then_provide(constructor, interface):
    bind(constructor).to(interface)
    a = provide(interface)
    b = provide(interface)
    return (a, b)
''')
def _setup(b, case):
    lib.injection_reset(b)
    made = b.ghost('made', PyList())
    cls = b.cls('bardolph.lib.symbol_table', 'SymbolTable')       # any class with a no-argument constructor
    def ctor(I_, a, k):
        o = I_.call(cls, [], {})
        made.items.append(o)
        return o
    return {'constructor': Builtin('constructor', ctor), 'interface': b.cls('bardolph.lib.i_lib', 'Clock')}
c.setup(_setup)
c.ensures('a-new-object-for-every-request', "len(ghost('made')) == 2 and result[0] is ghost('made')[0] and result[1] is ghost('made')[1] and result[0] is not result[1]")

c = contract(INJ, 'bind_instance_then_provide', serves=['C17', 'C19'], name='lemma:bind_instance(obj).to(I); provide(I); provide(I)', src='''
def bind_instance_then_provide(obj, interface):
    bind_instance(obj).to(interface)
    return (provide(interface), provide(interface))
''')
def _setup(b, case):
    lib.injection_reset(b)
    return {'obj': b.new(('bardolph.lib.symbol_table', 'SymbolTable')), 'interface': b.cls('bardolph.lib.i_lib', 'Output')}
c.setup(_setup)
c.ensures('the-one-object-every-time', 'result[0] is obj and result[1] is obj')

c = contract(INJ, 'provide', serves=['C17'], name='provide[nothing bound]')
def _setup(b, case):
    lib.injection_reset(b)
    return {'interface': b.cls('bardolph.lib.i_lib', 'Clock')}
c.setup(_setup)
c.raises('UnboundException')
c.ensures('unreachable', 'False')

c = contract(INJ, 'rebind', serves=['C17'], name='lemma:bind A; configure(); bind B; provide', src='''
def rebind(a, b, interface):
    bind_instance(a).to(interface)
    configure()
    bind_instance(b).to(interface)
    return provide(interface)
''')
def _setup(b, case):
    lib.injection_reset(b)
    return {'a': b.new(('bardolph.lib.symbol_table', 'SymbolTable')), 'b': b.new(('bardolph.lib.symbol_table', 'SymbolTable')),
            'interface': b.cls('bardolph.lib.i_lib', 'Output')}
c.setup(_setup)
c.ensures('the-latest-binding', 'result is b')


# ---- the production binding of the clock: every Machine gets its OWN clock (one script's stop, end or time line never
#      reaches another script's waits)
c = contract('bardolph/lib/clock.py', 'own_clock_each', serves=['C17', 'C09', 'C10', 'C11', 'C20', 'C08'], name='lemma:clock.configure(); provide(Clock) twice', src='''
def own_clock_each():
    from bardolph.lib import injection as _inj
    configure()
    a = _inj.provide(i_lib.Clock)
    b = _inj.provide(i_lib.Clock)
    return (a, b)
''')
def _setup(b, case):
    lib.injection_reset(b)
    return {}
c.setup(_setup)
c.ensures('two-machines-two-clocks', "result[0] is not result[1] and typename(result[0]) == 'Clock' and typename(result[1]) == 'Clock' "
          "and result[0]._event is not result[1]._event")


# ---- every job has its own compiler: loading the next script must not change the program of a job that is loaded and
#      waits in the queue (the compiler hands out its code generator's own list and clears it in place at every parse)
c = contract('bardolph/controller/script_job.py', 'two_loaded_jobs', serves=['C17', 'C20', 'C08'], name='lemma:job A loaded; job B loaded; A still holds its own program', src='''
def two_loaded_jobs(t1, t2):
    a = ScriptJob()
    pa = a.load_string(t1)
    b = ScriptJob()
    pb = b.load_string(t2)
    return (a.program, b.program, pa, pb)
''')
def _setup(b, case):
    from pyvc.values import Opaque
    mod = b.module('bardolph.controller.script_job')
    made = b.ghost('parsers_made', PyList())
    def parser_ctor(I_, a, k):
        prog = PyList()
        def parse(I2, o, a2, k2):
            prog.items.clear()                  # CodeGen.clear(): in place
            prog.items.append(a2[0])            # "the code of this text"
            return True
        p = Opaque('parser', {'parse': parse, 'get_program': lambda I2, o, a2, k2: prog, 'get_errors': lambda I2, o, a2, k2: ''})
        made.items.append(p)
        return p
    mod.ns['Parser'] = Builtin('Parser', parser_ctor)
    mod.ns['Machine'] = Builtin('Machine', lambda I_, a, k: Opaque('machine'))
    return {'t1': b.sym('str', 'text1'), 't2': b.sym('str', 'text2')}
c.setup(_setup)
c.crosscheck = False        # the setup replaces Parser and Machine inside the module: a native run would build the real ones
c.ensures('each-job-keeps-the-program-of-its-own-text', 'result[0] is not result[1] and len(result[0]) == 1 and result[0][0] == t1 and len(result[1]) == 1 and result[1][0] == t2')


# ---- the application's wiring (light_module.configure, two calls away from every Machine): clocks stay per machine, the
#      standard-output sink is one object
c = contract('bardolph/controller/light_module.py', 'wiring', serves=['C17', 'C09', 'C10', 'C19'], name='lemma:light_module.configure(); provide(Clock) twice; provide(Output) twice', src='''
def wiring():
    from bardolph.lib import injection as _inj, i_lib as _il
    configure()
    return (_inj.provide(_il.Clock), _inj.provide(_il.Clock), _inj.provide(_il.Output), _inj.provide(_il.Output))
''')
def _setup(b, case):
    from pyvc.values import Opaque
    lib.injection_reset(b)
    settings = Opaque('settings', {'get_value': lambda I_, o, a, k: (True if a[0] == 'use_fakes' else (a[1] if len(a) > 1 else None))})
    lib.provide(b, b.cls('bardolph.lib.i_lib', 'Settings'), settings)
    for modname in ('bardolph.lib.log_config', 'bardolph.fakes.fake_light_api', 'bardolph.controller.light_set'):
        try:
            m = b.module(modname)
        except Exception:
            continue
        m.ns['configure'] = Builtin('configure', lambda I_, a, k: None)     # logging, discovery: not the subject here
    return {}
c.setup(_setup)
c.crosscheck = False
c.ensures('own-clock-per-request-one-output-sink', "result[0] is not result[1] and typename(result[0]) == 'Clock' and result[2] is result[3]")
