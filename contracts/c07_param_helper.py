"""Contracts for bardolph/lib/param_helper.py, bardolph/lib/color.py (C07)."""
from pyvc.spec import contract, Scalar, ListOf, Const

NUM = [Scalar('int'), Scalar('real'), Scalar('bool')]

for name, top in (('param_8', 255), ('param_16', 65535), ('param_32', 4294967295)):
    c = contract('bardolph/lib/param_helper.py', name, serves=['C07'])
    c.arg('param', *NUM)
    c.ensures('int-in-range', 'is_int(result) and 0 <= result <= %d' % top)
    c.ensures('clamp-low', 'param <= 0 ==> result == 0')
    c.ensures('clamp-high', 'param >= %d ==> result == %d' % (top, top))
    c.ensures('nearest', '0 <= param <= %d ==> abs(real(result) - real(param)) <= 1/2' % top)
    c.ensures('exact-on-ints', 'is_int(param) and 0 <= param <= %d ==> result == param' % top)
    c.ensures('round-half-even', 'result == round_he(clamp(param, 0, %d))' % top)

c = contract('bardolph/lib/param_helper.py', 'param_bool', serves=['C07'])
c.arg('param', *NUM, Const(None, 'None'))
c.ensures('zero-one', 'result == 0 or result == 1')
c.ensures('truth', 'iff(result == 1, bool(param))')

c = contract('bardolph/lib/param_helper.py', 'param_color', serves=['C07'])
c.arg('color', ListOf(['real'] * 4), ListOf(['int'] * 4), ListOf(['real', 'int', 'real', 'int']))
for i in range(4):
    c.ensures('comp%d' % i, 'is_int(result[%d]) and result[%d] == round_he(clamp(color[%d], 0, 65535))' % (i, i, i))
c.ensures('len', 'len(result) == 4')

c = contract('bardolph/lib/color.py', 'rounded_color', serves=['C07'])
c.arg('color', ListOf(['real'] * 4), ListOf(['int'] * 4))
for i in range(4):
    c.ensures('comp%d' % i, 'is_int(result[%d]) and result[%d] == round_he(color[%d])' % (i, i, i))

# ColorMatrix._standardize_raw: per component identical to param_16; None passes through.
# modular: callers (get_colors -> set_matrix) use this contract, which avoids 3^4 paths per cell.
from pyvc.values import PyList
def _std_result(I, env):
    col = env.vars['color']
    if col is None:
        return None
    return PyList([I.fresh('int', 'std%d' % i) for i in range(len(col.items))])
c = contract('bardolph/controller/color_matrix.py', 'ColorMatrix._standardize_raw', serves=['C07', 'C15'], modular=True)
c.arg('color', ListOf(['real'] * 4), ListOf(['int'] * 4), ListOf(['real', 'int', 'real', 'int']), Const(None, 'None'))
c.returns(_std_result)
c.ensures('none', 'is_none(color) ==> is_none(result)')
c.ensures('len', 'not is_none(color) ==> len(result) == len(color)')
for i in range(4):
    c.ensures('comp%d' % i, 'not is_none(color) ==> is_int(result[%d]) and result[%d] == sent_u16(color[%d])' % (i, i, i))
c.ensures('fresh-list', 'not is_none(color) ==> not same(result, color)')
