"""C01: running a script issues exactly the commands, waits and output its source says.

C01 is carried by the contracts of the other files (handlers vs the instruction specification: c07_machine*,
c10, c12, c14, c15, c19; statement templates and control structure: c05, c06; loops: c04; calls: c03; loader:
c05); this file adds the remaining register / variable handlers and end-to-end template lemmas in which the
REAL parser's code for a template script is executed on the REAL VM handlers with symbolic register and
variable values on a small population (see vmlib.py): if / else-if / else choose by the truth of their
condition, `and`-joined lights share one delay, a routine defined anywhere at top level runs with its
arguments and execution resumes directly after the call, print output comes in program order.
"""
from pyvc import spec
from pyvc.spec import contract
from pyvc.values import PyList, PyObj, Opaque, Builtin
from . import lib, vmlib
from .c04_loops import population

M = 'bardolph/vm/machine.py'
SRC_STEP = '''
def step(self, inst):
    self._program = [inst]
    self._reg.pc = 0
    self._fn_table[inst.op_code]()
'''


def step_lemma(name, mk_inst, ensures, setup_extra=None, serves=('C01',)):
    c = contract(M, 'step', serves=list(serves), src=SRC_STEP, name='lemma:' + name)
    def _setup(b, case):
        m = lib.machine(b, 'LOGICAL', lib.light_set_with(b, {}))
        extra = setup_extra(b, m) if setup_extra else {}
        d = {'self': m, 'inst': mk_inst(b, m)}
        d.update(extra or {})
        return d
    c.setup(_setup)
    for eid, e in ensures:
        c.ensures(eid, e)
    return c


def ins(b, op, p0=None, p1=None):
    return b.new(('bardolph.vm.instruction', 'Instruction'), b.enum('bardolph.vm.vm_codes', 'OpCode', op), p0, p1)


R = lambda b, n: b.enum('bardolph.vm.vm_codes', 'Register', n)
V = {}
step_lemma('MOVEQ value register', lambda b, m: ins(b, 'MOVEQ', V.setdefault('v', b.sym('real', 'v')), R(b, 'SATURATION')),
           [('register-gets-the-literal', 'self._reg.saturation is inst.param0'), ('nothing-else', 'unchanged(self._reg.hue) and unchanged(self._reg.brightness)')])
step_lemma('MOVEQ value variable', lambda b, m: ins(b, 'MOVEQ', b.sym('int', 'v'), b.sym('str', 'name')),
           [('variable-gets-the-literal', 'self._call_stack.get_variable(inst.param1) is inst.param0')])
def _sx(b, m):
    m.attrs['_reg'].attrs['hue'] = b.sym('real', 'hue')
step_lemma('MOVE register variable', lambda b, m: ins(b, 'MOVE', R(b, 'HUE'), b.sym('str', 'name')),
           [('variable-gets-the-register-content', 'self._call_stack.get_variable(inst.param1) is old(self._reg.hue)')], setup_extra=_sx)
def _sx2(b, m):
    x = b.sym('str', 'x')
    v = b.sym('int', 'xv')
    m.attrs['_call_stack'].attrs['_top'].attrs['vars'].d[x] = v
    return {'_x': x, '_xv': v}
c = step_lemma('MOVE variable register', lambda b, m: ins(b, 'MOVE', None, R(b, 'DURATION')),
               [('register-gets-the-variable', 'self._reg.duration is _xv')], setup_extra=_sx2)
def _fix(b, case, _orig=c.setup_fn):
    d = _orig(b, case)
    d['inst'].attrs['param0'] = d['_x']
    return d
c.setup_fn = _fix
step_lemma('CONSTANT', lambda b, m: ins(b, 'CONSTANT', b.sym('str', 'name'), b.sym('int', 'v')),
           [('defined', 'self._constants[inst.param0] is inst.param1')])
step_lemma('NOP / END_CTX change nothing', lambda b, m: ins(b, 'NOP'), [('nothing', "len(ghost('Dev')) == 0 and len(ghost('Clk')) == 0 and unchanged(self._reg.hue)")])

# GET_COLOR: the colour registers of the current mode := FromRaw(device colour)
for mode in ('LOGICAL', 'RAW', 'RGB'):
    c = contract(M, 'Machine._get_color', serves=['C01', 'C07'], unwrap=1, name='Machine._get_color[%s]' % mode)
    def _setup(b, case, mode=mode):
        col = PyList([b.sym('int', 'c%d' % i) for i in range(4)])
        for x in col.items:
            b.between(x, 0, 65535)
        impl = lib.device(b, 'dev', color=col)
        n = b.sym('str', 'name')
        light = lib.lifx_light(b, 'plain', impl, n)
        ls = lib.light_set_with(b, {n: light})
        m = lib.machine(b, mode, ls)
        m.attrs['_reg'].attrs['name'] = n
        return {'self': m, 'light_set': ls, '_col': col}
    c.setup(_setup)
    if mode == 'RGB':
        # the rgb registers hold the colour read (value = the largest component, all within 0..100); kelvin as read
        # the rgb registers hold the colour read: their HSV (components / 100) is the device's raw colour / 65535; kelvin as read
        RGBX = 'self._reg.red / 100, self._reg.green / 100, self._reg.blue / 100'
        c.ensures('kelvin-as-read', 'self._reg.kelvin == _col[3]')
        c.ensures('value-of-the-read-colour', 'hsv_v(%s) == real(_col[2]) / 65535' % RGBX)
        c.ensures('saturation-of-the-read-colour', '_col[2] > 0 ==> hsv_s(%s) == real(_col[1]) / 65535' % RGBX)
        c.ensures('hue-of-the-read-colour', '_col[2] > 0 and _col[1] > 0 and _col[0] < 65535 ==> hsv_h(%s) == real(_col[0]) / 65535' % RGBX)
        c.ensures('grey-when-unsaturated', '_col[1] == 0 ==> self._reg.red == self._reg.green and self._reg.green == self._reg.blue')
    elif mode == 'RAW':
        c.ensures('raw-values-as-read', 'self._reg.hue == _col[0] and self._reg.saturation == _col[1] and self._reg.brightness == _col[2] and self._reg.kelvin == _col[3]')
    else:
        c.ensures('logical-values-of-the-read-colour', 'self._reg.hue == real(_col[0]) / 65535 * 360 and self._reg.saturation == real(_col[1]) / 65535 * 100 '
                  'and self._reg.brightness == real(_col[2]) / 65535 * 100 and self._reg.kelvin == _col[3]')
        c.ensures('read-then-set-sends-the-same-raw-colour', 'hue_same(sent_hue(self._reg.hue), _col[0]) and sent_pct(self._reg.saturation) == _col[1] and sent_pct(self._reg.brightness) == _col[2]')
    c.ensures('one-read-request', "len(ghost('Dev')) == 1 and ghost('Dev')[0][1] == 'get_color'")


# ---- end-to-end template lemmas (real parser output on the real handlers)
def program_lemma(name, text, names, groups, expect_fn, sym=None, extra=(), bounded='population of 3 lights', max_steps=600):
    c = contract(M, 'run_until', serves=['C01'], src=vmlib.DRIVER, name='lemma:' + name)
    def _setup(b, case):
        lights, devs = population(b, names)
        res = vmlib.compile_scripts([text])[0]
        if not res['ok']:
            raise RuntimeError('template rejected: ' + res['errors'])
        ls = lib.light_set_with(b, lights, groups=groups)
        m = lib.machine(b, 'LOGICAL', ls)
        # as Machine.run does: the real Loader moves the routines out of line
        from pyvc.values import PyDict
        rt = b.I.load_module('bardolph.runtime.i_runtime').ns['Runtime']
        lib.provide(b, rt, Opaque('runtime', {'get_fns': lambda I_, o, a, k: PyDict()}))
        loader = b.new(('bardolph.vm.loader', 'Loader'))
        b.I.call(b.I.getattr_(loader, 'load'), [vmlib.rebuild(b, res['program'])], {})
        m.attrs['_routines'] = b.I.call(b.I.getattr_(loader, 'get_routines'), [], {})
        m.attrs['_program'] = b.I.call(b.I.getattr_(loader, 'get_code'), [], {})
        m.attrs['_reg'].attrs['pc'] = 0
        out = PyList()
        il = b.module('bardolph.lib.i_lib')
        lib.provide(b, il.ns['Output'], Opaque('output', {'out': lambda I_, o, a, k: (out.items.append(a[0]), b.I.ghost['Dev'].items.append((None, 'print', a[0])))[0],
                                                        'newline': lambda I_, o, a, k: None, 'flush': lambda I_, o, a, k: None}))
        d = {'self': m, 'stop_pcs': (len(m.attrs['_program'].items),), 'max_steps': max_steps, '_devs': PyList([devs[n] for n in names])}
        if sym:
            d.update(sym(b, m, res['program']))
        return d
    c.setup(_setup)
    c.bounded(bounded)
    c.ensures('runs-to-the-end', 'result > 0 and self._reg.pc == len(self._program)')
    for eid, e in expect_fn:
        c.ensures(eid, e)
    for eid, e in extra:
        c.ensures(eid, e)
    return c


NAMES = ['a', 'b', 'c']
GR = {'G': ['a', 'c']}
D = "ghost('Dev')"


def symvar(name, kind='real', patch_moveq=True):
    """the template assigns a literal to the variable; replace the literal by a symbolic value"""
    def f(b, m, prog):
        v = b.sym(kind, name)
        for ins_ in m.attrs['_program'].items:
            if getattr(ins_.attrs['op_code'], 'name', '') == 'MOVEQ' and ins_.attrs['param1'] == name:
                ins_.attrs['param0'] = v
        return {'_' + name: v}
    return f


program_lemma('if / else chooses by the truth of the condition',
              'assign c 0 if {c} on "a" else on "b" off "c"', NAMES, GR,
              [('then-branch-iff-truthy', "(_c != 0 ==> same(%s[0][0], _devs[0])) and (_c == 0 ==> same(%s[0][0], _devs[1]))" % (D, D)),
               ('continues-after-the-if', "len(%s) == 2 and same(%s[1][0], _devs[2]) and %s[1][2] == 0" % (D, D, D))], sym=symvar('c'))
program_lemma('else-if chain',
              'assign c 0 if {c < 0} on "a" else if {c == 0} on "b" else on "c"', NAMES, GR,
              [('exactly-one-branch', "len(%s) == 1 and (_c < 0 ==> same(%s[0][0], _devs[0])) and (_c == 0 ==> same(%s[0][0], _devs[1])) and (_c > 0 ==> same(%s[0][0], _devs[2]))" % (D, D, D, D))],
              sym=symvar('c'))
program_lemma('lights joined with and share one delay; group action is the action on each member',
              'assign t 0 time t duration 2 on "b" and group "G"', NAMES, GR,
              [('one-delay-before-the-first-command', "waits() == ite(_t > 0, 1, 0) and (_t > 0 ==> ghost('Clk')[0][1] is _t)"),
               ('b-then-members-of-G-in-name-order', "len(%s) == 3 and same(%s[0][0], _devs[1]) and same(%s[1][0], _devs[0]) and same(%s[2][0], _devs[2])" % (D, D, D, D)),
               ('same-power-and-duration-for-all', "%s[0][2] == 65535 and %s[1][2] == 65535 and %s[2][2] == 65535 and %s[0][3] == 2000 and %s[1][3] == 2000 and %s[2][3] == 2000" % ((D,) * 6))],
              sym=symvar('t'))
program_lemma('routine defined after its use site in the text order of definitions runs with its argument and resumes after the call',
              'define g with q begin on q end define f with p begin g p off p end f "a" on "b"', NAMES, GR,
              [('body-with-argument-then-resume', "len(%s) == 3 and same(%s[0][0], _devs[0]) and %s[0][2] == 65535 and same(%s[1][0], _devs[0]) and %s[1][2] == 0 "
                "and same(%s[2][0], _devs[1])" % ((D,) * 6)),
               ('frames-balanced', 'not in_loop_frame(self) and self._call_stack._top.parent is None')])
program_lemma('return value is delivered to the point of call; output in program order',
              'define twice with x begin return {x * 2} end assign v 0 on "a" print [twice v] off "a"', NAMES, GR,
              [('on-print-off-in-order', "len(%s) == 3 and %s[0][1] == 'set_power' and %s[1][1] == 'print' and %s[1][2] == _v * 2 and %s[2][1] == 'set_power'" % ((D,) * 5))],
              sym=symvar('v', 'int'))
program_lemma('break leaves only the innermost loop; the outer loop completes',
              'repeat 2 begin repeat 3 begin on "a" break end off "b" end', NAMES, GR,
              [('inner-once-per-outer-pass', "len(%s) == 4 and same(%s[0][0], _devs[0]) and same(%s[1][0], _devs[1]) and same(%s[2][0], _devs[0]) and same(%s[3][0], _devs[1])" % ((D,) * 5)),
               ('frames-balanced', 'not in_loop_frame(self)')])
program_lemma('register settings reach the command that follows, converted (logical units)',
              'assign h 0 hue h saturation 50 brightness 25 kelvin 2700 duration 1.5 set "c"', NAMES, GR,
              [('colour-and-duration', "len(%s) == 1 and same(%s[0][0], _devs[2]) and hue_same(%s[0][2][0], sent_hue(_h)) and %s[0][2][1] == sent_pct(50) and %s[0][2][2] == sent_pct(25) "
                "and %s[0][2][3] == 2700 and %s[0][3] == 1500" % ((D,) * 7))], sym=symvar('h'))


def _install(I):
    from pyvc.values import Builtin
    I.spec_fns.setdefault('waits', Builtin('spec.waits', lambda I_, a, k: sum(1 for x in I_.ghost['Clk'].items if x[0] == 'pause_for')))
spec.EXTRA_INSTALLERS.append(_install)
