"""C07/C15/C01 end-to-end clauses for the remaining command kinds: all lights, zones, matrix, default."""
from pyvc.spec import contract
from pyvc.values import PyList, PyDict
from . import lib
from .c07_machine import color_clauses, duration_clause, regs, handler, MODES, KINDS, M

for mode in MODES:
    for kind in KINDS:
        # ---- set all
        def setup(b, case, mode=mode, kind=kind):
            api, stub = lib.lan_api(b)
            ls = lib.light_set_with(b, {})
            m = lib.machine(b, mode, ls)
            lib.provide(b, b.cls('bardolph.controller.i_controller', 'LightApi'), api)
            regs(b, m, mode, kind)
            return {'self': m, '_impl': stub}
        c = handler('_color_all', mode, kind, setup)
        c.define('D', "ghost('Dev')[0]")
        c.ensures('one-request', "len(ghost('Dev')) == 1 and D[1] == 'set_color_all_lights' and same(D[0], _impl)")
        color_clauses(c, mode)
        duration_clause(c, mode)

        # ---- on/off all
        def setup(b, case, mode=mode, kind=kind):
            api, stub = lib.lan_api(b)
            ls = lib.light_set_with(b, {})
            m = lib.machine(b, mode, ls)
            lib.provide(b, b.cls('bardolph.controller.i_controller', 'LightApi'), api)
            r = lib.sym_regs(b, m, kind, ('duration',))
            r.attrs['power'] = b.sym('bool', 'power')
            return {'self': m, '_impl': stub}
        c = handler('_power_all', mode, kind, setup)
        c.define('D', "ghost('Dev')[0]")
        c.ensures('one-request', "len(ghost('Dev')) == 1 and D[1] == 'set_power_all_lights' and same(D[0], _impl)")
        # lifxlan's set_power_all_lights treats 1 and 65535 alike as "on" (its `on` list); the repo sends 1
        c.ensures('level', 'iff(D[2] != 0, old(self._reg.power)) and (D[2] == 0 or D[2] == 1 or D[2] == 65535)')
        duration_clause(c, mode)

        # ---- set "L" zone a [b]
        for last in ('int', 'none'):
            def setup(b, case, mode=mode, kind=kind, last=last):
                impl = lib.device(b, 'dev')
                n = b.sym('str', 'name')
                light = lib.lifx_light(b, 'multizone', impl, n, _num_zones=b.sym('int', 'num_zones'))
                ls = lib.light_set_with(b, {n: light})
                m = lib.machine(b, mode, ls)
                r = regs(b, m, mode, kind)
                r.attrs['name'] = n
                r.attrs['first_zone'] = b.sym('int', 'first_zone')
                r.attrs['last_zone'] = b.sym('int', 'last_zone') if last == 'int' else None
                return {'self': m, '_impl': impl}
            c = contract(M, 'Machine._color_mz_light', serves=['C07', 'C15', 'C01'],
                         name='Machine._color_mz_light[%s,%s,last=%s]' % (mode, kind, last))
            c.setup(setup)
            c.requires('zones-in-protocol-range', '0 <= self._reg.first_zone <= 65534' +
                       (' and self._reg.first_zone <= self._reg.last_zone <= 65534' if last == 'int' else ''))
            c.define('D', "ghost('Dev')[0]")
            c.ensures('one-request', "len(ghost('Dev')) == 1 and D[1] == 'set_zone_color' and same(D[0], _impl)")
            c.ensures('first-zone', 'D[2] == old(self._reg.first_zone)')
            c.ensures('end-exclusive-is-last-plus-1',
                      'D[3] == old(self._reg.%s) + 1' % ('last_zone' if last == 'int' else 'first_zone'))
            color_clauses(c, mode, D='D[4]')
            duration_clause(c, mode, D='D[5]')

        # ---- set default
        def setup(b, case, mode=mode, kind=kind):
            m = lib.machine(b, mode, lib.light_set_with(b, {}))
            regs(b, m, mode, kind)
            return {'self': m}
        c = handler('_color_default', mode, kind, setup, serves=('C07', 'C15'))
        c.ensures('no-request', "len(ghost('Dev')) == 0")
        c.define('R', 'self._reg.default')
        # the default register holds the (unrounded) raw colour; what is transmitted later is param_16 of it
        if mode == 'LOGICAL':
            c.ensures('hue', 'hue_same(sent_u16(R[0]), sent_hue(old(self._reg.hue)))')
            c.ensures('saturation', 'sent_u16(R[1]) == sent_pct(old(self._reg.saturation))')
            c.ensures('brightness', 'sent_u16(R[2]) == sent_pct(old(self._reg.brightness))')
            c.ensures('kelvin', 'sent_u16(R[3]) == sent_u16(old(self._reg.kelvin))')
        elif mode == 'RAW':
            for i, nm in enumerate(('hue', 'saturation', 'brightness', 'kelvin')):
                c.ensures(nm, 'sent_u16(R[%d]) == sent_u16(old(self._reg.%s))' % (i, nm))
        else:
            # rgb: the saved default is the raw form of the RGB registers (through their HSV), exactly as a plain `set` converts them
            rgb = ', '.join('old(self._reg.%s) / 100' % n for n in ('red', 'green', 'blue'))
            c.ensures('hue', 'sent_u16(R[0]) == sent_frac(hsv_h(%s))' % rgb)
            c.ensures('saturation', 'sent_u16(R[1]) == sent_frac(hsv_s(%s))' % rgb)
            c.ensures('brightness', 'sent_u16(R[2]) == sent_frac(hsv_v(%s))' % rgb)
            c.ensures('kelvin', 'sent_u16(R[3]) == sent_u16(round_he(old(self._reg.kelvin)))')

        # ---- set "L" row/column or begin..end: one set_matrix, cells converted exactly as a plain set
        def setup(b, case, mode=mode, kind=kind):
            impl = lib.device(b, 'dev')
            n = b.sym('str', 'name')
            light = lib.lifx_light(b, 'matrix', impl, n, _height=2, _width=2)
            ls = lib.light_set_with(b, {n: light})
            m = lib.machine(b, mode, ls)
            r = lib.sym_regs(b, m, kind, ('duration',))
            r.attrs['name'] = n
            cell = PyList([b.sym(kind, 'c%d' % i) for i in range(4)])
            if mode == 'RGB':
                for x in cell.items[:3]:
                    b.between(x, 0, 100)
            dflt = PyList([b.sym('int', 'd%d' % i) for i in range(4)])
            for x in dflt.items:
                b.between(x, 0, 65535)
            r.attrs['matrix'] = lib.color_matrix(b, 2, 2, [cell, None, None, cell])
            r.attrs['default'] = dflt
            return {'self': m, '_impl': impl, '_cell': cell, '_default': dflt}
        c = handler('_color_matrix_light', mode, kind, setup, serves=('C07', 'C15', 'C01'))
        c.define('D', "ghost('Dev')[0]")
        c.ensures('whole-matrix-once', "len(ghost('Dev')) == 1 and D[1] == 'set_matrix' and same(D[0], _impl) and len(D[2]) == 4")
        C = 'old(_cell[%d])'
        if mode == 'LOGICAL':
            c.ensures('staged-cell-hue', 'hue_same(D[2][0][0], sent_hue(%s))' % (C % 0))
            c.ensures('staged-cell-saturation', 'D[2][0][1] == sent_pct(%s)' % (C % 1))
            c.ensures('staged-cell-brightness', 'D[2][3][2] == sent_pct(%s)' % (C % 2))
            c.ensures('staged-cell-kelvin', 'D[2][3][3] == sent_u16(%s)' % (C % 3))
        elif mode == 'RAW':
            for i in range(4):
                c.ensures('staged-cell-%d' % i, 'D[2][0][%d] == sent_u16(%s) and D[2][3][%d] == D[2][0][%d]' % (i, C % i, i, i))
        else:
            rgb = ', '.join('%s / 100' % (C % i) for i in range(3))
            c.ensures('staged-cell-hue', 'D[2][0][0] == sent_frac(hsv_h(%s))' % rgb)
            c.ensures('staged-cell-saturation', 'D[2][0][1] == sent_frac(hsv_s(%s))' % rgb)
            c.ensures('staged-cell-brightness', 'D[2][3][2] == sent_frac(hsv_v(%s))' % rgb)
        for i in range(4):
            c.ensures('unstaged-cell-gets-default-%d' % i, 'D[2][1][%d] == old(_default[%d]) and D[2][2][%d] == old(_default[%d])' % (i, i, i, i))
        duration_clause(c, mode)
