"""C06 / C03: bardolph/lib/symbol_table.py and the Context look-ups over it - the tables the parser's contracts
treat abstractly (parserlib: "a lookup yields the same answer for the same name until it is (re)defined").
Here the real classes run: a table holding 0..2 earlier symbols with symbolic names; the LAST definition of a name wins.
"""
from pyvc.spec import contract
from pyvc.values import PyObj, PyDict, PyList, SymVal

ST = 'bardolph/lib/symbol_table.py'


def _table(b, n):
    tbl = b.new(('bardolph.lib.symbol_table', 'SymbolTable'))
    styp = b.cls('bardolph.lib.symbol', 'SymbolType')
    names = []
    for i in range(n):
        nm = b.sym('atom', 'earlier_name%d' % i)
        for other in names:
            if isinstance(nm, SymVal):
                b.assume(nm.t != other.t)
        names.append(nm)
        kind = ('VAR', 'MACRO')[i % 2]
        tbl.attrs['_dict'].d[nm] = b.new(('bardolph.lib.symbol', 'Symbol'), nm, styp.members[kind], b.sym('int', 'earlier_value%d' % i))
    return tbl, names, styp


for n in (0, 1, 2):
    for new_kind in ('VAR', 'MACRO', 'ROUTINE'):
        c = contract(ST, 'define_then_lookup', serves=['C06', 'C03'], name='lemma:add_symbol(name, %s); lookups [%d earlier symbols]' % (new_kind, n), src='''
def define_then_lookup(table, name, kind, value, other):
    table.add_symbol(name, kind, value)
    s = table.get_symbol(name)
    return (s.symbol_type, s.value, s.name, name in table, table.get_type(name), table.get_value(name), table.get_symbol(other))
''')
        def _setup(b, case, n=n, new_kind=new_kind):
            tbl, names, styp = _table(b, n)
            name = b.sym('atom', 'name')          # may or may not equal an earlier name
            other = b.sym('atom', 'other_name')
            if isinstance(other, SymVal):
                b.assume(other.t != name.t)
            return {'table': tbl, 'name': name, 'kind': styp.members[new_kind], 'value': b.sym('int', 'value'), 'other': other,
                    '_before': PyList([(k_, v_) for k_, v_ in tbl.attrs['_dict'].d.items()])}
        c.setup(_setup)
        c.bounded('%d earlier symbols' % n)
        c.ensures('the-last-definition-wins', 'result[0] is kind and result[1] == value and result[2] == name and result[3] is True '
                                                'and result[4] is kind and result[5] == value')
        c.ensures('other-names-keep-their-meaning', 'all(implies(other == p_[0], result[6] is p_[1]) for p_ in _before) '
                                                    'and implies(not any(other == p_[0] for p_ in _before), result[6].undefined)')

c = contract(ST, 'SymbolTable.clear', serves=['C06', 'C17'], name='SymbolTable.clear[2 symbols]')
def _setup(b, case):
    tbl, names, styp = _table(b, 2)
    return {'self': tbl, '_n': names[0]}
c.setup(_setup)
c.ensures('nothing-is-defined-afterwards', 'len(self._dict) == 0 and self.get_symbol(_n).undefined and not (_n in self)')
