"""C06 / C03: bardolph/lib/symbol_table.py and the Context look-ups over it - the tables the parser's contracts
treat abstractly (parserlib: "a lookup yields the same answer for the same name until it is (re)defined").
Here the real classes run: a table holding 0..2 earlier symbols with symbolic names; the LAST definition of a name wins.
"""
from pyvc.spec import contract
from pyvc.values import PyObj, PyDict, PyList, SymVal

ST = 'bardolph/lib/symbol_table.py'


def _table(b, n):
    tbl = b.new(('bardolph.lib.symbol_table', 'SymbolTable'))
    styp = b.cls('bardolph.lib.symbol', 'SymbolType')
    names = []
    for i in range(n):
        nm = b.sym('atom', 'earlier_name%d' % i)
        for other in names:
            if isinstance(nm, SymVal):
                b.assume(nm.t != other.t)
        names.append(nm)
        kind = ('VAR', 'MACRO')[i % 2]
        tbl.attrs['_dict'].d[nm] = b.new(('bardolph.lib.symbol', 'Symbol'), nm, styp.members[kind], b.sym('int', 'earlier_value%d' % i))
    return tbl, names, styp


for n in (0, 1, 2):
    for new_kind in ('VAR', 'MACRO', 'ROUTINE'):
        c = contract(ST, 'define_then_lookup', serves=['C06', 'C03'], name='lemma:add_symbol(name, %s); lookups [%d earlier symbols]' % (new_kind, n), src='''
def define_then_lookup(table, name, kind, value, other):
    table.add_symbol(name, kind, value)
    s = table.get_symbol(name)
    return (s.symbol_type, s.value, s.name, name in table, table.get_type(name), table.get_value(name), table.get_symbol(other))
''')
        def _setup(b, case, n=n, new_kind=new_kind):
            tbl, names, styp = _table(b, n)
            name = b.sym('atom', 'name')          # may or may not equal an earlier name
            other = b.sym('atom', 'other_name')
            if isinstance(other, SymVal):
                b.assume(other.t != name.t)
            return {'table': tbl, 'name': name, 'kind': styp.members[new_kind], 'value': b.sym('int', 'value'), 'other': other,
                    '_before': PyList([(k_, v_) for k_, v_ in tbl.attrs['_dict'].d.items()])}
        c.setup(_setup)
        c.bounded('%d earlier symbols' % n)
        c.ensures('the-last-definition-wins', 'result[0] is kind and result[1] == value and result[2] == name and result[3] is True '
                                                'and result[4] is kind and result[5] == value')
        c.ensures('other-names-keep-their-meaning', 'all(implies(other == p_[0], result[6] is p_[1]) for p_ in _before) '
                                                    'and implies(not any(other == p_[0] for p_ in _before), result[6].undefined)')

c = contract(ST, 'SymbolTable.clear', serves=['C06', 'C17'], name='SymbolTable.clear[2 symbols]')
def _setup(b, case):
    tbl, names, styp = _table(b, 2)
    return {'self': tbl, '_n': names[0]}
c.setup(_setup)
c.ensures('nothing-is-defined-afterwards', 'len(self._dict) == 0 and self.get_symbol(_n).undefined and not (_n in self)')


# ---- Context over the real tables: scopes. A routine's parameter / local is a variable inside the routine whatever the
#      globals hold under that name (also a routine); it is gone after the routine; clear() forgets every routine name, so
#      a name that was a routine in an earlier text is an ordinary name in the next
CX = 'bardolph/parser/context.py'
c = contract(CX, 'scopes', serves=['C06', 'C16', 'C03'], name='lemma:routine N defined; another routine declares N as parameter', src='''
def scopes(ctx, name, other, routine):
    ctx.add_routine(routine)                  # define N ...        (routine.name is `name`)
    was_routine = ctx.has_routine(name)
    ctx.enter_routine()                       # define g with N ...
    ctx.add_variable(name)
    inside = (ctx.has_symbol_typed(name, SymbolType.VAR), ctx.get_symbol(name).symbol_type)
    ctx.exit_routine()
    after = (ctx.has_routine(name), ctx.has_symbol_typed(name, SymbolType.VAR), ctx.has_symbol(other))
    return (was_routine, inside, after)
''')
def _setup(b, case):
    ctx = b.new(('bardolph.parser.context', 'Context'))
    name = b.sym('atom', 'name')
    other = b.sym('atom', 'other')
    b.assume(other.t != name.t) if isinstance(other, SymVal) else None
    routine = b.new(('bardolph.controller.routine', 'Routine'), name)
    return {'ctx': ctx, 'name': name, 'other': other, 'routine': routine}
c.setup(_setup)
c.ensures('a-parameter-is-a-variable-inside-its-routine', 'result[0] is True and result[1][0] is True and result[1][1] is SymbolType.VAR')
c.ensures('and-the-routine-again-afterwards', 'result[2][0] is True and result[2][1] is False and result[2][2] is False')

c = contract(CX, 'forgotten', serves=['C06', 'C17'], name='lemma:a routine and a variable defined; clear(); the names are free', src='''
def forgotten(ctx, rname, vname, mname, routine):
    ctx.add_routine(routine)
    ctx.add_variable(vname)
    ctx.add_global(mname, SymbolType.MACRO, 5)
    before = (ctx.has_routine(rname), ctx.has_symbol(vname), ctx.get_macro(mname).undefined)
    ctx.clear()
    return (before, ctx.has_routine(rname), ctx.has_symbol(rname), ctx.has_symbol(vname), ctx.get_macro(mname).undefined,
            ctx.get_routine(rname).undefined)
''')
def _setup(b, case):
    ctx = b.new(('bardolph.parser.context', 'Context'))
    names = [b.sym('atom', n) for n in ('rname', 'vname', 'mname')]
    for i in range(3):
        for j in range(i + 1, 3):
            b.assume(names[i].t != names[j].t) if isinstance(names[i], SymVal) else None
    routine = b.new(('bardolph.controller.routine', 'Routine'), names[0])
    return {'ctx': ctx, 'rname': names[0], 'vname': names[1], 'mname': names[2], 'routine': routine}
c.setup(_setup)
c.ensures('known-before', 'result[0][0] is True and result[0][1] is True and result[0][2] is False')
c.ensures('nothing-known-after-clear', 'result[1] is False and result[2] is False and result[3] is False and result[4] is True and result[5] is True')
