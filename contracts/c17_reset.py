"""C17: compiles and runs are independent of what was compiled or run before.

"reset == construct": after the reset operation every field of the object equals (structurally) the field
of a freshly constructed object, whatever state the object was in; pre-states are built by the real
constructor and then dirtied with symbolic / arbitrary content in every field.
"""
import z3
from pyvc.spec import contract
from pyvc.values import PyObj, PyList, PyDict, PySet, SymVal, Builtin, EnumMember, Opaque
from pyvc.ops import mk
from pyvc import spec
from . import lib


def same_state(I, a, b, depth=0, seen=None):
    """structural equality of two object graphs (z3 Bool / bool)"""
    seen = seen if seen is not None else set()
    if (id(a), id(b)) in seen:
        return True
    if a is b:
        return True
    if isinstance(a, PyObj) and isinstance(b, PyObj):
        seen.add((id(a), id(b)))
        if a.cls is not b.cls:
            return False
        keys = set(a.attrs) | set(b.attrs)
        out = []
        for k in sorted(keys):
            if k not in a.attrs or k not in b.attrs:
                return False
            if k.startswith('_fn_table') or k == '_command_map':
                continue
            out.append(same_state(I, a.attrs[k], b.attrs[k], depth + 1, seen))
        return conj(out)
    if isinstance(a, PyList) and isinstance(b, PyList):
        if len(a.items) != len(b.items):
            return False
        return conj([same_state(I, x, y, depth + 1, seen) for x, y in zip(a.items, b.items)])
    if isinstance(a, PyDict) and isinstance(b, PyDict):
        if len(a.d) != len(b.d):
            return False
        return conj([same_state(I, a.d[k], b.d.get(k), depth + 1, seen) if k in b.d else False for k in a.d])
    if isinstance(a, (PyObj, PyList, PyDict, Opaque)) or isinstance(b, (PyObj, PyList, PyDict, Opaque)):
        return a is b or (isinstance(a, Opaque) and isinstance(b, Opaque) and a.name == b.name)
    r = I.equals(a, b)
    return r if isinstance(r, bool) else r.t


def conj(xs):
    if any(x is False for x in xs):
        return False
    ts = [x for x in xs if x is not True]
    return z3.And(*ts) if ts else True


def install(I):
    def fn(I_, a, k):
        r = same_state(I_, a[0], a[1])
        return r if isinstance(r, bool) else mk(r, 'bool')
    I.spec_fns['same_state'] = Builtin('spec.same_state', fn)

    def differing(I_, a, k):
        """names of the fields that differ (diagnostics in replays)"""
        x, y = a
        return [k_ for k_ in x.attrs if same_state(I_, x.attrs[k_], y.attrs.get(k_)) is False]
    I.spec_fns['differing_fields'] = Builtin('spec.differing_fields', differing)


spec.EXTRA_INSTALLERS.append(install)


def dirty(b, obj, prefix=''):
    """overwrite every scalar field with a symbolic value of its kind, put an entry into every container"""
    for k, v in list(obj.attrs.items()):
        if isinstance(v, bool):
            obj.attrs[k] = b.sym('bool', prefix + k)
        elif isinstance(v, int):
            obj.attrs[k] = b.sym('int', prefix + k)
        elif isinstance(v, float):
            obj.attrs[k] = b.sym('real', prefix + k)
        elif v is None:
            obj.attrs[k] = b.sym('int', prefix + k)
        elif isinstance(v, PyList):
            v.items.append(b.sym('int', prefix + k + '_item'))
        elif isinstance(v, PyDict):
            v.d[b.sym('str', prefix + k + '_key')] = b.sym('int', prefix + k + '_val')
        elif isinstance(v, PyObj) and v.cls.name in ('SymbolTable', 'EvalStack'):
            dirty(b, v, prefix + k + '.')


# ---- Context.clear == Context()
c = contract('bardolph/parser/context.py', 'Context.clear', serves=['C17', 'C06', 'C05', 'C10', 'C01'])
def _setup(b, case):
    ctx = b.new(('bardolph.parser.context', 'Context'))
    fresh = b.new(('bardolph.parser.context', 'Context'))
    dirty(b, ctx)
    lc = b.new(('bardolph.parser.context', '_LoopContext'))
    ctx.attrs['_loop_stack'].items.append(lc)
    return {'self': ctx, '_fresh': fresh}
c.setup(_setup)
c.ensures('as-freshly-constructed', 'same_state(self, _fresh)')

c = contract('bardolph/parser/code_gen.py', 'CodeGen.clear', serves=['C17'])
def _setup(b, case):
    cg = b.new(('bardolph.parser.code_gen', 'CodeGen'))
    fresh = b.new(('bardolph.parser.code_gen', 'CodeGen'))
    dirty(b, cg)
    return {'self': cg, '_fresh': fresh}
c.setup(_setup)
c.ensures('as-freshly-constructed', 'same_state(self, _fresh)')

c = contract('bardolph/vm/machine.py', 'Registers.reset', serves=['C17'])
def _setup(b, case):
    r = b.new(('bardolph.vm.machine', 'Registers'))
    fresh = b.new(('bardolph.vm.machine', 'Registers'))
    dirty(b, r)
    r.attrs['unit_mode'] = b.enum('bardolph.controller.units', 'UnitMode', 'RAW')
    r.attrs['operand'] = b.enum('bardolph.vm.vm_codes', 'Operand', 'ALL')
    return {'self': r, '_fresh': fresh}
c.setup(_setup)
c.ensures('as-freshly-constructed', 'same_state(self, _fresh)')

# ---- Machine.reset: registers, constants, routines, call stack, evaluation stack, pending output, both flags
c = contract('bardolph/vm/machine.py', 'Machine.reset', serves=['C17', 'C19', 'C01'])
def _setup(b, case):
    m = lib.machine(b, 'LOGICAL', lib.light_set_with(b, {}))
    fresh = lib.machine(b, 'LOGICAL', lib.light_set_with(b, {}))
    dirty(b, m.attrs['_reg'], 'reg.')
    m.attrs['_reg'].attrs['unit_mode'] = b.enum('bardolph.controller.units', 'UnitMode', 'RGB')
    m.attrs['_constants'].d[b.sym('str', 'cname')] = b.sym('int', 'cval')
    m.attrs['_routines'].d[b.sym('str', 'rname')] = b.sym('int', 'rval')
    m.attrs['_globals'].d[b.sym('str', 'gname')] = b.sym('int', 'gval')
    I = b.I
    cs = m.attrs['_call_stack']
    I.call(I.getattr_(cs, 'put_variable'), [b.sym('str', 'var'), b.sym('int', 'varval')], {})
    I.call(I.getattr_(cs, 'new_frame'), [], {})
    I.call(I.getattr_(cs, 'enter_loop'), [], {})
    b.I.getattr_(m.attrs['_vm_math'].attrs['_eval_stack'], '_stack').items.append(b.sym('int', 'stale_operand'))
    b.I.getattr_(m.attrs['_vm_io'], '_unnamed').items.append(b.sym('int', 'pending_output'))
    m.attrs['_keep_running'] = b.sym('bool', 'keep_running')
    m.attrs['_enable_pause'] = b.sym('bool', 'enable_pause')
    m.attrs['_cue_time'] = b.sym('int', 'cue')
    m.attrs['_program'] = fresh.attrs['_program']
    m.attrs['_clock'] = fresh.attrs['_clock']
    return {'self': m, '_fresh': fresh}
c.setup(_setup)
for f in ('_reg', '_constants', '_globals', '_routines', '_call_stack', '_keep_running', '_enable_pause', '_cue_time'):
    c.ensures('fresh' + f, 'same_state(self.%s, _fresh.%s)' % (f, f))
c.ensures('fresh-evaluation-stack', 'same_state(self._vm_math._eval_stack, _fresh._vm_math._eval_stack)')
c.ensures('no-pending-output-carried-over', 'len(self._vm_io._unnamed) == 0')
# reset == construct also in what is SHARED: whether the call stack looks at the machine's own constants table or at a table of its
# own must not depend on what the previous run left in the table (a `define` would be visible from the second run on only)
c.ensures('same-sharing-as-a-fresh-machine', 'iff(self._call_stack._top.constants is self._constants, _fresh._call_stack._top.constants is _fresh._constants)')
c.ensures('sub-machines-share-the-fresh-state', 'self._vm_io._reg is self._reg and self._vm_math._reg is self._reg and self._vm_io._call_stack is self._call_stack')
