"""C02 (compile-time half): precedence climbing in ExpressionParser._expression groups operators as documented.

Ghost state: pos (cursor into an arbitrary token stream) and G, the stack of *root precedences* of the
operands the emitted postfix code has produced so far (INF for an atom: literal, variable, register, call,
parenthesised or negated operand; prec(o) for a node built by operator o).  The real _expression body is
verified (two loops with invariants, recursive call through its own contract) against:
  _do_op(op) is only reached with  left-ok(G[-2], op)  and  right-ok(G[-1], op)    (local grouping condition)
where left-ok(L, o) = L > prec(o) or (L == prec(o) and o groups left to right) and
      right-ok(R, o) = R > prec(o) or (R == prec(o) and o groups right to left).
By the classical operator-precedence theorem (trusted meta-argument, DESIGN 4 C02) a postfix program whose
every operator node satisfies this condition denotes the tree of the documented stratified grammar.
Tokens are abstract: is_binop / prec / assoc are uninterpreted functions of the stream position constrained
only by four table facts, which are proved for EVERY token content from the real Token code (lemma below).
_atom and next_token are assumed: _atom consumes at least one token and, on success, leaves exactly one
atom operand (root INF); it is the entry into recursion through parentheses (its own contract: TODO).
"""
import z3
from pyvc.spec import contract
from pyvc.values import PyObj, Opaque, Computed, SymVal, SymSeq, Builtin, PyList
from pyvc.ops import mk, to_term
from pyvc.interp import PyRaise
from pyvc import spec
from . import lib

EP = 'bardolph/parser/expr_parser.py'
INF = 100
IB = z3.Function('tok_is_binop', z3.IntSort(), z3.BoolSort())
PR = z3.Function('tok_prec', z3.IntSort(), z3.IntSort())
RA = z3.Function('tok_assoc_right', z3.IntSort(), z3.BoolSort())


def table_facts(p):
    """facts about every token, proved from the real Token.prec/assoc/is_binop (lemma:Token table facts)"""
    return z3.And(z3.Or(PR(p) == -1, z3.And(PR(p) >= 1, PR(p) <= 7)),
                  z3.Implies(z3.And(IB(p), PR(p) >= 0), PR(p) >= 2),
                  z3.Implies(PR(p) == 7, z3.And(IB(p), RA(p))),
                  z3.Implies(RA(p), z3.Or(PR(p) == 1, PR(p) == 7)))


def token_at(I, pos_t):
    assoc_mod = I.load_module('bardolph.parser.token')
    A = assoc_mod.ns['Assoc']
    I.assume(table_facts(pos_t))

    def assoc(I_, o):
        return A.members['RIGHT'] if I_.branch(RA(pos_t), 'assoc') else A.members['LEFT']
    t = Opaque('token', attrs={'is_binop': mk(IB(pos_t), 'bool'), 'prec': mk(PR(pos_t), 'int'),
                               'assoc': Computed(assoc), 'pos': mk(pos_t, 'int')})
    return t


def parser_stub(b):
    I = b.I
    st = Opaque('parser')
    st.attrs['current_token'] = Computed(lambda I_, o: token_at(I_, to_term(I_.ghost['pos'], 'int')))

    def next_token(I_, o, a, k):
        I_.ghost['pos'] = mk(to_term(I_.ghost['pos'], 'int') + 1, 'int')
        return True
    st.methods['next_token'] = next_token
    return st


def Gseq(I):
    return I.ghost['G']


def install(I):
    F = I.spec_fns

    def fn(name, f):
        F[name] = Builtin('spec.' + name, lambda I_, a, k: f(I_, *a))
    def gsel(I_, g, back):
        arr, n = I_.read_seq(g) if not (I_.old_mode) else I_.read_seq(g)
        return z3.Select(arr, n - back)
    fn('G', lambda I_: I_.frozen_old(I_.ghost_read('G')) if I_.old_mode else I_.ghost_read('G'))
    fn('g_len', lambda I_, g: mk(g.n, 'int'))
    fn('g_top', lambda I_, g, back=1: mk(z3.Select(g.arr, g.n - to_term(back, 'int')), 'int'))
    fn('pos', lambda I_: I_.ghost_read('pos'))
    fn('P', lambda I_, t: t.attrs['prec'])
    fn('B', lambda I_, t: t.attrs['is_binop'])
    fn('R', lambda I_, t: mk(RA(to_term(t.attrs['pos'], 'int')), 'bool'))
    fn('cur', lambda I_: token_at(I_, to_term(I_.ghost_read('pos'), 'int')))

    def left_ok(I_, L, t):
        p, L = to_term(t.attrs['prec'], 'int'), to_term(L, 'int')
        return mk(z3.Or(L > p, z3.And(L == p, z3.Not(RA(to_term(t.attrs['pos'], 'int'))))), 'bool')
    fn('left_ok', left_ok)

    def right_ok(I_, R_, t):
        p, R_ = to_term(t.attrs['prec'], 'int'), to_term(R_, 'int')
        return mk(z3.Or(R_ > p, z3.And(R_ == p, RA(to_term(t.attrs['pos'], 'int')))), 'bool')
    fn('right_ok', right_ok)

    def same_below(I_, g, old, k):
        """g and old agree on all but their k topmost elements and have the same length"""
        q = z3.Int('q!sb')
        return mk(z3.And(g.n == old.n, z3.ForAll([q], z3.Implies(z3.And(0 <= q, q < g.n - to_term(k, 'int')),
                                                                z3.Select(g.arr, q) == z3.Select(old.arr, q)))), 'bool')
    fn('same_below', same_below)

    def pushed(I_, g, old, v):
        q = z3.Int('q!pu')
        return mk(z3.And(g.n == old.n + 1, z3.Select(g.arr, old.n) == to_term(v, 'int'),
                         z3.ForAll([q], z3.Implies(z3.And(0 <= q, q < old.n), z3.Select(g.arr, q) == z3.Select(old.arr, q)))), 'bool')
    fn('pushed', pushed)


spec.EXTRA_INSTALLERS.append(install)


def ep_obj(b):
    I = b.I
    st = parser_stub(b)
    ep = PyObj(b.cls('bardolph.parser.expr_parser', 'ExpressionParser'), {'parser': st})
    b.ghost('pos', b.sym('int', 'pos0'))
    g = b.seq('int', 'G')
    b.ghost('G', g)
    return ep


# ---- assumed / specification-level contracts of the callees (ghost bookkeeping)
c = contract(EP, 'ExpressionParser._atom', serves=[], modular=True, group='precedence', name='ExpressionParser._atom (ghost contract of the precedence proof; body verified in c16_lexer.py)')
c.returns('bool')
def _atom_effect(I, env):
    old = I.ghost['pos']
    newp = I.fresh('int', 'pos')
    I.assume(newp.t > to_term(old, 'int'))
    I.ghost['pos'] = newp
    g = I.ghost['G']
    g.arr = z3.Store(g.arr, g.n, z3.IntVal(INF))
    g.n = z3.simplify(g.n + 1)
c.effect(_atom_effect)
c.assume_note('ExpressionParser._atom: consumes >= 1 token and leaves one atom operand (ghost root precedence INF) - assumed')

c = contract(EP, 'ExpressionParser._do_op', serves=[], modular=True, name='ExpressionParser._do_op (ghost: local grouping condition)')
c.returns('bool')
c.requires('two-operands', 'g_len(G()) >= 2')
c.requires('left-operand-groups-correctly', 'left_ok(g_top(G(), 2), op)')
c.requires('right-operand-groups-correctly', 'right_ok(g_top(G(), 1), op)')
def _do_op_effect(I, env):
    g = I.ghost['G']
    op = env.vars['op']
    g.arr = z3.Store(g.arr, g.n - 2, to_term(op.attrs['prec'], 'int'))
    g.n = z3.simplify(g.n - 1)
c.effect(_do_op_effect)

# ---- the function under verification (also used modularly for its recursive call)
c = contract(EP, 'ExpressionParser._expression', serves=['C02', 'C06'], modular=True, uses=('precedence',))
c.returns('bool')
def _setup(b, case):
    ep = ep_obj(b)
    return {'self': ep, 'min_prec': b.sym('int', 'min_prec')}
c.setup(_setup)
ENTER = '(B(cur()) and P(cur()) >= min_prec)'
c.requires('an-operand-is-on-the-stack', 'g_len(G()) >= 1')
c.requires('min-prec-is-a-precedence', '0 <= min_prec <= 7')
c.requires('left-operand-groups-with-the-coming-operator', ENTER + ' ==> left_ok(g_top(G()), cur())')
c.modifies('ghost:pos', 'ghost:G')
c.ensures('one-operand-replaces-one', 'result ==> same_below(G(), old(G()), 1)')
c.ensures('maximal', 'result ==> not (B(cur()) and P(cur()) >= min_prec)')
c.ensures('root-precedence', 'result ==> (g_top(G()) == g_top(old(G())) and pos() == old(pos())) or (min_prec <= g_top(G()) <= 7 and pos() > old(pos()))')
c.ensures('entered-iff-operator', 'result and old(%s) ==> pos() > old(pos())' % ENTER)
# outer loop (ordinal 0), inner loop (ordinal 1)
c.loop(0, ['same_below(G(), old(G()), 1)',
           'pos() >= old(pos())',
           '(g_top(G()) == g_top(old(G())) and pos() == old(pos())) or (min_prec <= g_top(G()) <= 7 and pos() > old(pos()))',
           ENTER + ' ==> left_ok(g_top(G()), cur())'],
       modifies=['ghost:pos', 'ghost:G'], havoc_kinds={}, progress='pos()')
INNER = '((B(cur()) and P(cur()) > P(op)) or (R(cur()) and P(cur()) == P(op)))'
c.loop(1, ['same_below(G(), at_entry(G()), 1)', 'right_ok(g_top(G()), op)', INNER + ' ==> left_ok(g_top(G()), cur())',
           'pos() >= at_entry(pos())'],
       modifies=['ghost:pos', 'ghost:G'], havoc_kinds={}, progress='pos()')


# ---- entry-level witness search for a failed grouping obligation: all operator chains of length 2 and 3
DOC_PREC = {'or': 1, 'and': 2, '==': 3, '!=': 3, '<': 3, '<=': 3, '>': 3, '>=': 3, '+': 4, '-': 4, '*': 5, '/': 5, '%': 5, '^': 6}


def _ref_eval(tokens):
    """value of a flat infix token list by the documented grouping (independent reference evaluator)"""
    import operator as O
    fn = {'+': O.add, '-': O.sub, '*': O.mul, '/': O.truediv, '%': O.mod, '^': O.pow, '==': O.eq, '!=': O.ne,
          '<': O.lt, '<=': O.le, '>': O.gt, '>=': O.ge, 'and': lambda a, b: bool(a) and bool(b), 'or': lambda a, b: bool(a) or bool(b)}
    def parse(lo, hi):          # tokens[lo:hi], operands at even offsets
        if hi - lo == 1:
            return tokens[lo]
        # split at the operator that is applied last: lowest precedence; rightmost for left-assoc, leftmost for ^
        best = None
        for i in range(lo + 1, hi, 2):
            p = DOC_PREC[tokens[i]]
            if best is None or p < DOC_PREC[tokens[best]] or (p == DOC_PREC[tokens[best]] and tokens[i] != '^'):
                best = i
        return fn[tokens[best]](parse(lo, best), parse(best + 1, hi))
    return parse(0, len(tokens))


def _expr_replay(ob, repo):
    import itertools
    from pyvc.replay import run_scripts
    ops = list(DOC_PREC)
    nums = [3, 2, 2, 2]       # small operands: chains of ^ stay computable
    cands = []
    for n in (2, 3):
        for combo in itertools.product(ops, repeat=n):
            toks = [nums[0]]
            for i, o in enumerate(combo):
                toks += [o, nums[i + 1]]
            try:
                want = _ref_eval(toks)
            except (ZeroDivisionError, OverflowError):
                continue
            cands.append((' '.join(str(t) for t in toks), want))
    # one script with many assignments (chunks keep error isolation reasonable)
    bad = []
    CH = 200
    for i in range(0, len(cands), CH):
        chunk = cands[i:i + CH]
        script = '\n'.join('assign v%d {%s}' % (j, e) for j, (e, _) in enumerate(chunk))
        res = run_scripts(repo, [script], ['v%d' % j for j in range(len(chunk))])[0]
        if not res['compiled'] or res['raised']:
            continue
        for j, (e, want) in enumerate(chunk):
            got = res['vars'].get('v%d' % j)
            ok = (got == want) or (isinstance(got, (int, float)) and isinstance(want, (int, float)) and not isinstance(want, bool)
                                   and abs(got - want) <= 1e-9 * max(1, abs(want)))
            if isinstance(want, bool):
                ok = (bool(got) == want)
            if not ok:
                bad.append({'expression': '{%s}' % e, 'documented_value': want, 'computed': got})
        if len(bad) >= 5:
            break
    return {'reproduced': bool(bad), 'searched': '%d operator chains of length 2..3' % len(cands), 'witnesses': bad[:5],
            'required': 'value by the documented precedence / associativity'}


for _c in spec.REGISTRY:
    if _c.path == EP and _c.qualname == 'ExpressionParser._expression':
        _c.replay_hook = _expr_replay


# ---- the four table facts, for EVERY token content and token type, from the real Token code
c = contract('bardolph/parser/token.py', 'token_facts', serves=['C02', 'C06'], name='lemma:Token table facts (all contents)', src='''
def token_facts(tok):
    return (tok.is_binop, tok.prec, tok.assoc is Assoc.RIGHT)
''')
def _setup(b, case):
    tt = b.cls('bardolph.parser.token', 'TokenTypes')
    content = b.sym('str', 'content')
    tok = PyObj(b.cls('bardolph.parser.token', 'Token'), {'_token_type': tt.members[case['type']], '_content': content,
                                                         '_line_number': 1, '_file_name': ''})
    return {'tok': tok}
c.setup(_setup)
c.cases([{'type': t} for t in ('COMPARE', 'MARK', 'NAME', 'AND', 'OR', 'NOT', 'NUMBER', 'LITERAL_STRING', 'EOF', 'REGISTER')])
# lexer postcondition (regex alternation, bounded stand-in under C16): a COMPARE token's text is one of the six comparison operators
c.requires('compare-tokens-are-comparison-operators',
           "tok._token_type is not TokenTypes.COMPARE or tok._content == '==' or tok._content == '!=' or tok._content == '<' "
           "or tok._content == '<=' or tok._content == '>' or tok._content == '>='")
# lexer postconditions: a keyword token spells its keyword; names, numbers, registers and EOF spell no operator
c.requires('keyword-tokens-spell-their-keyword',
           "(tok._token_type is not TokenTypes.AND or tok._content == 'and') and (tok._token_type is not TokenTypes.OR or tok._content == 'or') "
           "and (tok._token_type is not TokenTypes.NOT or tok._content == 'not')")
c.requires('word-tokens-spell-no-operator',
           "tok._token_type is TokenTypes.MARK or tok._token_type is TokenTypes.COMPARE or tok._token_type is TokenTypes.LITERAL_STRING "
           "or tok._token_type is TokenTypes.AND or tok._token_type is TokenTypes.OR or tok._token_type is TokenTypes.NOT "
           "or not any(tok._content == op for op in ('not', 'or', 'and', '==', '<=', '>=', '!=', '<', '>', '+', '-', '*', '/', '%', '^'))")
c.ensures('prec-range', 'result[1] == -1 or 1 <= result[1] <= 7')
c.ensures('binary-operators-have-prec>=2', 'result[0] and result[1] >= 0 ==> result[1] >= 2')
c.ensures('prec-7-is-the-right-associative-binary-operator', 'result[1] == 7 ==> result[0] and result[2]')
c.ensures('right-assoc-only-not-and-power', 'result[2] ==> result[1] == 1 or result[1] == 7')
