"""C15: zone and row/column addressing hits exactly the addressed cells, once each.

Unbounded part: ColorMatrix.overlay_color / _normalize_rect / set_from_constant on matrices of symbolic
height and width (cells are opaque colour identities): inclusive bounds, nothing else touched, omitted end
equals the start, omitted clause means the full extent.  (Zone addressing: Machine._color_mz_light, see
c07_machine2.py; cell conversion and the single set_matrix per set: Machine._color_matrix_light there.)
"""
import z3
from pyvc.spec import contract
from pyvc.values import PyObj, SymMat, SymVal, Builtin, PyList, PyDict
from pyvc.ops import mk, to_term
from pyvc import spec
from . import lib

CM = 'bardolph/controller/color_matrix.py'


def install(I):
    F = I.spec_fns

    def cell(I_, a, k):
        m, r, c_ = a
        arr = m.arr
        return mk(z3.Select(z3.Select(arr, to_term(r, 'int')), to_term(c_, 'int')), 'atom')
    F['cell'] = Builtin('spec.cell', cell)

    def overlaid(I_, a, k):
        """overlaid(M, M0, top, bottom, left, right, colour): inside the inclusive rectangle cells hold colour,
        every other cell of the matrix is as in M0"""
        m, m0, top, bot, left, right, col = a
        r, c_ = z3.Ints('r!ov c!ov')
        t = lambda x: to_term(x, 'int')
        inside = z3.And(t(top) <= r, r <= t(bot), t(left) <= c_, c_ <= t(right))
        new = z3.Select(z3.Select(m.arr, r), c_)
        old = z3.Select(z3.Select(m0.arr, r), c_)
        return mk(z3.ForAll([r, c_], z3.Implies(z3.And(0 <= r, r < m.h, 0 <= c_, c_ < m.w),
                                                 z3.If(inside, new == t(col), new == old))), 'bool')
    F['overlaid'] = Builtin('spec.overlaid', overlaid)

    def all_cells(I_, a, k):
        m, col = a
        r, c_ = z3.Ints('r!ac c!ac')
        return mk(z3.ForAll([r, c_], z3.Implies(z3.And(0 <= r, r < m.h, 0 <= c_, c_ < m.w),
                                                 z3.Select(z3.Select(m.arr, r), c_) == to_term(col, 'int'))), 'bool')
    F['all_cells'] = Builtin('spec.all_cells', all_cells)


spec.EXTRA_INSTALLERS.append(install)


def sym_matrix(b):
    I = b.I
    h, w = b.sym('int', 'height'), b.sym('int', 'width')
    b.assume(z3.And(h.t >= 1, w.t >= 1)) if isinstance(h, SymVal) else None
    I.fresh_n += 1
    arr = z3.Array('mat#%d' % I.fresh_n, z3.IntSort(), z3.ArraySort(z3.IntSort(), z3.IntSort()))
    mat = SymMat(arr, h.t, w.t)
    cm = PyObj(b.cls('bardolph.controller.color_matrix', 'ColorMatrix'), {'_height': h, '_width': w, '_mat': mat})
    return cm, mat, h, w


def rect(b, shape):
    """shape: 4 chars, 'i' = given, 'n' = omitted (None) for top, bottom, left, right"""
    vals = []
    for nm, ch in zip(('top', 'bottom', 'left', 'right'), shape):
        vals.append(b.sym('int', nm) if ch == 'i' else None)
    R = b.new(('bardolph.controller.color_matrix', 'Rect'), *vals)
    return R, vals


SHAPES = [a + c_ for a in ('ii', 'in', 'ni', 'nn') for c_ in ('ii', 'in', 'ni', 'nn')]

# ---- _normalize_rect
c = contract(CM, 'ColorMatrix._normalize_rect', serves=['C15'])
def _setup(b, case):
    cm, mat, h, w = sym_matrix(b)
    R, vals = rect(b, case['shape'])
    return {'self': cm, 'rect': R, '_v': PyList(vals)}
c.setup(_setup)
c.cases([{'shape': s} for s in SHAPES])
c.ensures('given-bounds-kept', '(not is_none(_v[0]) ==> rect.top == _v[0]) and (not is_none(_v[1]) ==> rect.bottom == _v[1]) '
          'and (not is_none(_v[2]) ==> rect.left == _v[2]) and (not is_none(_v[3]) ==> rect.right == _v[3])')
c.ensures('omitted-end-equals-start', '(is_none(_v[1]) and not is_none(_v[0]) ==> rect.bottom == _v[0]) and (is_none(_v[0]) and not is_none(_v[1]) ==> rect.top == _v[1]) '
          'and (is_none(_v[3]) and not is_none(_v[2]) ==> rect.right == _v[2]) and (is_none(_v[2]) and not is_none(_v[3]) ==> rect.left == _v[3])')
c.ensures('omitted-clause-is-full-extent', '(is_none(_v[0]) and is_none(_v[1]) ==> rect.top == 0 and rect.bottom == self._height - 1) '
          'and (is_none(_v[2]) and is_none(_v[3]) ==> rect.left == 0 and rect.right == self._width - 1)')

# ---- overlay_color: exactly the inclusive rectangle, nothing else
c = contract(CM, 'ColorMatrix.overlay_color', serves=['C15'])
def _setup(b, case):
    cm, mat, h, w = sym_matrix(b)
    R, vals = rect(b, 'iiii')
    return {'self': cm, 'rect': R, 'color': b.sym('atom', 'color'), '_mat': mat}
c.setup(_setup)
c.requires('rectangle-inside-the-matrix', '0 <= rect.top <= rect.bottom < self._height and 0 <= rect.left <= rect.right < self._width')
c.loop(0, ['overlaid(_mat, old(_mat), rect.top, rect.top + _i - 1, rect.left, rect.right, color)'],
       modifies=['self._mat'], index='_i', keep_index=True)
c.loop(1, ['overlaid(_mat, at_entry(_mat), row, row, rect.left, rect.left + _j - 1, color)'],
       modifies=['self._mat'], index='_j', keep_index=True)
c.ensures('exactly-the-inclusive-rectangle', 'overlaid(_mat, old(_mat), rect.top, rect.bottom, rect.left, rect.right, color)')

c = contract(CM, 'ColorMatrix.set_from_constant', serves=['C15'])
def _setup(b, case):
    cm, mat, h, w = sym_matrix(b)
    return {'self': cm, 'value': b.sym('atom', 'value'), '_mat': mat}
c.setup(_setup)
c.loop(0, ['overlaid(_mat, old(_mat), 0, _i - 1, 0, self._width - 1, value)'], modifies=['self._mat'], index='_i', keep_index=True)
c.loop(1, ['overlaid(_mat, at_entry(_mat), row, row, 0, _j - 1, value)'], modifies=['self._mat'], index='_j', keep_index=True)
c.ensures('every-cell', 'all_cells(_mat, value) and result is self')


# ---- bounded: a block with two stages on a 2 x 3 matrix light through the real VM handlers (raw units):
# one set_matrix; cells covered by a stage carry that stage's colour (later over earlier), every other
# cell the saved default; ranges inclusive, omitted end = start, omitted clause = full extent.
H, W = 2, 3
ROWS = [(0, 0), (0, 1), (1, 1), (1, None), (None, None)]
COLS = [(0, 0), (0, 2), (1, 2), (2, None), (None, None), (1, 1)]


def covered(rng, n):
    a, b_ = rng
    if a is None and b_ is None:
        return set(range(n))
    if b_ is None:
        b_ = a
    if a is None:
        a = b_
    return set(range(a, b_ + 1))


import os as _os, sys as _sys
THOROUGH = 'thorough' in _sys.argv or _os.environ.get('VERIF_TIER') == 'thorough'

SRC2 = '''
def two_stages(self, r1, r2, col1, col2):
    reg = self._reg
    self._matrix()
    reg.hue, reg.saturation, reg.brightness, reg.kelvin = col1
    reg.first_row, reg.last_row, reg.first_column, reg.last_column = r1
    self._color_matrix()
    reg.hue, reg.saturation, reg.brightness, reg.kelvin = col2
    reg.first_row, reg.last_row, reg.first_column, reg.last_column = r2
    self._color_matrix()
    self._color_matrix_light()
'''
for i1, (rr1, cc1) in enumerate([(r, c_) for r in ROWS for c_ in COLS]):
    for i2, (rr2, cc2) in enumerate([(ROWS[1], COLS[5]), (ROWS[3], COLS[3]), (ROWS[4], COLS[0]), (ROWS[0], COLS[4])]):
        if (i1 + i2) % 3 and not THOROUGH:           # a third of the 120 combinations in the quick tier, all in thorough
            continue
        c = contract('bardolph/vm/machine.py', 'two_stages', serves=['C15', 'C01'], src=SRC2,
                     name='lemma:set L begin stage %s/%s stage %s/%s end' % (rr1, cc1, rr2, cc2))
        def _setup(b, case, rr1=rr1, cc1=cc1, rr2=rr2, cc2=cc2):
            impl = lib.device(b, 'dev')
            light = lib.lifx_light(b, 'matrix', impl, 'L', _height=H, _width=W)
            ls = lib.light_set_with(b, {'L': light})
            m = lib.machine(b, 'RAW', ls)
            reg = m.attrs['_reg']
            reg.attrs['name'] = 'L'
            reg.attrs['duration'] = 0
            col1 = tuple(b.sym('int', 'a%d' % i) for i in range(4))
            col2 = tuple(b.sym('int', 'b%d' % i) for i in range(4))
            dflt = PyList([b.sym('int', 'd%d' % i) for i in range(4)])
            for x in list(col1) + list(col2) + dflt.items:
                b.between(x, 0, 65535)
            reg.attrs['default'] = dflt
            return {'self': m, 'r1': rr1 + cc1, 'r2': rr2 + cc2, 'col1': col1, 'col2': col2, '_d': dflt, '_impl': impl}
        c.setup(_setup)
        c.bounded('2 x 3 matrix, two stages, representative rectangles')
        c.define('D', "ghost('Dev')")
        c.ensures('whole-matrix-exactly-once', "len(D) == 1 and D[0][1] == 'set_matrix' and same(D[0][0], _impl) and len(D[0][2]) == %d" % (H * W))
        for r in range(H):
            for k in range(W):
                in2 = r in covered(rr2, H) and k in covered(cc2, W)
                in1 = r in covered(rr1, H) and k in covered(cc1, W)
                src = 'col2' if in2 else 'col1' if in1 else '_d'
                c.ensures('cell-%d-%d-is-%s' % (r, k, {'col2': 'later-stage', 'col1': 'earlier-stage', '_d': 'default'}[src]),
                          ' and '.join('D[0][2][%d][%d] == %s[%d]' % (r * W + k, i, src, i) for i in range(4)))


# ---- a block on a script that never executed `set default`: the cells no stage covers are sent as black [0, 0, 0, 0]
#      (a cell must never reach the light as None)
c = contract('bardolph/vm/machine.py', 'two_stages', serves=['C15', 'C01', 'C20', 'C18'], src=SRC2, name='lemma:set L begin stage 0/0 stage 1/1..2 end [no default was ever set]')
def _setup(b, case):
    impl = lib.device(b, 'dev')
    light = lib.lifx_light(b, 'matrix', impl, 'L', _height=H, _width=W)
    m = lib.machine(b, 'RAW', lib.light_set_with(b, {'L': light}))
    reg = m.attrs['_reg']
    reg.attrs['name'] = 'L'
    reg.attrs['duration'] = 0
    col1 = tuple(b.sym('int', 'a%d' % i) for i in range(4))
    col2 = tuple(b.sym('int', 'b%d' % i) for i in range(4))
    for x in list(col1) + list(col2):
        b.between(x, 0, 65535)
    assert reg.attrs['default'] is None
    return {'self': m, 'r1': (0, 0, 0, 0), 'r2': (1, 1, 1, 2), 'col1': col1, 'col2': col2, '_impl': impl}
c.setup(_setup)
c.bounded('2 x 3 matrix')
c.define('D', "ghost('Dev')")
c.ensures('whole-matrix-exactly-once', "len(D) == 1 and D[0][1] == 'set_matrix' and len(D[0][2]) == %d" % (H * W))
c.ensures('uncovered-cells-are-black-never-none', ' and '.join('D[0][2][%d] == [0, 0, 0, 0]' % i for i in (1, 2, 3)))
c.ensures('covered-cells-carry-their-stage', ' and '.join(['D[0][2][0][%d] == col1[%d]' % (i, i) for i in range(4)] + ['D[0][2][4][%d] == col2[%d]' % (i, i) for i in range(4)]))

# ---- `set L begin`: the staging area is blank and has the shape of the NAMED light, whatever was staged before
#      (a replayed snapshot restores matrix lights of different shapes one after the other: C18)
for prev in (None, (2, 3), (1, 3), (3, 3), (2, 2)):
    c = contract('bardolph/vm/machine.py', 'Machine._matrix', serves=['C15', 'C18', 'C01'],
                 name='Machine._matrix[2x3 light, staged before: %s]' % (prev and '%dx%d' % prev,))
    def _setup(b, case, prev=prev):
        impl = lib.device(b, 'dev')
        light = lib.lifx_light(b, 'matrix', impl, 'L', _height=H, _width=W)
        ls = lib.light_set_with(b, {'L': light})
        m = lib.machine(b, 'RAW', ls)
        m.attrs['_reg'].attrs['name'] = 'L'
        if prev is not None:
            cmc = b.cls('bardolph.controller.color_matrix', 'ColorMatrix')
            m.attrs['_reg'].attrs['matrix'] = b.I.call(cmc.attrs['new_from_constant'], [prev[0], prev[1], PyList([1, 2, 3, 4])], {})
        return {'self': m}
    c.setup(_setup)
    c.define('M', 'self._reg.matrix')
    c.ensures('blank-and-shaped-like-the-named-light',
              'M.height == %d and M.width == %d and len(M._mat) == %d and all(len(r) == %d for r in M._mat) and all(all(x is None for x in r) for r in M._mat)' % (H, W, H, W))
    c.ensures('nothing-sent-yet', "len(ghost('Dev')) == 0")


# ---- history independence on the matrix path: cells are converted as a plain `set` converts them AT THAT COMMAND,
#      whatever an earlier block converted in other units (a conversion cached across commands keyed on the numbers alone)
from .c07_machine import color_clauses
MODES = ('LOGICAL', 'RAW', 'RGB')
for mode1 in MODES:
    for mode2 in MODES:
        if mode1 == mode2:
            continue
        n1 = ('red', 'green', 'blue', 'kelvin') if mode1 == 'RGB' else ('hue', 'saturation', 'brightness', 'kelvin')
        n2 = ('red', 'green', 'blue', 'kelvin') if mode2 == 'RGB' else ('hue', 'saturation', 'brightness', 'kelvin')
        c = contract('bardolph/vm/machine.py', 'matrix_twice', serves=['C15', 'C07', 'C14'],
                     name='lemma:set L begin stage end [%s]; units %s; registers assigned; set L begin stage end' % (mode1, mode2), src='''
def matrix_twice(self, mode2, %s):
    reg = self._reg
    reg.first_row = reg.last_row = reg.first_column = reg.last_column = None
    self._matrix()
    self._color_matrix()
    self._color_matrix_light()
    reg.unit_mode = mode2
%s
    self._matrix()
    self._color_matrix()
    self._color_matrix_light()
''' % (', '.join('n_' + n for n in n2), '\n'.join('    reg.%s = n_%s' % (n, n) for n in n2)))
        def _setup(b, case, mode1=mode1, mode2=mode2, n1=n1, n2=n2):
            impl = lib.device(b, 'dev')
            light = lib.lifx_light(b, 'matrix', impl, 'L', _height=1, _width=1)
            ls = lib.light_set_with(b, {'L': light})
            m = lib.machine(b, mode1, ls)
            reg = m.attrs['_reg']
            reg.attrs['name'] = 'L'
            reg.attrs['duration'] = 0
            reg.attrs['default'] = PyList([0, 0, 0, 0])
            top = {'LOGICAL': (359, 99, 99), 'RAW': (65534, 65534, 65534), 'RGB': (99, 99, 99)}[mode1]
            for nm, hi in zip(n1[:3], top):           # the FIRST block's colour ranges over the interior (few paths)
                reg.attrs[nm] = b.sym('real', nm)
                b.between(reg.attrs[nm], 1, hi)
            reg.attrs['kelvin'] = b.sym('real', 'kelvin')
            b.between(reg.attrs['kelvin'], 1000, 9000)
            out = {'self': m, 'mode2': b.enum('bardolph.controller.units', 'UnitMode', mode2), '_impl': impl}
            for nm in n2:
                v = b.sym('real', 'second_' + nm)
                if mode2 == 'RGB' and nm != 'kelvin':
                    b.between(v, 0, 100)
                out['n_' + nm] = v
            return out
        c.setup(_setup)
        c.bounded('1 x 1 matrix light')
        c.define('D', "ghost('Dev')[1]")
        c.ensures('two-whole-matrix-requests', "len(ghost('Dev')) == 2 and D[1] == 'set_matrix' and same(D[0], _impl) and len(D[2]) == 1")
        color_clauses(c, mode2, D='D[2][0]', R='n_%s')


# ---- `set X begin stage row 9 10 end` on an unknown or non-matrix light, whatever was staged for an earlier light: a message,
#      no exception (the stages that follow must not fall outside a matrix left over from another light) and nothing sent
for target in ('unknown', 'plain'):
  for rng, rtxt in (((9, 10, None, None), 'row 9 10'), ((None, None, 3, 4), 'column 3 4'), ((1, 1, 2, 2), 'row 1 column 2'), ((0, 200, 0, 200), 'row 0 200 column 0 200')):
    for prev in (None, (2, 3)):
        c = contract('bardolph/vm/machine.py', 'stage_on_absent_light', serves=['C15', 'C12', 'C01'],
                     name='lemma:set X begin stage %s end [%s target, staged before: %s]' % (rtxt, target, prev and '%dx%d' % prev), src='''
def stage_on_absent_light(self):
    reg = self._reg
    before = reg.matrix
    self._matrix()
    fresh = reg.matrix is not before or before is None
    reg.first_row, reg.last_row, reg.first_column, reg.last_column = %r
    self._color_matrix()
    self._color_matrix_light()
    return fresh
''' % (rng,))
        def _setup(b, case, target=target, prev=prev):
            impl = lib.device(b, 'dev')
            lights = {'P': lib.lifx_light(b, 'plain', impl, 'P')} if target == 'plain' else {}
            m = lib.machine(b, 'RAW', lib.light_set_with(b, lights))
            reg = m.attrs['_reg']
            reg.attrs['name'] = 'P' if target == 'plain' else 'nobody'
            reg.attrs['duration'] = 0
            reg.attrs['default'] = PyList([0, 0, 0, 0])
            for n in ('hue', 'saturation', 'brightness', 'kelvin'):
                reg.attrs[n] = 1
            if prev is not None:
                cmc = b.cls('bardolph.controller.color_matrix', 'ColorMatrix')
                reg.attrs['matrix'] = b.I.call(cmc.attrs['new_from_constant'], [prev[0], prev[1], PyList([1, 2, 3, 4])], {})
            return {'self': m}
        c.setup(_setup)
        c.ensures('not-the-matrix-of-an-earlier-light', 'result is True')
        c.ensures('nothing-sent', "len(ghost('Dev')) == 0")


# ---- the adapter of a real matrix light: ONE SetTileState64 message for the whole matrix, the tile described as it is
#      (the colours are laid out row by row over `width`: swapped dimensions shear the picture on any non-square light)
LL = 'bardolph/controller/lifx_lan_light.py'
c = contract(LL, 'MatrixLight.set_matrix', serves=['C15', 'C07', 'C18'], unwrap=1, name='MatrixLight.set_matrix[payload]')
def _setup(b, case):
    from pyvc.values import Opaque
    sent = b.ghost('sent', PyList())
    impl = Opaque('device', {'fire_and_forget': lambda I_, o, a, k: sent.items.append((a[0], a[1], k.get('num_repeats', 1)))})
    impl.native = {'kind': 'generic'}
    h, w = b.sym('int', 'height'), b.sym('int', 'width')
    b.between(h, 1, 16)
    b.between(w, 1, 16)
    light = lib.lifx_light(b, 'matrix', impl, 'M', _height=h, _width=w)
    colors = PyList([PyList([1, 2, 3, 4])])
    matrix = Opaque('matrix', {'get_colors': lambda I_, o, a, k: colors})
    matrix.native = {'kind': 'data', 'returns': {'get_colors': colors}}
    d = b.sym('int', 'duration')
    b.between(d, 0, 4294967295)
    return {'self': light, 'matrix': matrix, 'duration': d, '_colors': colors}
c.setup(_setup)
c.crosscheck = False        # the recording device of this contract is not one of the harness's native device stubs
c.ensures('one-message-for-the-whole-matrix', "len(ghost('sent')) == 1 and ghost('sent')[0][0] is SetTileState64")
c.ensures('transmitted-exactly-once', "ghost('sent')[0][2] == 1")      # num_repeats: how often lifxlan puts the packet on the wire
c.ensures('the-cells-as-given', "ghost('sent')[0][1]['colors'] is _colors and ghost('sent')[0][1]['duration'] == duration")
c.ensures('the-tile-as-it-is', "ghost('sent')[0][1]['width'] == self._width and ghost('sent')[0][1]['height'] == self._height "
          "and ghost('sent')[0][1]['x'] == 0 and ghost('sent')[0][1]['y'] == 0 and ghost('sent')[0][1]['tile_index'] == 0 and ghost('sent')[0][1]['length'] == 1")


# ---- ... and reading it back (the capture of C18): the whole tile is asked for, the answer is laid out over the light's own
#      height and width, row by row
c = contract(LL, 'MatrixLight.get_matrix', serves=['C18', 'C15'], unwrap=1, name='MatrixLight.get_matrix[2x3 light]')
def _setup(b, case):
    from pyvc.values import Opaque
    asked = b.ghost('asked', PyList())
    cells = [PyList([b.sym('int', 'c%d_%d' % (i, j)) for j in range(4)]) for i in range(6)]
    def req(I_, o, a, k):
        asked.items.append((a[0], a[1], a[2]))
        return Opaque('answer', attrs={'colors': PyList(list(cells))})
    impl = Opaque('device', {'req_with_resp': req})
    impl.native = {'kind': 'generic'}
    light = lib.lifx_light(b, 'matrix', impl, 'M', _height=2, _width=3)
    return {'self': light, '_cells': PyList(list(cells))}
c.setup(_setup)
c.crosscheck = False        # (as above)
c.bounded('a 2 x 3 light')
c.ensures('one-request-for-the-whole-tile', "len(ghost('asked')) == 1 and ghost('asked')[0][0] is GetTileState64 and ghost('asked')[0][1] is StateTileState64 "
          "and ghost('asked')[0][2]['width'] == 3 and ghost('asked')[0][2]['height'] == 2 and ghost('asked')[0][2]['x'] == 0 and ghost('asked')[0][2]['y'] == 0 "
          "and ghost('asked')[0][2]['tile_index'] == 0 and ghost('asked')[0][2]['length'] == 1")
c.ensures('cells-row-by-row', "result.height == 2 and result.width == 3 and all(result.matrix[r][col] == _cells[r * 3 + col] for r in range(2) for col in range(3))")


# ---- the size of a real matrix light is what ITS tile of the device chain reports (the tile at start_index)
c = contract(LL, 'MatrixLight._get_size', serves=['C15', 'C18'], unwrap=1, name='MatrixLight._get_size[chain of 3 tiles]')
def _setup(b, case):
    from pyvc.values import Opaque
    asked = b.ghost('asked', PyList())
    tiles = [PyDict({'width': b.sym('int', 'w%d' % i), 'height': b.sym('int', 'h%d' % i)}) for i in range(3)]
    idx = case['start']
    def req(I_, o, a, k):
        asked.items.append((a[0], a[1]))
        return Opaque('chain', attrs={'tile_devices': PyList(list(tiles)), 'start_index': idx})
    impl = Opaque('device', {'req_with_resp': req})
    impl.native = {'kind': 'generic'}
    light = lib.lifx_light(b, 'matrix', impl, 'M', _height=None, _width=None)
    return {'self': light, '_w': tiles[idx].d['width'], '_h': tiles[idx].d['height']}
c.setup(_setup)
c.crosscheck = False        # the answering device of this contract is not one of the harness's native device stubs
c.cases([{'start': 0}, {'start': 1}, {'start': 2}])
c.bounded('a chain of three tiles')
c.ensures('asks-for-the-device-chain-once', "len(ghost('asked')) == 1 and ghost('asked')[0][0] is GetDeviceChain and ghost('asked')[0][1] is StateDeviceChain")
c.ensures('takes-the-size-of-its-own-tile', 'self._width == _w and self._height == _h')
