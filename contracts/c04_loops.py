"""C04: every repeat form runs the documented number of times with the documented values.

Template lemmas (see vmlib.py): for each loop form the real parser's code for a template script is run on the
real VM handlers symbolically.  Prologue lemmas: after the code before the loop top, COUNTER / INCR / the index
variable hold the documented values.  Step lemmas (induction): from the loop top with COUNTER = c > 0 and index
variable v, one pass executes the body exactly once and returns to the top with COUNTER = c - 1, v + INCR;
with c <= 0 control leaves through END_LOOP with the loop frame popped.  `while` re-tests before every pass.
Arithmetic in exact reals (float accumulation error of v += INCR is an assumption).
"""
import z3
from pyvc import spec
from pyvc.spec import contract
from pyvc.values import PyList, Builtin
from pyvc.ops import mk, to_term
from . import lib, vmlib

M = 'bardolph/vm/machine.py'


def lv(I, m, name):
    LV = I.load_module('bardolph.vm.vm_codes').ns['LoopVar']
    top = m.attrs['_call_stack'].attrs['_top']
    return top.attrs.get('_loop_var').d.get(LV.members[name]) if '_loop_var' in top.attrs else None


def install(I):
    F = I.spec_fns
    F['loopvar'] = Builtin('spec.loopvar', lambda I_, a, k: lv(I_, a[0], a[1]))
    F['var'] = Builtin('spec.var', lambda I_, a, k: I_.call(I_.getattr_(a[0].attrs['_call_stack'], 'get_variable'), [a[1]], {}))
    F['in_loop_frame'] = Builtin('spec.in_loop_frame', lambda I_, a, k: a[0].attrs['_call_stack'].attrs['_top'].cls.name == 'LoopFrame')
    F['stack_depth'] = Builtin('spec.stack_depth', lambda I_, a, k: len(I_.getattr_(a[0].attrs['_vm_math'].attrs['_eval_stack'], '_stack').items))
    F['waits'] = Builtin('spec.waits', lambda I_, a, k: sum(1 for x in I_.ghost['Clk'].items if x[0] == 'pause_for'))


spec.EXTRA_INSTALLERS.append(install)


def lemma(name, text, setup, stop, ensures, requires=(), serves=('C04', 'C01'), max_steps=60, mode='LOGICAL', bounded=None):
    c = contract(M, 'run_until', serves=list(serves), src=vmlib.DRIVER, name='lemma:' + name)
    def _setup(b, case):
        m, prog = vmlib.machine_with_program(b, text, mode=mode)
        m.attrs['_reg'].attrs['time'] = 1          # the body is `wait`: one clock request per pass
        extra = setup(b, m, prog) or {}
        stops = stop(prog) if callable(stop) else stop
        d = {'self': m, 'stop_pcs': tuple(stops), 'max_steps': max_steps}
        d.update(extra)
        return d
    c.setup(_setup)
    for rid, r in requires:
        c.requires(rid, r)
    c.ensures('reaches-the-next-cut-point', 'result > 0')
    prog0 = vmlib.compile_scripts([text])[0]['program']
    for eid, e in ensures:
        c.ensures(eid, e.replace('%TOP%', str(loop_top(prog0))).replace('%END%', str(after_end_loop(prog0))))
    if bounded:
        c.bounded(bounded)
    return c


def loop_top(prog):
    """index of the loop test: target of the back jump (the last JUMP ALWAYS with a negative offset)"""
    for i in reversed(range(len(prog))):
        o, a, b_ = prog[i]
        if o.get('n') == 'JUMP' and a.get('n') == 'ALWAYS' and isinstance(b_.get('v'), int) and b_['v'] < 0:
            return i + b_['v']
    raise RuntimeError('no back jump')


def after_end_loop(prog):
    return vmlib.find(prog, 'END_LOOP') + 1


# ---- repeat n
T1 = 'assign n 0 repeat n wait'
def s_entry(b, m, prog):
    vmlib.setvar(m, 'n', b.sym('int', 'n'))
    m.attrs['_reg'].attrs['pc'] = vmlib.find(prog, 'LOOP')
lemma('repeat n: prologue', T1, s_entry, lambda p: [loop_top(p)],
      [('count-evaluated-once', "loopvar(self, 'COUNTER') == var(self, 'n') and in_loop_frame(self) and waits() == 0")])

def s_top(b, m, prog):
    vmlib.setvar(m, 'n', b.sym('int', 'n'))
    c0 = b.sym('int', 'counter')
    vmlib.loop_frame(b, m, COUNTER=c0)
    m.attrs['_reg'].attrs['pc'] = loop_top(prog)
    return {'_c': c0}
lemma('repeat n: one pass', T1, s_top, lambda p: [loop_top(p), after_end_loop(p)],
      [('body-once-and-counter-decremented', "_c > 0 ==> self._reg.pc == %TOP% and loopvar(self, 'COUNTER') == _c - 1 and waits() == 1 and in_loop_frame(self)"),
       ('leaves-when-the-count-is-used-up', "_c <= 0 ==> self._reg.pc == %END% and waits() == 0 and not in_loop_frame(self)"),
       ('operand-stack-balanced', 'stack_depth(self) == 0')])


def start_at_loop(bld, m, prog, **vars_):
    for k, v in vars_.items():
        vmlib.setvar(m, k, v)
    m.attrs['_reg'].attrs['pc'] = vmlib.find(prog, 'LOOP')


def at_top(bld, m, prog, loopvars, vars_=None):
    for k, v in (vars_ or {}).items():
        vmlib.setvar(m, k, v)
    vmlib.loop_frame(bld, m, **loopvars)
    m.attrs['_reg'].attrs['pc'] = loop_top(prog)


STEP_COMMON = [('operand-stack-balanced', 'stack_depth(self) == 0')]

# ---- repeat with v from a to b
T2 = 'assign a 0 assign b 0 repeat with v from a to b wait'
def s(b, m, prog):
    a_, b_ = b.sym('int', 'a'), b.sym('int', 'b')
    start_at_loop(b, m, prog, a=a_, b=b_)
    return {'_a': a_, '_b': b_}
lemma('repeat with v from a to b: prologue', T2, s, lambda p: [loop_top(p)],
      [('count-is-the-number-of-integers-from-a-to-b', "loopvar(self, 'COUNTER') == abs(_b - _a) + 1"),
       ('step-is-one-towards-b', "(_b >= _a ==> loopvar(self, 'INCR') == 1) and (_b < _a ==> loopvar(self, 'INCR') == -1)"),
       ('starts-at-a', "var(self, 'v') == _a"), ('no-pass-yet', 'waits() == 0')] + STEP_COMMON)
def s(b, m, prog):
    c0, inc, v0 = b.sym('int', 'counter'), b.sym('int', 'incr'), b.sym('int', 'v')
    at_top(b, m, prog, {'COUNTER': c0, 'INCR': inc}, {'v': v0, 'a': 0, 'b': 0})
    return {'_c': c0, '_inc': inc, '_v': v0}
lemma('repeat with v from a to b: one pass', T2, s, lambda p: [loop_top(p), after_end_loop(p)],
      [('body-once-then-next-value', "_c > 0 ==> self._reg.pc == %TOP% and loopvar(self, 'COUNTER') == _c - 1 and var(self, 'v') == _v + _inc and waits() == 1"),
       ('leaves-when-done', "_c <= 0 ==> self._reg.pc == %END% and waits() == 0 and not in_loop_frame(self) and var(self, 'v') == _v")] + STEP_COMMON)

# ---- repeat n with v from a to b  (n evenly spaced values including both ends)
T3 = 'assign n 0 assign a 0 assign b 0 repeat n with v from a to b wait'
for kind in ('int', 'real'):
    def s(b, m, prog, kind=kind):
        n_, a_, b_ = b.sym('int', 'n'), b.sym(kind, 'a'), b.sym(kind, 'b')
        start_at_loop(b, m, prog, n=n_, a=a_, b=b_)
        return {'_n': n_, '_a': a_, '_b': b_}
    lemma('repeat n with v from a to b: prologue [%s bounds]' % kind, T3, s, lambda p: [loop_top(p)],
          [('count-is-n', "loopvar(self, 'COUNTER') == _n"),
           ('evenly-spaced-including-both-ends', "(_n != 1 ==> loopvar(self, 'INCR') * (_n - 1) == _b - _a) and (_n == 1 ==> loopvar(self, 'INCR') == 0)"),
           ('starts-at-a', "var(self, 'v') == _a")] + STEP_COMMON)

# ---- repeat n with v cycle [s]
for mode, full in (('LOGICAL', 360), ('RGB', 360), ('RAW', 65536)):
    for start in (False, True):
        T4 = 'assign n 0 assign s 0 repeat n with v cycle%s wait' % (' s' if start else '')
        def s(b, m, prog, start=start):
            n_, s_ = b.sym('int', 'n'), b.sym('real', 's')
            start_at_loop(b, m, prog, n=n_, s=s_)
            return {'_n': n_, '_s': s_}
        lemma('repeat n with v cycle%s: prologue [%s]' % (' s' if start else '', mode), T4, s, lambda p: [loop_top(p)],
              [('count-is-n', "loopvar(self, 'COUNTER') == _n"),
               ('step-is-a-full-turn-over-n', "loopvar(self, 'INCR') * _n == %d" % full),
               ('starts-at-s-or-0', "var(self, 'v') == %s" % ('_s' if start else '0'))] + STEP_COMMON,
              requires=[('at-least-one-pass', 'self._call_stack.get_variable("n") > 0')], mode=mode)
def s(b, m, prog):
    start_at_loop(b, m, prog, n=0, s=b.sym('real', 's'))
lemma('repeat 0 with v cycle: no fault, no pass', 'assign n 0 assign s 0 repeat n with v cycle wait', s, lambda p: [after_end_loop(p)],
      [('leaves-at-once', 'self._reg.pc == %END% and waits() == 0 and not in_loop_frame(self)')] + STEP_COMMON)

# ---- repeat while c: the condition is re-tested before every pass
T5 = 'assign x 0 repeat while {x < 5} wait'
def s(b, m, prog):
    x_ = b.sym('real', 'x')
    at_top(b, m, prog, {}, {'x': x_})
    return {'_x': x_}
lemma('repeat while c: one pass', T5, s, lambda p: [loop_top(p), after_end_loop(p)],
      [('pass-iff-condition-holds-now', "(_x < 5 ==> self._reg.pc == %TOP% and waits() == 1) and (not (_x < 5) ==> self._reg.pc == %END% and waits() == 0 and not in_loop_frame(self))")] + STEP_COMMON)


# ---- iteration forms on concrete populations (bounded): every name once, in name order within each source,
# sources in the order written; an accompanying range is spread evenly; break leaves only the innermost loop
def population(b, names, groups=None, locations=None):
    lights, devs = {}, {}
    for n in names:
        d = lib.device(b, 'dev_' + n)
        lights[n] = lib.lifx_light(b, 'plain', d, n)
        devs[n] = d
    return lights, devs


def iter_lemma(name, text, names, groups, locations, expect, extra=(), max_steps=900):
    c = contract(M, 'run_until', serves=['C04', 'C01'], src=vmlib.DRIVER, name='lemma:' + name)
    def _setup(b, case):
        lights, devs = population(b, names)
        res = vmlib.compile_scripts([text])[0]
        if not res['ok']:
            raise RuntimeError('template rejected: ' + res['errors'])
        ls = lib.light_set_with(b, lights, groups=groups, locations=locations)
        m = lib.machine(b, 'LOGICAL', ls)
        m.attrs['_program'] = vmlib.rebuild(b, res['program'])
        m.attrs['_reg'].attrs['pc'] = 0
        return {'self': m, 'stop_pcs': (len(res['program']),), 'max_steps': max_steps, '_devs': PyList([devs[n] for n in names])}
    c.setup(_setup)
    c.bounded('population %s, groups %s, locations %s' % (list(names), groups, locations))
    c.ensures('runs-to-the-end', 'result > 0 and self._reg.pc == len(self._program)')
    seq = ' and '.join("same(ghost('Dev')[%d][0], _devs[%d])" % (i, names.index(n)) for i, n in enumerate(expect))
    c.ensures('each-name-once-in-the-documented-order', "len(ghost('Dev')) == %d%s" % (len(expect), (' and ' + seq) if expect else ''))
    c.ensures('frames-and-operand-stack-balanced', 'stack_depth(self) == 0 and not in_loop_frame(self)')
    for eid, e in extra:
        c.ensures(eid, e)
    return c


G = {'G': ['a', 'c'], 'H': ['b']}
Lc = {'L': ['b', 'c'], 'K': ['a']}
iter_lemma('repeat all as x (3 lights)', 'repeat all as x on x', ['a', 'b', 'c'], G, Lc, ['a', 'b', 'c'])
iter_lemma('repeat all as x (no lights)', 'repeat all as x on x', [], {}, {}, [])
iter_lemma('repeat all as x (1 light)', 'repeat all as x on x', ['a'], {'G': ['a']}, {'L': ['a']}, ['a'])
iter_lemma('repeat group as g', 'repeat group as g on group g', ['a', 'b', 'c'], G, Lc, ['a', 'c', 'b'])
iter_lemma('repeat location as l', 'repeat location as l on location l', ['a', 'b', 'c'], G, Lc, ['a', 'b', 'c'])
iter_lemma('repeat in light and group and light', 'repeat in "c" and group "G" and "b" as x on x', ['a', 'b', 'c'], G, Lc, ['c', 'a', 'c', 'b'])
iter_lemma('repeat in location and light', 'repeat in location "L" and "a" as x on x', ['a', 'b', 'c'], G, Lc, ['b', 'c', 'a'])
iter_lemma('repeat all with range spread over the lights', 'repeat all as x with v from 0 to 100 begin brightness v set x end', ['a', 'b', 'c'], G, Lc, ['a', 'b', 'c'],
           extra=[('evenly-spaced-including-both-ends', "ghost('Dev')[0][2][2] == 0 and ghost('Dev')[1][2][2] == sent_pct(50) and ghost('Dev')[2][2][2] == 65535")])
iter_lemma('break leaves only the innermost loop (iteration loops)',
           'repeat in "a" and "b" as x begin repeat in "c" and "a" as y begin break end on x end', ['a', 'b', 'c'], G, Lc, ['a', 'b'])
iter_lemma('break leaves only the innermost loop (counted in iteration)',
           'repeat in "a" and "b" as x begin repeat 5 begin break end on x end', ['a', 'b', 'c'], G, Lc, ['a', 'b'])
iter_lemma('break leaves only the innermost loop (iteration in counted)',
           'repeat 2 begin repeat in "a" and "b" and "c" as y begin on y break end end', ['a', 'b', 'c'], G, Lc, ['a', 'a'])
