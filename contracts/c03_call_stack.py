"""C03: parameters are by-value locals hiding globals; return works from any depth.

Per-operation contracts on bardolph/vm/call_stack.py are stated on the frame at the top of the stack and
its parent link only (so they hold for stacks of any depth); the scoping statements of the property are
lemmas that drive the real CallStack / Machine through the calling sequence (CTX, PARAM, JSR, LOOP,
assignment, RETURN) on symbolic names and values, for 0..2 loop frames between the call and the assignment
(bounded in nesting depth only where a lemma traverses the chain).
"""
import z3
from pyvc.spec import contract
from pyvc.values import PyObj, PyDict, PyList
from . import lib

CS = 'bardolph/vm/call_stack.py'


def names(b, *ns):
    """distinct symbolic names"""
    vs = [b.sym('str', n) for n in ns]
    for i in range(len(vs)):
        for j in range(i + 1, len(vs)):
            if hasattr(vs[i], 't'):
                b.assume(vs[i].t != vs[j].t)
    return vs


# ---- StackFrame.get_variable: constants, then the frame's variables, then globals; a parameter set that is
# not (yet) the frame's variable set -- a call under construction -- is invisible
# a variable or parameter that holds NOTHING (the argument was a call that returned without a value) is still the variable found:
# it hides a global of the same name
c = contract(CS, 'StackFrame.get_variable', serves=['C03', 'C01'], name='StackFrame.get_variable[a variable holding nothing hides the global]')
def _setup(b, case):
    g = b.sym('int', 'global_value')
    fr = PyObj(b.cls('bardolph.vm.call_stack', 'StackFrame'), {
        'constants': PyDict(), 'vars': PyDict({'x': None}), 'params': PyDict({'x': None}) if case['param'] else PyDict(),
        'globals': PyDict({'x': g}), 'parent': None, 'return_addr': None})
    return {'self': fr, 'identifier': 'x'}
c.setup(_setup)
c.cases([{'param': 0}, {'param': 1}])
c.ensures('nothing-not-the-global', 'result is None')

c = contract(CS, 'StackFrame.get_variable', serves=['C03'])
def _setup(b, case):
    x, y = names(b, 'x', 'y')
    vals = [b.sym('int', 'v%d' % i) for i in range(5)]
    def d(present, v):
        return PyDict({x: v} if present else {y: vals[4]})
    vars_ = d(case['vars'], vals[1])
    fr = PyObj(b.cls('bardolph.vm.call_stack', 'StackFrame'), {
        'constants': d(case['const'], vals[0]), 'vars': vars_,
        'params': vars_ if case['entered'] else d(case['params'], vals[2]),
        'globals': d(case['globals'], vals[3]), 'parent': None, 'return_addr': None})
    return {'self': fr, 'identifier': x, '_v': PyList(vals)}
c.setup(_setup)
c.cases([{'const': a, 'vars': v, 'params': p, 'globals': g, 'entered': e}
         for a in (0, 1) for v in (0, 1) for p in (0, 1) for g in (0, 1) for e in (0, 1) if not (e and p != v)])
c.ensures('constant-first', 'identifier in self.constants ==> result == _v[0]')
c.ensures('then-own-variables', 'identifier not in self.constants and identifier in self.vars ==> result == _v[1]')
c.ensures('then-globals-never-a-half-built-parameter-set',
          'identifier not in self.constants and identifier not in self.vars and identifier in self.globals ==> result == _v[3]')
c.ensures('else-none', 'identifier not in self.constants and identifier not in self.vars and identifier not in self.globals ==> result is None')

# ---- frames
c = contract(CS, 'CallStack.new_frame', serves=['C03'])
def _cs(b, case=None):
    S = b.new(('bardolph.vm.call_stack', 'CallStack'), PyDict())
    return S
def _setup(b, case):
    return {'self': _cs(b)}
c.setup(_setup)
c.ensures('pushes-a-call-frame-sharing-the-callers-view',
          'self._top.parent is old(self._top) and self._top.vars is old(self._top).vars and self._top.globals is old(self._top).globals '
          'and self._top.constants is old(self._top).constants and len(self._top.params) == 0 and self._top.params is not self._top.vars and result is self._top')

c = contract(CS, 'CallStack.enter_loop', serves=['C03', 'C04', 'C05'])
c.setup(_setup)
c.ensures('loop-frame-shares-the-calls-variables-and-parameters',
          "typename(self._top) == 'LoopFrame' and self._top.parent is old(self._top) and self._top.vars is old(self._top).vars "
          "and self._top.params is old(self._top).params and self._top.globals is old(self._top).globals and self._top.constants is old(self._top).constants")

c = contract(CS, 'CallStack.enter_routine', serves=['C03'])
def _setup2(b, case):
    S = _cs(b)
    b.I.call(b.I.getattr_(S, 'new_frame'), [], {})
    p, = names(b, 'p')
    b.I.call(b.I.getattr_(S, 'put_param'), [p, b.sym('int', 'pv')], {})
    return {'self': S, '_p': p}
c.setup(_setup2)
c.ensures('only-the-parameters-are-the-new-locals', 'self._top.vars is self._top.params and self._top is old(self._top) and self._top.globals is old(self._top.globals)')

# ---- put_variable on the top frame
c = contract(CS, 'CallStack.put_variable', serves=['C03'])
def _setup(b, case):
    S = _cs(b)
    x, y = names(b, 'x', 'y')
    g0, p0, v = b.sym('int', 'g0'), b.sym('int', 'p0'), b.sym('int', 'v')
    I = b.I
    root = S.attrs['_top']
    if case['global']:
        root.attrs['vars'].d[x] = g0
    root.attrs['vars'].d[y] = 0
    if case['call']:
        I.call(I.getattr_(S, 'new_frame'), [], {})
        if case['param']:
            I.call(I.getattr_(S, 'put_param'), [x, p0], {})
        I.call(I.getattr_(S, 'enter_routine'), [], {})
    callframe = S.attrs['_top']
    for _ in range(case['loops']):
        I.call(I.getattr_(S, 'enter_loop'), [], {})
    return {'self': S, 'index': x, 'value': v, '_root': root, '_call': callframe, '_g0': g0, '_p0': p0}
c.setup(_setup)
c.cases([{'global': g, 'call': ca, 'param': p, 'loops': l} for g in (0, 1) for ca in (0, 1) for p in (0, 1) for l in (0, 1, 2)
         if not (p and not ca)])
c.ensures('parameter-is-updated-whatever-loops-lie-above', 'index in _call.params and _call is not _root ==> _call.params[index] == value')
c.ensures('parameter-hides-the-global', 'index in old(_call.params) and _call is not _root and index in old(_root.vars) ==> _root.vars[index] == _g0')
c.ensures('global-is-updated-when-not-hidden', '(index not in old(_call.params) or _call is _root) and index in old(_root.vars) ==> _root.vars[index] == value')
c.ensures('otherwise-a-local-of-this-call', 'index not in old(_call.params) and index not in old(_root.vars) ==> _call.vars[index] == value and (_call is _root or index not in _root.vars)')
c.ensures('readable-afterwards', 'self.get_variable(index) == value')

# ---- leaving
c = contract(CS, 'CallStack.unwind_loops', serves=['C03', 'C04', 'C05', 'C06'])
def _setup(b, case):
    S = _cs(b)
    I = b.I
    I.call(I.getattr_(S, 'new_frame'), [], {})
    I.call(I.getattr_(S, 'enter_routine'), [], {})
    callframe = S.attrs['_top']
    for _ in range(case['loops']):
        I.call(I.getattr_(S, 'enter_loop'), [], {})
    return {'self': S, '_call': callframe}
c.setup(_setup)
c.cases([{'loops': l} for l in (0, 1, 2, 3)])
c.bounded('0..3 loop frames above the call frame')
c.ensures('pops-exactly-the-loop-frames-of-this-call', 'self._top is _call')

c = contract(CS, 'CallStack.exit_routine', serves=['C03', 'C05'])
c.setup(_setup)
c.cases([{'loops': 0}])
c.ensures('back-in-the-caller', 'self._top is old(self._top).parent')

c = contract(CS, 'CallStack.exit_loop', serves=['C03', 'C04', 'C05'])
c.setup(_setup)
c.cases([{'loops': 1}, {'loops': 2}])
c.ensures('pops-one', 'self._top is old(self._top).parent')

# ---- lemma: calling sequence end to end on the real Machine handlers
SRC = '''
def call_and_return(self, f, p, q, g, gv, a1, a2, newval, loops):
    """assign g gv | define f with p q ... | f a1 <g-or-a2> ; inside: repeat^loops { assign p newval ; return p }"""
    from bardolph.vm.instruction import Instruction
    from bardolph.controller.routine import Routine
    rtn = Routine(f, 100)
    self._routines[f] = rtn
    cs = self._call_stack
    cs.put_variable(g, gv)                      # a global
    self._program = [Instruction(OpCode.CTX), Instruction(OpCode.PARAM, p, Register.RESULT),
                     Instruction(OpCode.PARAM, q, Register.RESULT), Instruction(OpCode.JSR, f),
                     Instruction(OpCode.END_CTX), Instruction(OpCode.RETURN)]
    self._reg.pc = 0
    self._ctx()
    self._reg.result = a1
    self._reg.pc = 1
    self._param()
    # the second argument is the value phrase `g`, evaluated between CTX and JSR: must see the caller's g,
    # also when it is written in braces ({g}: PUSH g; POP result goes through VmMath.push)
    seen_g = cs.get_variable(g)
    self._vm_math.push(g)
    pushed_g = self._vm_math._eval_stack.pop()
    self._reg.result = a2
    self._reg.pc = 2
    self._param()
    self._reg.pc = 3
    self._jsr()
    entered_at = self._reg.pc
    inside_p, inside_q = cs.get_variable(p), cs.get_variable(q)
    for _ in range(loops):
        self._loop()
    cs.put_variable(p, newval)                  # assign to the parameter inside the loops
    inside_p2 = cs.get_variable(p)
    self._reg.result = inside_p2
    self._reg.pc = 5
    self._return()                              # return from inside the loops
    return (seen_g, entered_at, inside_p, inside_q, inside_p2, self._reg.pc, cs.get_variable(g), cs.get_variable(p),
            cs.get_variable(q), self._reg.result, pushed_g)
'''
for same_name in (0, 1):
    for loops in (0, 1, 2):
        c = contract('bardolph/vm/machine.py', 'call_and_return', serves=['C03', 'C01', 'C04', 'C05', 'C06'], src=SRC,
                     name='lemma:call-sequence[param %s global, %d loops]' % ('hides' if same_name else 'differs from', loops))
        def _setup(b, case, same_name=same_name, loops=loops):
            m = lib.machine(b, 'LOGICAL', lib.light_set_with(b, {}))
            f, p, q, g = names(b, 'f', 'p', 'q', 'g')
            if same_name:
                g = p
            vals = {n: b.sym('int', n) for n in ('gv', 'a1', 'a2', 'newval')}
            return {'self': m, 'f': f, 'p': p, 'q': q, 'g': g, 'gv': vals['gv'], 'a1': vals['a1'], 'a2': vals['a2'],
                    'newval': vals['newval'], 'loops': loops}
        c.setup(_setup)
        c.bounded('%d loop frames between call and return' % loops)
        c.ensures('arguments-evaluated-in-the-callers-scope', 'result[0] == gv and result[10] == gv')
        c.ensures('body-entered-at-the-routine', 'result[1] == 100')
        c.ensures('parameters-bound-by-value', 'result[2] == a1 and result[3] == a2')
        c.ensures('parameter-assignment-inside-loops-is-seen', 'result[4] == newval')
        c.ensures('resumes-directly-after-the-call', 'result[5] == 4')
        c.ensures('global-never-changed-by-parameter-assignment', 'result[6] == gv')
        c.ensures('parameters-gone-afterwards', 'result[8] is None' + ('' if same_name else ' and result[7] is None'))
        c.ensures('delivers-the-value', 'result[9] == newval')


# ---- a parameter hides everything of the same name, also a macro that was DEFINED (at run time) after the routine was
#      compiled: what `define` stores must never shadow the parameters and locals of a call
c = contract('bardolph/vm/machine.py', 'define_then_call', serves=['C03', 'C01'], name='lemma:define N v; call with parameter N', src='''
def define_then_call(m, name, macro_value, arg, local_value):
    from bardolph.vm.instruction import Instruction
    m._program = [Instruction(OpCode.CONSTANT, name, macro_value)]
    m._reg.pc = 0
    m._constant()
    cs = m._call_stack
    cs.new_frame()
    cs.put_param(name, arg)
    cs.enter_routine()
    seen = cs.get_variable(name)
    cs.put_variable(name, local_value)
    return (seen, cs.get_variable(name))
''')
def _setup(b, case):
    m = lib.machine(b, 'LOGICAL', lib.light_set_with(b, {}))
    return {'m': m, 'name': b.sym('atom', 'name'), 'macro_value': b.sym('int', 'macro_value'), 'arg': b.sym('int', 'arg'),
            'local_value': b.sym('int', 'local_value')}
c.setup(_setup)
c.ensures('the-body-sees-its-parameter', 'result[0] == arg and result[1] == local_value')

# ---- a named printf field shows the parameter's value, also when that value is 0 / empty / false
c = contract('bardolph/vm/vm_io.py', 'printf_named_parameter', serves=['C03', 'C19'], name='lemma:printf "{p}" inside a call whose parameter p hides a global', src='''
def printf_named_parameter(m, out, name, global_value, arg):
    from bardolph.vm.instruction import Instruction
    from bardolph.vm.vm_codes import OpCode
    cs = m._call_stack
    cs.put_variable(name, global_value)
    cs.new_frame()
    cs.put_param(name, arg)
    cs.enter_routine()
    fmt = '{' + name + '}'
    VmIo._printf.__wrapped__(m._vm_io, Instruction(OpCode.OUT, IoOp.PRINTF, fmt), out)
''')
def _setup(b, case):
    from pyvc.values import Opaque, PyList
    m = lib.machine(b, 'LOGICAL', lib.light_set_with(b, {}))
    calls = b.ghost('Calls', PyList())
    out = Opaque('output', {'out': lambda I_, o, a, k: calls.items.append((o, 'out', tuple(a)))})
    out.native = {'kind': 'generic'}
    return {'m': m, 'out': out, 'name': 'level', 'global_value': b.sym('int', 'global_value'), 'arg': b.sym('int', 'arg')}
c.setup(_setup)
c.ensures('the-parameter-not-the-hidden-global', "len(ghost('Calls')) == 1 and ghost('Calls')[0][2][0] == '{level}'.format(level=arg)")


# ---- calls compose: a pending operand of the caller's expression survives the call; a call made and finished INSIDE the
#      callee's loops does not disturb the callee's own return; a later call from the same frame starts from a clean
#      frame (nothing of an earlier callee's parameters is left to capture an assignment)
SRC_NEST = '''
def nested_calls(self, f, h, p, g, gv, a1, pending, newg, loops):
    from bardolph.vm.instruction import Instruction
    from bardolph.controller.routine import Routine
    self._routines[f] = Routine(f, 100)
    self._routines[h] = Routine(h, 200)
    cs = self._call_stack
    stack = self._vm_math._eval_stack
    cs.put_variable(g, gv)                      # a global named like f's parameter when g is p
    stack.push(pending)                         # {pending + [f a1]}: the left operand waits on the operand stack
    depth = len(stack._stack)
    self._program = [Instruction(OpCode.CTX), Instruction(OpCode.PARAM, p, Register.RESULT), Instruction(OpCode.JSR, f),
                     Instruction(OpCode.END_CTX),
                     Instruction(OpCode.CTX), Instruction(OpCode.JSR, h), Instruction(OpCode.END_CTX), Instruction(OpCode.RETURN)]
    self._reg.pc = 0
    self._ctx()
    self._reg.result = a1
    self._reg.pc = 1
    self._param()
    self._reg.pc = 2
    self._jsr()                                 # in f
    for _ in range(loops):
        self._loop()
    self._reg.pc = 4                            # f's body calls h (no parameters) from inside its loops ...
    self._ctx()
    self._reg.pc = 5
    self._jsr()
    in_h = self._reg.pc
    self._reg.pc = 7
    self._return()                              # ... and h returns into f's loop body
    back_in_f = self._reg.pc
    p_in_f = cs.get_variable(p)
    self._reg.pc = 7
    self._return()                              # f returns from inside its loops
    after_f = self._reg.pc
    kept = len(stack._stack) == depth and stack.top is pending
    self._reg.pc = 4                            # a second call from the same frame: h assigns the global g
    self._ctx()
    self._reg.pc = 5
    self._jsr()
    cs.put_variable(g, newg)
    self._reg.pc = 7
    self._return()
    return (in_h, back_in_f, p_in_f, after_f, kept, self._reg.pc, cs.get_variable(g))
'''
for same_name in (0, 1):
    for loops in (0, 1, 2):
        c = contract('bardolph/vm/machine.py', 'nested_calls', serves=['C03', 'C01', 'C02', 'C05'], src=SRC_NEST,
                     name='lemma:pending operand; f calls h inside %d loops and returns; h again [param %s global]' % (loops, 'hides' if same_name else 'differs from'))
        def _setup(b, case, same_name=same_name, loops=loops):
            m = lib.machine(b, 'LOGICAL', lib.light_set_with(b, {}))
            f, h, p, g = names(b, 'f', 'h', 'p', 'g')
            if same_name:
                g = p
            v = {n: b.sym('int', n) for n in ('gv', 'a1', 'pending', 'newg')}
            return {'self': m, 'f': f, 'h': h, 'p': p, 'g': g, 'gv': v['gv'], 'a1': v['a1'], 'pending': v['pending'], 'newg': v['newg'], 'loops': loops}
        c.setup(_setup)
        c.bounded('%d loop frames' % loops)
        c.ensures('inner-call-enters-h-and-comes-back-into-f', 'result[0] == 200 and result[1] == 6 and result[2] == a1')
        c.ensures('f-returns-to-its-own-caller', 'result[3] == 3')
        c.ensures('the-pending-operand-is-still-on-top', 'result[4] is True')
        c.ensures('second-call-returns-and-its-assignment-reaches-the-global', 'result[5] == 6 and result[6] == newg')
