"""End-to-end clauses of C07 (and the Dev clauses of C01) on the real VM handlers:
what reaches the lifxlan device for every command kind, in every unit mode.

Each handler runs with a real Machine (real constructor), real Registers, a real
lifx_lan_light wrapper (with its real @tries decorator) around an assumed device stub; the
stub's argument-range preconditions are obligations ("device.*"), and the post-conditions
compare the recorded request with the formulas of the property statement.
"""
from pyvc.spec import contract
from pyvc.values import PyList, PyDict
from . import lib

M = 'bardolph/vm/machine.py'
MODES = ('LOGICAL', 'RAW', 'RGB')
KINDS = ('real', 'int')


def color_clauses(c, mode, D='D[2]', R='old(self._reg.%s)'):
    """clauses for the colour list `D` that was sent, given the pre-state registers."""
    if mode == 'LOGICAL':
        c.ensures('hue', 'hue_same(%s[0], sent_hue(%s))' % (D, R % 'hue'))
        c.ensures('saturation', '%s[1] == sent_pct(%s)' % (D, R % 'saturation'))
        c.ensures('brightness', '%s[2] == sent_pct(%s)' % (D, R % 'brightness'))
        c.ensures('kelvin', '%s[3] == sent_u16(%s)' % (D, R % 'kelvin'))
    elif mode == 'RAW':
        for i, n in enumerate(('hue', 'saturation', 'brightness', 'kelvin')):
            c.ensures(n, '%s[%d] == sent_u16(%s)' % (D, i, R % n))
    else:
        rgb = ', '.join('%s / 100' % (R % n) for n in ('red', 'green', 'blue'))
        c.ensures('hue', '%s[0] == sent_frac(hsv_h(%s))' % (D, rgb))
        c.ensures('saturation', '%s[1] == sent_frac(hsv_s(%s))' % (D, rgb))
        c.ensures('brightness', '%s[2] == sent_frac(hsv_v(%s))' % (D, rgb))
        c.ensures('kelvin', '%s[3] == sent_u16(round_he(%s))' % (D, R % 'kelvin'))


def duration_clause(c, mode, D='D[3]', R='old(self._reg.%s)'):
    if mode == 'RAW':
        c.ensures('duration', '%s == sent_u32(%s)' % (D, R % 'duration'))
    else:
        c.ensures('duration', '%s == sent_ms(%s)' % (D, R % 'duration'))


def regs(b, m, mode, kind):
    names = ('red', 'green', 'blue', 'kelvin', 'duration') if mode == 'RGB' else \
        ('hue', 'saturation', 'brightness', 'kelvin', 'duration')
    reg = lib.sym_regs(b, m, kind, names)
    if mode == 'RGB':
        for n in ('red', 'green', 'blue'):
            b.between(reg.attrs[n], 0, 100)
    return reg


def handler(name, mode, kind, setup, serves=('C07', 'C01')):
    c = contract(M, 'Machine.' + name, serves=list(serves), name='Machine.%s[%s,%s]' % (name, mode, kind))
    c.setup(setup)
    return c


for mode in MODES:
    for kind in KINDS:
        # ---- set "L"
        def setup(b, case, mode=mode, kind=kind):
            impl = lib.device(b, 'dev')
            n = b.sym('str', 'name')
            light = lib.lifx_light(b, 'plain', impl, n)
            ls = lib.light_set_with(b, {n: light})
            m = lib.machine(b, mode, ls)
            r = regs(b, m, mode, kind)
            r.attrs['name'] = n
            return {'self': m, '_impl': impl}
        c = handler('_color_light', mode, kind, setup)
        c.define('D', "ghost('Dev')[0]")
        c.ensures('one-request', "len(ghost('Dev')) == 1 and D[1] == 'set_color' and same(D[0], _impl)")
        color_clauses(c, mode)
        duration_clause(c, mode)

        # ---- on/off "L"
        def setup(b, case, mode=mode, kind=kind):
            impl = lib.device(b, 'dev')
            n = b.sym('str', 'name')
            light = lib.lifx_light(b, 'plain', impl, n)
            ls = lib.light_set_with(b, {n: light})
            m = lib.machine(b, mode, ls)
            r = lib.sym_regs(b, m, kind, ('duration',))
            r.attrs['name'] = n
            r.attrs['power'] = b.sym('bool', 'power')
            return {'self': m, '_impl': impl}
        c = handler('_power_light', mode, kind, setup)
        c.define('D', "ghost('Dev')[0]")
        c.ensures('one-request', "len(ghost('Dev')) == 1 and D[1] == 'set_power' and same(D[0], _impl)")
        c.ensures('level', 'D[2] == ite(old(self._reg.power), 65535, 0)')
        duration_clause(c, mode)

        # ---- set/on/off group "G" (two members): same action on each member, same raw colour and duration
        for op, hname in (('color', '_color_group'), ('power', '_power_group'),
                          ('color', '_color_location'), ('power', '_power_location')):
            def setup(b, case, mode=mode, kind=kind, op=op, hname=hname):
                i1, i2 = lib.device(b, 'dev1'), lib.device(b, 'dev2')
                l1 = lib.lifx_light(b, 'plain', i1, 'a')
                l2 = lib.lifx_light(b, 'plain', i2, 'b')
                g = b.sym('str', 'set_name')
                members = {g: ['a', 'b']}
                ls = lib.light_set_with(b, {'a': l1, 'b': l2},
                                        groups=members if 'group' in hname else None,
                                        locations=members if 'location' in hname else None)
                m = lib.machine(b, mode, ls)
                r = regs(b, m, mode, kind) if op == 'color' else lib.sym_regs(b, m, kind, ('duration',))
                r.attrs['name'] = g
                r.attrs['power'] = b.sym('bool', 'power')
                return {'self': m, '_i1': i1, '_i2': i2}
            c = handler(hname, mode, kind, setup)
            meth = 'set_color' if op == 'color' else 'set_power'
            c.define('D', "ghost('Dev')[0]")
            c.define('E', "ghost('Dev')[1]")
            c.ensures('each-member-once-in-order',
                      "len(ghost('Dev')) == 2 and D[1] == '%s' and E[1] == '%s' and same(D[0], _i1) and same(E[0], _i2)" % (meth, meth))
            if op == 'color':
                color_clauses(c, mode)
                c.ensures('same-colour-for-every-member', 'D[2] == E[2]')
            else:
                c.ensures('level', 'D[2] == ite(old(self._reg.power), 65535, 0) and E[2] == D[2]')
            duration_clause(c, mode)
            c.ensures('same-duration-for-every-member', 'D[3] == E[3]')



# ---- history independence: what a command transmits depends on the registers and unit mode AT THAT COMMAND, not on what
#      an earlier command converted (a conversion cached across commands would be keyed on less than it depends on)
for mode1 in MODES:
    for mode2 in MODES:
        names2 = ('red', 'green', 'blue', 'kelvin', 'duration') if mode2 == 'RGB' else ('hue', 'saturation', 'brightness', 'kelvin', 'duration')
        body = '\n'.join('    m._reg.%s = n_%s' % (n, n) for n in names2)
        c = contract(M, 'set_twice', serves=['C07', 'C01', 'C14'], name='lemma:set L; units %s; registers assigned; set L [from %s]' % (mode2, mode1),
                     src='''
def set_twice(m, mode2, %s):
    m._color_light()
    m._reg.unit_mode = mode2
%s
    m._color_light()
''' % (', '.join('n_' + n for n in names2), body))
        def setup(b, case, mode1=mode1, mode2=mode2, names2=names2):
            impl = lib.device(b, 'dev')
            n = b.sym('str', 'name')
            light = lib.lifx_light(b, 'plain', impl, n)
            ls = lib.light_set_with(b, {n: light})
            m = lib.machine(b, mode1, ls)
            r = regs(b, m, mode1, 'real')
            r.attrs['name'] = n
            # the FIRST command's registers range over the interior of their domains (no clamping, so few paths);
            # the second command's registers are unconstrained
            top = {'LOGICAL': {'hue': 359, 'saturation': 99, 'brightness': 99}, 'RAW': {'hue': 65534, 'saturation': 65534, 'brightness': 65534},
                   'RGB': {'red': 99, 'green': 99, 'blue': 99}}[mode1]
            for nm, hi in top.items():
                b.between(r.attrs[nm], 1, hi)
            b.between(r.attrs['kelvin'], 1000, 9000)
            b.between(r.attrs['duration'], 0, 1000)
            out = {'m': m, 'mode2': b.enum('bardolph.controller.units', 'UnitMode', mode2), '_impl': impl}
            for nm in names2:
                v = b.sym('real', 'second_' + nm)
                if mode2 == 'RGB' and nm in ('red', 'green', 'blue'):
                    b.between(v, 0, 100)
                out['n_' + nm] = v
            return out
        c.setup(setup)
        c.define('D', "ghost('Dev')[1]")
        c.ensures('two-requests', "len(ghost('Dev')) == 2 and D[1] == 'set_color' and same(D[0], _impl)")
        color_clauses(c, mode2, R='n_%s')
        duration_clause(c, mode2, R='n_%s')
