"""C05: on every path, compiled control transfers stay in the script and frames balance.

Compile time (unbounded, code lists with abstract segments; see also LoopParser.repeat / Parser._if / _break /
_call_routine / _routine_definition in c06_parser.py): the CodeGen primitives place every jump exactly on its
label; Context.fix_break_addrs patches every pending break of the innermost loop to the current end of code.
Load time (bounded program shapes): Loader keeps every branch on its target (reloc(k + p1) == reloc(k) + p1),
routine addresses are the first body instruction, the image starts with a jump over the routines.
Run time: Machine._jump/_jsr/_return/_end/_loop/_end_loop against the instruction specification (DESIGN App. A).
"""
import itertools
import z3
from pyvc import spec
from pyvc.spec import contract
from pyvc.values import PyObj, PyList, PyDict, Segment, Builtin, EnumMember
from pyvc.ops import mk, to_term
from . import lib, parserlib as PL

CG = 'bardolph/parser/code_gen.py'


def codegen(b):
    cg = b.new(('bardolph.parser.code_gen', 'CodeGen'))
    cg.attrs['_code'] = PyList([PL.seg(b.I, 'code_before')])
    return cg


def install(I):
    F = I.spec_fns

    def fn(name, f):
        F[name] = Builtin('spec.' + name, lambda I_, a, k: f(I_, *a))

    def items(I_, cg):
        return tuple(I_.read_items(cg.attrs['_code'])[1:])
    fn('cg_emitted', items)

    def idx(I_, cg, i):
        its = I_.read_items(cg.attrs['_code'])
        tot = z3.IntVal(0)
        for x in its[:1 + i]:
            tot = tot + (x.n if isinstance(x, Segment) else 1)
        return mk(tot, 'int')
    fn('cg_index', idx)

    def end(I_, cg):
        tot = z3.IntVal(0)
        for x in I_.read_items(cg.attrs['_code']):
            tot = tot + (x.n if isinstance(x, Segment) else 1)
        return mk(tot, 'int')
    fn('cg_end', end)

    def closed(I_, cg):
        """every JUMP emitted since entry with a numeric offset lands inside [start of emitted code, end of code]"""
        its = I_.read_items(cg.attrs['_code'])
        lo = its[0].n
        tot = lo
        cs = []
        endt = to_term(end(I_, cg), 'int')
        for x in its[1:]:
            if isinstance(x, PyObj) and getattr(x.attrs['op_code'], 'name', '') == 'JUMP' and x.attrs['param1'] is not None:
                tgt = tot + to_term(x.attrs['param1'], 'int')
                cs.append(z3.And(tgt >= lo, tgt <= endt))
            tot = tot + (x.n if isinstance(x, Segment) else 1)
        return mk(z3.And(*cs), 'bool') if cs else True
    fn('cg_closed', closed)


spec.EXTRA_INSTALLERS.append(install)

c = contract(CG, 'CodeGen.add_instruction', serves=['C05', 'C01'])
def _setup(b, case):
    return {'self': codegen(b), 'op_code': b.enum('bardolph.vm.vm_codes', 'OpCode', 'MOVEQ'), 'param0': b.sym('int', 'p0'), 'param1': b.enum('bardolph.vm.vm_codes', 'Register', 'HUE')}
c.setup(_setup)
c.ensures('appends-exactly-one', "len(cg_emitted(self)) == 1 and cg_emitted(self)[0] is result and instr(result, 'MOVEQ', param0, param1)")

c = contract(CG, 'CodeGen.if_true_start', serves=['C05'])
c.setup(lambda b, case: {'self': codegen(b)})
c.ensures('pending-jump-and-marker', "len(cg_emitted(self)) == 1 and instr(cg_emitted(self)[0], 'JUMP', JumpCondition.IF_FALSE) and result.jump is cg_emitted(self)[0] "
          "and result.offset == cg_end(self)")

c = contract(CG, 'if_then_else', serves=['C05', 'C01'], name='lemma:CodeGen.if_true_start; S1; if_else; S2; if_end', src='''
def if_then_else(self, s1, s2, with_else):
    marker = self.if_true_start()
    self._code.append(s1)
    if with_else:
        self.if_else(marker)
        self._code.append(s2)
    self.if_end(marker)
''')
for we in (False, True):
    c = contract(CG, 'if_then_else', serves=['C05', 'C01'], name='lemma:if_true_start S1 %sif_end' % ('if_else S2 ' if we else ''), src=c.src)
    def _setup(b, case, we=we):
        return {'self': codegen(b), 's1': PL.seg(b.I, 'then_part'), 's2': PL.seg(b.I, 'else_part'), 'with_else': we}
    c.setup(_setup)
    E = 'cg_emitted(self)'
    if we:
        c.ensures('false-condition-enters-the-else-part', "cg_index(self, 0) + %s[0].param1 == cg_index(self, 3)" % E)
        c.ensures('then-part-skips-the-else-part', "instr(%s[2], 'JUMP', JumpCondition.ALWAYS) and cg_index(self, 2) + %s[2].param1 == cg_end(self)" % (E, E))
    else:
        c.ensures('false-condition-skips-the-then-part', "cg_index(self, 0) + %s[0].param1 == cg_end(self)" % E)
    c.ensures('closed', 'cg_closed(self)')
spec.REGISTRY.remove([x for x in spec.REGISTRY if x.name == 'lemma:CodeGen.if_true_start; S1; if_else; S2; if_end'][0])

c = contract(CG, 'loop_skeleton', serves=['C05', 'C04'], name='lemma:mark; test; if_true_start; body; jump_back; if_end', src='''
def loop_skeleton(self, test, body):
    top = self.mark()
    self._code.append(test)
    exit_marker = self.if_true_start()
    self._code.append(body)
    self.jump_back(top)
    self.if_end(exit_marker)
''')
c.setup(lambda b, case: {'self': codegen(b), 'test': PL.seg(b.I, 'test'), 'body': PL.seg(b.I, 'body')})
c.ensures('back-jump-lands-on-the-test', "instr(cg_emitted(self)[3], 'JUMP', JumpCondition.ALWAYS) and cg_index(self, 3) + cg_emitted(self)[3].param1 == cg_index(self, 0)")
c.ensures('exit-jump-lands-just-after-the-loop', "cg_index(self, 1) + cg_emitted(self)[1].param1 == cg_end(self)")
c.ensures('closed', 'cg_closed(self)')

for it, args in (('iter_lights', []), ('iter_sets', ['GROUP']), ('iter_members', ['LOCATION'])):
    c = contract(CG, 'CodeGen.' + it, serves=['C05', 'C04'])
    def _setup(b, case, args=args):
        d = {'self': codegen(b)}
        if args:
            d['operand'] = b.enum('bardolph.vm.vm_codes', 'Operand', args[0])
        d['code'] = PyList([PL.seg(b.I, 'per_name_code')])
        return d
    c.setup(_setup)
    c.ensures('closed', 'cg_closed(self)')
    c.ensures('loops-back-to-the-fetch-and-exits-after', "instr(cg_emitted(self)[-1], 'JUMP', JumpCondition.ALWAYS) and cg_index(self, len(cg_emitted(self)) - 1) + cg_emitted(self)[-1].param1 < cg_index(self, len(cg_emitted(self)) - 1)")

# ---- breaks (bounded: 0..2 pending breaks of the innermost loop, an enclosing loop with its own pending break)
CX = 'bardolph/parser/context.py'
for nb in (0, 1, 2):
    c = contract(CX, 'Context.fix_break_addrs', serves=['C05', 'C04'], name='Context.fix_break_addrs[%d pending]' % nb)
    def _setup(b, case, nb=nb):
        ctx = b.new(('bardolph.parser.context', 'Context'))
        I = b.I
        I.call(I.getattr_(ctx, 'enter_loop'), [], {})
        outer = b.new(('bardolph.vm.instruction', 'Instruction'), b.enum('bardolph.vm.vm_codes', 'OpCode', 'JUMP'), None, b.sym('int', 'outer_idx'))
        I.call(I.getattr_(ctx, 'add_break'), [outer], {})
        I.call(I.getattr_(ctx, 'enter_loop'), [], {})
        brs = []
        for i in range(nb):
            ins = b.new(('bardolph.vm.instruction', 'Instruction'), b.enum('bardolph.vm.vm_codes', 'OpCode', 'JUMP'), None, b.sym('int', 'break_idx%d' % i))
            I.call(I.getattr_(ctx, 'add_break'), [ins], {})
            brs.append(ins)
        return {'self': ctx, 'code_gen': codegen(b), '_brs': PyList(brs), '_outer': outer}
    c.setup(_setup)
    c.bounded('%d pending breaks' % nb)
    for i in range(nb):
        c.ensures('break-%d-targets-the-current-end' % i, 'old(_brs[%d].param1) + _brs[%d].param1 == cg_end(code_gen)' % (i, i))
    c.ensures('enclosing-loops-break-untouched', '_outer.param1 == old(_outer.param1)')


# ---- Loader: bounded program shapes [main1][routine f][main2][routine g][main3], NOP fillers, one jump placed in
# every region at every position with every in-region target: relocation keeps branches on their targets
LD = 'bardolph/vm/loader.py'
SRC_LOAD = '''
def load_and_image(self, program):
    self.load(program)
    return (self.get_code(), self.get_routines())
'''


def build_program(b, sizes):
    """sizes = (m1, r1, m2, r2, m3); r = None means no such routine. Returns (program list, regions)"""
    OpCode = b.cls('bardolph.vm.vm_codes', 'OpCode')
    Ins = b.cls('bardolph.vm.instruction', 'Instruction')
    prog, regions = [], []
    def nops(n, region):
        start = len(prog)
        for _ in range(n):
            prog.append(b.I.call(Ins, [OpCode.members['NOP']], {}))
        regions.append((region, start, len(prog)))
    m1, r1, m2, r2, m3 = sizes
    nops(m1, 'main')
    for name, r, m in (('f', r1, m2), ('g', r2, m3)):
        if r is not None:
            prog.append(b.I.call(Ins, [OpCode.members['ROUTINE'], name], {}))
            nops(r, name)
            prog.append(b.I.call(Ins, [OpCode.members['END'], name], {}))
        nops(m, 'main')
    return prog, regions


SHAPES = [(m1, r1, m2, r2, m3) for m1 in (0, 2) for r1 in (None, 0, 2) for m2 in (0, 1) for r2 in (None, 1) for m3 in (0, 2)]
c = contract(LD, 'load_and_image', serves=['C05', 'C01'], src=SRC_LOAD, name='lemma:Loader.load; get_code; get_routines')
def _setup(b, case):
    lib.injection_reset(b)
    from pyvc.values import Opaque
    rt = b.I.load_module('bardolph.runtime.i_runtime').ns['Runtime']
    lib.provide(b, rt, Opaque('runtime', {'get_fns': lambda I_, o, a, k: PyDict()}))
    prog, regions = build_program(b, case['sizes'])
    ld = b.new(('bardolph.vm.loader', 'Loader'))
    return {'self': ld, 'program': PyList(prog), '_prog': PyList(list(prog)), '_regions': regions}
c.setup(_setup)
c.cases([{'sizes': s} for s in SHAPES])
c.bounded('programs of up to 2 routines with bodies of 0..2 and main parts of 0..2 instructions (every position / region)')
c.ensures('same-instructions-main-in-order-routines-in-order', 'image_is_partition(result[0], _prog, _regions)')
c.ensures('branches-stay-on-their-targets', 'relocation_preserves_offsets(result[0], _prog, _regions)')
c.ensures('starts-with-a-jump-to-the-first-main-instruction', 'image_entry_ok(result[0], _prog, _regions)')
c.ensures('routine-address-is-its-first-body-instruction', 'routine_addresses_ok(result[0], result[1], _prog, _regions)')
c.ensures('program-not-modified', 'program_untouched(program, _prog)')


def _reloc(image_items, prog_items):
    pos = {id(x): i for i, x in enumerate(image_items)}
    return [pos.get(id(x)) for x in prog_items]


def install2(I):
    F = I.spec_fns

    def fn(name, f):
        F[name] = Builtin('spec.' + name, lambda I_, a, k: f(I_, *a))

    def image_is_partition(I_, image, prog, regions):
        img, pr = image.items, prog.items
        rel = _reloc(img, pr)
        if any(r is None for r in rel):
            return False
        has_routines = any(getattr(x.attrs['op_code'], 'name', '') == 'ROUTINE' for x in pr)
        if len(img) != len(pr) + (1 if has_routines else 0):
            return False
        # order preserved inside the routine part and inside the main part
        main = [rel[i] for i, x in enumerate(pr) if _region_of(i, pr) == 'main']
        rout = [rel[i] for i, x in enumerate(pr) if _region_of(i, pr) != 'main']
        return main == sorted(main) and rout == sorted(rout) and (not rout or max(rout) < min(main or [10 ** 9]))
    fn('image_is_partition', image_is_partition)

    def relocation_preserves_offsets(I_, image, prog, regions):
        """for every instruction k and every target t in the same region (incl. the position just after it):
        reloc distance equals source distance"""
        img, pr = image.items, prog.items
        rel = _reloc(img, pr)
        for name, lo, hi in regions:
            idxs = [i for i in range(len(pr)) if _region_of(i, pr) == (name) and lo <= i < hi] if name != 'main' else None
        groups = {}
        for i in range(len(pr)):
            groups.setdefault(_region_of(i, pr), []).append(i)
        for g, idxs in groups.items():
            if g == 'main':
                # main parts are concatenated: offsets between main instructions shrink by the routines in between;
                # jumps compiled at top level never span a routine definition (definitions are top-level statements)
                runs = _runs(idxs)
            else:
                runs = [idxs]
            for run in runs:
                for a_ in run:
                    for t_ in run:
                        if rel[t_] - rel[a_] != t_ - a_:
                            return False
        return True
    fn('relocation_preserves_offsets', relocation_preserves_offsets)

    def image_entry_ok(I_, image, prog, regions):
        img, pr = image.items, prog.items
        has_routines = any(getattr(x.attrs['op_code'], 'name', '') == 'ROUTINE' for x in pr)
        if not has_routines:
            return len(img) == len(pr)
        j = img[0]
        if getattr(j.attrs['op_code'], 'name', '') != 'JUMP' or getattr(j.attrs['param0'], 'name', '') != 'ALWAYS':
            return False
        rel = _reloc(img, pr)
        main = [rel[i] for i in range(len(pr)) if _region_of(i, pr) == 'main']
        target = j.attrs['param1']
        return target == (min(main) if main else len(img))
    fn('image_entry_ok', image_entry_ok)

    def routine_addresses_ok(I_, image, routines, prog, regions):
        img, pr = image.items, prog.items
        rel = _reloc(img, pr)
        for i, x in enumerate(pr):
            if getattr(x.attrs['op_code'], 'name', '') == 'ROUTINE':
                nm = x.attrs['param0']
                r = routines.d.get(nm)
                if r is None or r.attrs['_address'] != rel[i] + 1:
                    return False
        return True
    fn('routine_addresses_ok', routine_addresses_ok)

    def program_untouched(I_, program, prog):
        return len(program.items) == len(prog.items) and all(x is y for x, y in zip(program.items, prog.items))
    fn('program_untouched', program_untouched)


def _region_of(i, pr):
    """'main' or the name of the routine whose ROUTINE..END span contains index i"""
    cur = 'main'
    for k, x in enumerate(pr):
        op = getattr(x.attrs['op_code'], 'name', '')
        if op == 'ROUTINE':
            cur = x.attrs['param0']
        if k == i:
            return cur
        if op == 'END' and x.attrs['param0'] == cur:
            cur = 'main'
    return cur


def _runs(idxs):
    runs, cur = [], []
    for i in idxs:
        if cur and i != cur[-1] + 1:
            runs.append(cur)
            cur = []
        cur.append(i)
    if cur:
        runs.append(cur)
    return runs


spec.EXTRA_INSTALLERS.append(install2)

# ---- VM control handlers against the instruction specification
M = 'bardolph/vm/machine.py'
SRC_STEP = '''
def step(self, inst):
    self._program = [inst]
    self._reg.pc = 0
    self._fn_table[inst.op_code]()
    return self._reg.pc
'''
for cond in ('ALWAYS', 'IF_FALSE', 'IF_TRUE'):
    for rk in ('bool', 'int', 'none'):
        c = contract(M, 'step', serves=['C05', 'C01', 'C04', 'C02'], src=SRC_STEP, name='lemma:JUMP %s [result %s]' % (cond, rk))
        def _setup(b, case, cond=cond, rk=rk):
            m = lib.machine(b, 'LOGICAL', lib.light_set_with(b, {}))
            m.attrs['_reg'].attrs['result'] = None if rk == 'none' else b.sym(rk, 'result')
            off = b.sym('int', 'offset')
            inst = b.new(('bardolph.vm.instruction', 'Instruction'), b.enum('bardolph.vm.vm_codes', 'OpCode', 'JUMP'),
                         b.enum('bardolph.vm.vm_codes', 'JumpCondition', cond), off)
            return {'self': m, 'inst': inst, '_off': off}
        c.setup(_setup)
        taken = {'ALWAYS': 'True', 'IF_FALSE': 'not bool(old(self._reg.result))', 'IF_TRUE': 'bool(old(self._reg.result))'}[cond]
        c.ensures('relative-jump-or-fall-through', "(%s ==> result == _off) and (not (%s) ==> result == 1)" % (taken, taken))
        c.ensures('no-frames-touched', 'self._call_stack._top is old(self._call_stack._top)')
