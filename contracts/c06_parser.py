"""C06 / C05 / C01: the statement parsers of bardolph/parser/parse.py, one method at a time, over abstract
token streams (see parserlib.py).  Every method is checked against the *Parse family contract*:
  1. no exception escapes, for every token sequence;
  2. the result is True, or it is falsy and at least one message was added (never a silent failure);
  3. a True result consumed at least one token (progress);
and, where a template is given, against the exact code it must emit (Appendix B of DESIGN.md).
"""
from pyvc.spec import contract
from pyvc.values import PyObj, PyList
from . import lib, parserlib as PL

for _n in ('Register', 'JumpCondition', 'SetOp', 'IoOp', 'Operand', 'OpCode'):
    pass

P = 'bardolph/parser/parse.py'


def family(c, progress=True):
    c.ensures('accept-or-message', 'result is True or (falsy(result) and errs() > old(errs()))')
    # ... and not both: a text for which a message was produced must not come out as accepted (it would be run)
    c.ensures('no-message-when-accepted', 'result is True ==> errs() == old(errs())')
    if progress:
        c.ensures('progress', 'result is True ==> tokens_consumed() > old(tokens_consumed())')
    return c


def method(name, first=None, serves=('C06',), setup_extra=None, progress=True, uses=('parser',), **pk):
    c = contract(P, 'Parser.' + name, serves=list(serves), uses=uses, name='Parser.' + name + (('[%s]' % (first,)) if first else '') + (pk and str(sorted(pk.items())) or ''))
    def _setup(b, case, first=first):
        tok = PL.concrete_token(b.I, first[0], first[1]) if isinstance(first, tuple) else (PL.concrete_token(b.I, first) if first else None)
        pr = PL.parser(b, first_token=tok, **pk)
        d = {'self': pr}
        if setup_extra:
            d.update(setup_extra(b, pr))
        return d
    c.setup(_setup)
    family(c, progress)
    return c


# ---- simple statements
c = method('_wait', 'WAIT', serves=('C06', 'C01'))
c.ensures('template', "result is True ==> len(emitted(self)) == 1 and instr(emitted(self)[0], 'WAIT')")

c = method('_set_units', 'UNITS', serves=('C06', 'C01', 'C14'))
c.ensures('template', "result is True ==> len(emitted(self)) == 1 and instr(emitted(self)[0], 'MOVEQ') and emitted(self)[0].param1 is Register.UNIT_MODE")

c = method('_break', 'BREAK', serves=('C06', 'C05'))
c.ensures('rejected-outside-a-loop', 'len(old(self._context._loop_stack)) == 0 ==> falsy(result)')
c.ensures('jump-remembers-its-own-index', "result is True ==> len(emitted(self)) == 1 and instr(emitted(self)[0], 'JUMP', JumpCondition.ALWAYS) "
          "and emitted(self)[0].param1 == start_index(self, 0)")

c = method('_pause', 'PAUSE')
c = method('_breakpoint', 'BREAKPOINT')
c = method('_syntax_error', progress=False)
c.ensures('always-rejects', 'falsy(result)')

c = method('_if', 'IF', serves=('C06', 'C05', 'C01'))
E = 'emitted(self)'
c.ensures('if-without-else',
          "result is True and len(%s) == 3 ==> is_seg(%s[0], 'value') and instr(%s[1], 'JUMP', JumpCondition.IF_FALSE) and is_seg(%s[2], 'command') "
          "and start_index(self, 1) + %s[1].param1 == end_index(self)" % (E, E, E, E, E))
c.ensures('if-else',
          "result is True and len(%s) == 5 ==> is_seg(%s[0], 'value') and instr(%s[1], 'JUMP', JumpCondition.IF_FALSE) and is_seg(%s[2], 'command') "
          "and instr(%s[3], 'JUMP', JumpCondition.ALWAYS) and is_seg(%s[4], 'command') "
          "and start_index(self, 1) + %s[1].param1 == start_index(self, 4) and start_index(self, 3) + %s[3].param1 == end_index(self)" % ((E,) * 8))
c.ensures('no-other-shape', 'result is True ==> len(%s) == 3 or len(%s) == 5' % (E, E))


# ---- register settings
for reg in ('hue', 'saturation', 'brightness', 'kelvin', 'red', 'green', 'blue', 'duration'):
    c = method('_set_reg', ('REGISTER', reg), serves=('C06', 'C01'))
    c.ensures('value-into-the-register', "result is True ==> len(emitted(self)) == 1 and (is_seg(emitted(self)[0], 'value') or "
              "(instr(emitted(self)[0], 'MOVEQ') and emitted(self)[0].param1 is Register.%s))" % reg.upper())
c = method('_set_reg', ('REGISTER', 'time'), serves=('C06', 'C01', 'C10', 'C11'))
c = method('_set_reg', ('REGISTER', 'default'))

c = method('_string_to_reg', 'LITERAL_STRING', setup_extra=lambda b, pr: {'reg': b.enum('bardolph.vm.vm_codes', 'Register', 'NAME')})
c.ensures('name-register', "result is True ==> len(emitted(self)) == 1 and instr(emitted(self)[0], 'MOVEQ') and emitted(self)[0].param1 is Register.NAME")
c = method('_string_to_reg', 'LITERAL_STRING', setup_extra=lambda b, pr: {'reg': b.enum('bardolph.vm.vm_codes', 'Register', 'HUE')}, progress=False)
c.ensures('quoted-value-only-for-name', 'falsy(result)')

# ---- actions: set / on / off / stage with every operand form
W = "instr(emitted(self)[0], 'WAIT')"
for name, first in (('_set', 'SET'), ('_power_on', 'ON'), ('_power_off', 'OFF')):
    c = method(name, first, serves=('C06', 'C01'), in_matrix=False)
    k = 0 if name == '_set' else 1          # on/off put MOVEQ bool POWER before the WAIT
    c.ensures('exactly-one-wait-and-it-comes-first',
              "result is True ==> instr(emitted(self)[%d], 'WAIT') and all_but(emitted(self), %d, 'WAIT')" % (k, k))
    if name != '_set':
        c.ensures('power-flag', "result is True ==> instr(emitted(self)[0], 'MOVEQ', %s) and emitted(self)[0].param1 is Register.POWER" % (name == '_power_on'))
    c.ensures('every-operand-is-followed-by-the-action',
              "result is True ==> ends_with(emitted(self), '%s')" % ('COLOR' if name == '_set' else 'POWER'))

c = method('_get_color', 'GET', serves=('C06', 'C01'))
c.ensures('template', "result is True ==> len(emitted(self)) == 3 and is_seg(emitted(self)[0], 'value') and instr(emitted(self)[1], 'MOVE', Register.RESULT, Register.NAME) "
          "and instr(emitted(self)[2], 'GET_COLOR')")

c = method('_stage', 'STAGE', serves=('C06', 'C15'))
c.ensures('only-inside-a-matrix-block-or-routine', 'not old(self._context._in_matrix) and not old(self._context._in_routine) ==> falsy(result)')
c.ensures('no-wait-for-a-stage', "result is True ==> all_but(emitted(self), -1, 'WAIT') and not instr(emitted(self)[0], 'WAIT')")

# ---- time
c = method('_time', ('REGISTER', 'time'), serves=('C06', 'C10', 'C11'))
c = method('_process_time_patterns', serves=('C06', 'C11', 'C10', 'C01'))
c.loop(0, ['errs() == old(errs())', 'tokens_consumed() > old(tokens_consumed())', 'all_patterns_valid(self)', 'first_inits_rest_unite(self)'], **PL.token_loop(keep=('time_pattern',)))
c.ensures('only-patterns-that-can-match-are-compiled', 'result is True ==> all_patterns_valid(self)')
c.ensures('the-first-pattern-replaces-the-alternatives-are-added', 'result is True ==> first_inits_rest_unite(self) and len(emitted(self)) >= 1')


# ---- assignment / definitions
c = method('_assignment', 'ASSIGN', serves=('C06', 'C01', 'C03'))
c.ensures('value-into-the-variable', "result is True ==> len(emitted(self)) == 1 and is_seg(emitted(self)[0], 'value')")
c.ensures('the-variable-exists-only-after-its-first-value-was-parsed',
          "(ghost('names_declared_before_last_phrase') is None or ghost('names_declared_before_last_phrase') == 0) "
          "and (falsy(result) ==> len(globals_added(self)) + len(locals_added(self)) == 0) "
          "and (result is True ==> len(globals_added(self)) + len(locals_added(self)) == 1)")
# any name of the documented form can be a variable: also one spelled like a function (round, sin, ... or an earlier routine of
# the script); only a macro (a constant) is refused.  The target name is accepted = the value phrase after it is reached.
for styp, accepted in (('ROUTINE', True), ('VAR', True), ('MACRO', False)):
    c = contract(P, 'Parser._assignment', serves=['C06', 'C16'], uses=('parser',), name='Parser._assignment[ASSIGN round ..., the name is known as %s]' % (styp or 'nothing'))
    def _setup(b, case, styp=styp):
        pr = PL.parser(b, first_token=PL.concrete_token(b.I, 'ASSIGN'), then=(PL.concrete_token(b.I, 'NAME', 'round'),))
        sym = None
        if styp:
            symcls = b.cls('bardolph.lib.symbol', 'Symbol')
            st = b.cls('bardolph.lib.symbol', 'SymbolType')
            sym = PyObj(symcls, {'_name': 'round', '_symbol_type': st.members[styp], '_value': b.sym('int', 'whatever')})
        for table in (pr.attrs['_context'].attrs['_globals'], pr.attrs['_context'].attrs['_locals']):
            b.I.ghost['symbols'][(id(table), repr('round'))] = sym
        b.ghost('nesting_at_last_phrase', None)
        return {'self': pr}
    c.setup(_setup)
    family(c)
    if accepted:
        c.ensures('the-name-is-accepted-as-a-variable', "ghost('nesting_at_last_phrase') is not None")
    else:
        c.ensures('a-constant-cannot-be-assigned-to', "falsy(result) and ghost('nesting_at_last_phrase') is None")
c = method('_definition', 'DEFINE', serves=('C06', 'C01'))
c = method('_return', 'RETURN', serves=('C06', 'C01', 'C03'))
c.ensures('template', "result is True ==> instr(emitted(self)[-1], 'RETURN') and len(emitted(self)) == 2 and "
          "(is_seg(emitted(self)[0], 'value') or instr(emitted(self)[0], 'MOVEQ', None, Register.RESULT))")
c = method('_mark', ('MARK', '['), serves=('C06',))
c = method('_mark', ('MARK', '{'), serves=('C06',), progress=False)
c.ensures('free-standing-expression-rejected', 'falsy(result)')

# ---- blocks
c = method('compound_command', 'BEGIN', serves=('C06', 'C01'))
c.loop(0, ['errs() == old(errs())', 'tokens_consumed() > old(tokens_consumed())'], **PL.TOKEN_LOOP)
c = method('_body', serves=('C06',), progress=False)
c.loop(0, ['errs() == at_entry(errs())', 'tokens_consumed() >= at_entry(tokens_consumed())'], **PL.TOKEN_LOOP)
c = method('_script', serves=('C06',), progress=False)
c = method('_eof', progress=False)

# ---- print family
c = method('_print', 'PRINT', serves=('C06', 'C19'))
c.ensures('template', "result is True ==> len(emitted(self)) == 0 or (len(emitted(self)) == 3 and is_seg(emitted(self)[0], 'value') "
          "and instr(emitted(self)[1], 'OUT', IoOp.REGISTER, Register.RESULT) and instr(emitted(self)[2], 'OUT', IoOp.PRINT))")
c = method('_println', 'PRINTLN', serves=('C06', 'C19'))
c.ensures('ends-the-line', "result is True ==> instr(emitted(self)[-1], 'OUT', IoOp.PRINT_END) and (len(emitted(self)) == 1 or len(emitted(self)) == 4)")


# loops over tokens inside helpers (their invariants are attached by qualified name and used wherever they are inlined)
def _pre_action(b, pr):
    pr.attrs['_op_code'] = b.enum('bardolph.vm.vm_codes', 'OpCode', 'COLOR')
    return {'action_token': PL.TT(b.I).members['SET']}
c = method('_operand_list', serves=('C06', 'C01'), setup_extra=_pre_action, in_matrix=False)
c.loop(0, ['errs() == old(errs())', 'tokens_consumed() > old(tokens_consumed())', "no_instr(loop_emitted(self), 'WAIT')", "ends_with(emitted(self), self._op_code)"], **PL.TOKEN_LOOP)
c.ensures('no-wait-between-operands', "result is True ==> no_instr(emitted(self), 'WAIT') and ends_with(emitted(self), 'COLOR')")

def _routine_arg(b, pr):
    return {'routine': b.new(('bardolph.controller.routine', 'Routine'), b.sym('str', 'routine_name'))}
c = method('_param_decl', 'NAME', serves=('C06', 'C03'), setup_extra=_routine_arg)
c.loop(0, ['errs() == old(errs())', 'tokens_consumed() > old(tokens_consumed())'], **PL.cursor_loop(keep=('name',)))
c.ensures('declarations-emit-no-code', 'len(emitted(self)) == 0')
c.ensures('declared-in-the-scope-in-effect', 'old(self._context._in_routine) ==> len(globals_added(self)) == 0')
c.ensures('any-name-can-be-the-first-parameter', 'len(routine._params) >= 1 and routine._params[0] == old(self._current_token._content)')
c.serves.append('C16') if 'C16' not in c.serves else None


# ---- operands
c = method('_operand', serves=('C06', 'C01', 'C15'), setup_extra=lambda b, pr: (pr.attrs.__setitem__('_op_code', b.enum('bardolph.vm.vm_codes', 'OpCode', 'COLOR')), {})[1])
c.ensures('ends-by-naming-the-operand-kind', "result is True ==> instr(emitted(self)[-1], 'MOVEQ') and emitted(self)[-1].param1 is Register.OPERAND")
c.ensures('name-first', "result is True ==> (instr(emitted(self)[0], 'MOVEQ') or instr(emitted(self)[0], 'MOVE')) and emitted(self)[0].param1 is Register.NAME")
c.ensures('shape', "result is True ==> len(emitted(self)) == 2 or (len(emitted(self)) == 3 and (is_seg(emitted(self)[1], 'zones') or is_seg(emitted(self)[1], 'matrix')))")
c.ensures('zones-make-it-a-multizone-operand', "result is True and len(emitted(self)) == 3 and is_seg(emitted(self)[1], 'zones') ==> emitted(self)[2].param0 is Operand.MZ_LIGHT")
c.ensures('rows-columns-make-it-a-matrix-operand', "result is True and len(emitted(self)) == 3 and is_seg(emitted(self)[1], 'matrix') ==> emitted(self)[2].param0 is Operand.MATRIX_LIGHT")

for opc in ('COLOR', 'POWER'):
    c = method('_zone_range', 'ZONE', serves=('C06', 'C15'), setup_extra=lambda b, pr, opc=opc: (pr.attrs.__setitem__('_op_code', b.enum('bardolph.vm.vm_codes', 'OpCode', opc)), {})[1])
    c.name += '[%s]' % opc
    if opc == 'POWER':
        c.ensures('zones-only-for-set', 'falsy(result)')
    else:
        c.ensures('first-then-last-or-none', "result is True ==> len(emitted(self)) == 2 and is_seg(emitted(self)[0], 'value') and "
                  "(is_seg(emitted(self)[1], 'value') or instr(emitted(self)[1], 'MOVEQ', None, Register.LAST_ZONE))")


# ---- values (the body of _rvalue itself; sub-expressions and calls through their family contracts)
DESTS = [('Register.RESULT', lambda b: b.enum('bardolph.vm.vm_codes', 'Register', 'RESULT')),
         ('Register.HUE', lambda b: b.enum('bardolph.vm.vm_codes', 'Register', 'HUE')),
         ('variable', lambda b: b.sym('str', 'dest_name')),
         ('LoopVar.COUNTER', lambda b: b.enum('bardolph.vm.vm_codes', 'LoopVar', 'COUNTER')),
         ('OpCode.PUSH', lambda b: b.enum('bardolph.vm.vm_codes', 'OpCode', 'PUSH'))]
for dname, mk in DESTS:
    c = method('_rvalue', serves=('C06', 'C02', 'C01'), setup_extra=lambda b, pr, mk=mk: {'dest': mk(b)})
    c.name += '[dest=%s]' % dname
    c.ensures('one-value-phrase', "result is True ==> len(emitted(self)) <= 2")
    # a function call used as the value: the callee leaves it in the result register, from where it goes to dest
    # (MOVE source, destination — the order the VM reads)
    if dname == 'OpCode.PUSH':
        c.ensures('call-result-pushed', "result is True and len(emitted(self)) == 2 and is_seg(emitted(self)[0], 'call') ==> instr(emitted(self)[1], 'PUSH', Register.RESULT)")
    elif dname == 'Register.RESULT':
        c.ensures('call-result-stays-in-the-result-register', "result is True and len(emitted(self)) >= 1 and is_seg(emitted(self)[0], 'call') ==> len(emitted(self)) == 1")
    else:
        c.ensures('call-result-moved-from-the-result-register-into-dest', "result is True and len(emitted(self)) >= 1 and is_seg(emitted(self)[0], 'call') ==> "
                  "len(emitted(self)) == 2 and instr(emitted(self)[1], 'MOVE', Register.RESULT) and same_dest(emitted(self)[1].param1, dest)")
    if dname == 'OpCode.PUSH':
        c.ensures('pushes-the-value', "result is True and len(emitted(self)) == 1 and not is_seg(emitted(self)[0]) ==> "
                  "instr(emitted(self)[0], 'PUSH') or instr(emitted(self)[0], 'PUSHQ')")
    else:
        c.ensures('moves-the-value-into-dest', "result is True and len(emitted(self)) == 1 and not is_seg(emitted(self)[0]) ==> "
                  "(instr(emitted(self)[0], 'MOVE') or instr(emitted(self)[0], 'MOVEQ')) and same_dest(emitted(self)[0].param1, dest)")
        c.ensures('expression-result-popped-into-dest', "result is True and len(emitted(self)) == 2 and is_seg(emitted(self)[0], 'expr') and not is_seg(emitted(self)[1]) ==> "
                  "(instr(emitted(self)[1], 'POP') and same_dest(emitted(self)[1].param0, dest)) or instr(emitted(self)[1], 'OP', Operator.NOT)")

# ---- calls
for first in (('MARK', '['), 'NAME'):
    c = method('_call_routine', first, serves=('C06', 'C01', 'C03', 'C05', 'C16'))
    c.loop(0, ['errs() == old(errs())', 'tokens_consumed() > old(tokens_consumed())', "no_instr(loop_emitted(self), 'JSR') and no_instr(loop_emitted(self), 'CTX')"],
           **PL.token_loop(keep=('param_name',)), index='_i')
    c.ensures('calling-sequence', "result is True ==> instr(emitted(self)[0], 'CTX') and instr(emitted(self)[-2], 'JSR') and instr(emitted(self)[-1], 'END_CTX') "
              "and no_instr(emitted(self)[1:-2], 'JSR') and no_instr(emitted(self)[1:-2], 'CTX')")
    c.ensures('only-defined-routines-are-called', "result is True ==> called_routine_is_defined(self)")

# ---- definitions
c = method('_macro_definition', serves=('C06', 'C01'), setup_extra=lambda b, pr: {'name': b.sym('str', 'macro_name')})
c.ensures('template', "result is True ==> len(emitted(self)) == 1 and instr(emitted(self)[0], 'CONSTANT')")
c.ensures('a-macro-always-has-a-value', "result is True ==> emitted(self)[0].param1 is not None")
c = method('_routine_definition', serves=('C06', 'C05', 'C01'), setup_extra=lambda b, pr: {'name': b.sym('str', 'routine_name')})
c.ensures('no-nested-definition', 'old(self._context._in_routine) ==> falsy(result)')
c.ensures('only-at-the-top-level-of-the-script', 'old(self._nesting) > 0 ==> falsy(result)')
c.ensures('template-shape', "result is True ==> len(emitted(self)) == 3 and instr(emitted(self)[0], 'ROUTINE') and instr(emitted(self)[-1], 'END') and is_seg(emitted(self)[1], 'command')")
c.ensures('template-names', "result is True ==> emitted(self)[0].param0 is name and emitted(self)[-1].param0 is name")
c.ensures('leaves-the-routine-scope', 'result is True ==> not self._context._in_routine')
c.ensures('parameters-are-local-to-the-routine', 'len(globals_added(self)) <= 1 and all(n is name for n in globals_added(self))')

# ---- dispatch
c = method('_command', serves=('C06', 'C01'), uses=('parser', 'dispatch'))
c.ensures('one-statement', "result is True ==> len(emitted(self)) == 1 and is_seg(emitted(self)[0])")
c = method('command_seq', serves=('C06', 'C01', 'C05'))
c.ensures('nested-commands-are-parsed-one-level-down', "(ghost('nesting_at_last_phrase') is None or ghost('nesting_at_last_phrase') == old(self._nesting) + 1) and self._nesting == old(self._nesting)")


# ---- matrix operands (C15 templates)
MP = 'bardolph/parser/matrix_parser.py'


def sub(cls_mod, cls_name, meth, first=None, serves=('C06',), uses=('parser',), extra=None, **pk):
    c = contract(cls_mod, '%s.%s' % (cls_name, meth), serves=list(serves), uses=uses, name='%s.%s%s' % (cls_name, meth, ('[%s]' % (first,)) if first else ''))
    def _setup(b, case):
        tok = PL.concrete_token(b.I, first[0], first[1]) if isinstance(first, tuple) else (PL.concrete_token(b.I, first) if first else None)
        pr = PL.parser(b, first_token=tok, **pk)
        dotted = cls_mod[:-3].replace('/', '.')
        sp = b.new((dotted, cls_name), pr)
        d = {'self': sp, '_p': pr}
        if extra:
            d.update(extra(b, pr))
        return d
    c.setup(_setup)
    c.ensures('accept-or-message', 'result is True or (falsy(result) and errs() > old(errs()))')
    c.ensures('no-message-when-accepted', 'result is True ==> errs() == old(errs())')
    return c


ROWCOL = {'FIRST_ROW': 'row', 'LAST_ROW': 'row', 'FIRST_COLUMN': 'column', 'LAST_COLUMN': 'column'}
c = sub(MP, 'MatrixParser', '_inline_operand', serves=('C06', 'C15'), in_matrix=True)
c.ensures('starts-a-stage', "result is True ==> instr(emitted(_p)[0], 'MOVEQ', Operand.MATRIX, Register.OPERAND)")
c.ensures('all-four-range-registers-are-set-for-every-stage',
          "result is True ==> sets_register(emitted(_p), Register.FIRST_ROW) and sets_register(emitted(_p), Register.LAST_ROW) "
          "and sets_register(emitted(_p), Register.FIRST_COLUMN) and sets_register(emitted(_p), Register.LAST_COLUMN)")
c.ensures('no-wait-no-action', "result is True ==> no_instr(emitted(_p), 'WAIT') and no_instr(emitted(_p), 'COLOR')")

for first in ('ROW', 'COLUMN', 'BEGIN'):
    c = sub(MP, 'MatrixParser', 'matrix_spec', first, serves=('C06', 'C15'), in_matrix=False)
    c.ensures('one-matrix-one-end', "result is True ==> instr(emitted(_p)[0], 'MATRIX') and instr(emitted(_p)[-1], 'END', Operand.MATRIX) and no_instr(emitted(_p)[1:-1], 'MATRIX')")
    if first != 'BEGIN':
        c.ensures('one-line-form-is-a-single-stage', "result is True ==> instr(emitted(_p)[-2], 'COLOR') and no_instr(emitted(_p)[:-2], 'COLOR')")
    else:
        c.ensures('block-form-stages-come-from-the-block', "result is True ==> len(emitted(_p)) == 3 and is_seg(emitted(_p)[1], 'command')")

c = sub(MP, 'MatrixParser', '_block_operand', 'BEGIN', serves=('C06', 'C15'), in_matrix=True)
c.ensures('no-nesting', 'falsy(result)')

# ---- repeat
LP = 'bardolph/parser/loop_parser.py'
c = contract(LP, 'LoopParser.repeat', serves=['C06', 'C05', 'C04', 'C01'], uses=('parser',), name='LoopParser.repeat')
def _setup(b, case):
    pr = PL.parser(b, first_token=PL.concrete_token(b.I, 'REPEAT'))
    lp = b.new(('bardolph.parser.loop_parser', 'LoopParser'), pr)
    b.ghost('breaks_fixed', 0)
    return {'self': lp, 'code_gen': pr.attrs['_code_gen'], 'context_stack': pr.attrs['_context'], '_p': pr}
c.setup(_setup)
c.ensures('accept-or-message', 'result is True or (falsy(result) and errs() > old(errs()))')
c.ensures('no-message-when-accepted', 'result is True ==> errs() == old(errs())')
c.ensures('loop-frame-opened-first-closed-last', "result is True ==> instr(emitted(_p)[0], 'LOOP') and instr(emitted(_p)[-1], 'END_LOOP') "
          "and no_instr(emitted(_p)[1:-1], 'LOOP') and no_instr(emitted(_p)[1:-1], 'END_LOOP')")
c.ensures('breaks-leave-through-the-loops-exit-point', "result is True ==> ghost('breaks_fixed') == 1 and jump_targets(_p, 'IF_FALSE', ghost('break_target'))")
c.ensures('exit-point-leads-straight-to-this-loops-end-loop', "result is True ==> exit_sequence_ok(_p, ghost('break_target'))")
# a loop over lights, groups or locations has pushed their names: what a break left unvisited is popped before END_LOOP,
# or an enclosing loop would take the leftovers for its own names
c.ensures('names-a-break-left-unvisited-are-popped',
          "result is True and self._loop_type in (_LoopType.ALL, _LoopType.LIST, _LoopType.GROUPS, _LoopType.LOCATIONS) ==> exit_sequence_pops(_p, ghost('break_target'))")
c.ensures('back-jump-lands-on-the-test', "result is True ==> instr(emitted(_p)[-2], 'JUMP', JumpCondition.ALWAYS) and emitted(_p)[-2].param1 < 0")
c.ensures('loop-context-popped', 'result is True ==> len(context_stack._loop_stack) == len(old(context_stack._loop_stack))')


# ---- the sources of `repeat in ...` / `repeat all`: used through the family contract inside LoopParser.repeat, its own body here
for lt in ('LIST', 'ALL'):
    c = contract(LP, 'LoopParser._pre_loop_list', serves=['C06', 'C04', 'C05'], uses=('parser',), name='LoopParser._pre_loop_list[%s]' % lt)
    def _setup(b, case, lt=lt):
        pr = PL.parser(b)
        lp = b.new(('bardolph.parser.loop_parser', 'LoopParser'), pr)
        lp.attrs['_loop_type'] = b.module('bardolph.parser.loop_parser').ns['_LoopType'].members[lt]
        return {'self': lp, 'code_gen': pr.attrs['_code_gen'], 'context_stack': pr.attrs['_context'], '_p': pr}
    c.setup(_setup)
    c.ensures('accept-or-message', 'result is True or (falsy(result) and errs() > old(errs()))')
    c.ensures('no-message-when-accepted', 'result is True ==> errs() == old(errs())')

# ---- Parser.parse: every compile starts afresh (C17) and ends in accept or a message (C06)
for pre in ('UNKNOWN', 'EOF', 'NAME'):
    c = contract(P, 'Parser.parse', serves=['C06', 'C17', 'C05'], uses=('parser', 'dispatch'), name='Parser.parse[cursor was on %s]' % pre)
    def _setup(b, case, pre=pre):
        pr = PL.parser(b, first_token=PL.concrete_token(b.I, pre, 'x' if pre == 'NAME' else ''))
        pr.attrs['_error_output'] = b.sym('str', 'old_errors')
        b.ghost('runtime_loaded', 0)
        rt = b.I.load_module('bardolph.runtime.i_runtime').ns['Runtime']
        from pyvc.values import Opaque, PyDict
        lib.provide(b, rt, Opaque('runtime', {'get_fns': lambda I_, o, a, k: PyDict()}))
        return {'self': pr, 'input_string': b.sym('str', 'text')}
    c.setup(_setup)
    c.ensures('accept-or-message', 'result is True or (falsy(result) and errs() > old(errs()))')
    c.ensures('no-message-when-accepted', 'result is True ==> errs() == old(errs())')
    c.ensures('cursor-starts-on-the-first-token-of-the-new-text', 'tokens_consumed() >= 1')
    c.ensures('top-level-commands-are-at-nesting-0', "self._nesting == 0 and (ghost('nesting_at_last_phrase') is None or ghost('nesting_at_last_phrase') == 0)")
    c.ensures('code-generator-and-context-were-cleared', "ghost('cleared') is not None and len(ghost('cleared')) >= 2")

# ---- every compile makes the built-in functions known again (Context.clear wiped them), however often this compiler ran
c = contract(P, 'parse_twice', serves=['C17', 'C06'], uses=('parser', 'dispatch'), name='lemma:parse(t1); parse(t2) on one compiler', src='''
def parse_twice(self, t1, t2, builtins_made_known):
    self.parse(t1)
    loaded_by_first = builtins_made_known()
    self.parse(t2)
    return (loaded_by_first, builtins_made_known())
''')
def _setup(b, case):
    from pyvc.values import Opaque, PyDict, Builtin
    pr = PL.parser(b, first_token=PL.concrete_token(b.I, 'EOF'))
    b.ghost('runtime_loaded', 0)
    rt = b.I.load_module('bardolph.runtime.i_runtime').ns['Runtime']
    def get_fns(I_, o, a, k):
        I_.ghost['runtime_loaded'] = I_.ghost['runtime_loaded'] + 1
        return PyDict()
    lib.provide(b, rt, Opaque('runtime', {'get_fns': get_fns}))
    return {'self': pr, 't1': b.sym('str', 'text1'), 't2': b.sym('str', 'text2'),
            'builtins_made_known': Builtin('builtins_made_known', lambda I_, a, k: I_.ghost['runtime_loaded'])}
c.setup(_setup)
c.ensures('the-built-ins-are-made-known-at-every-compile', 'result[0] == 1 and result[1] == 2')

c = method('next_token', serves=('C06',), progress=False)
c.ensures('advances-unless-at-the-end', "result is True and not old(self._current_token._token_type is TokenTypes.EOF) ==> tokens_consumed() == old(tokens_consumed()) + 1")

c = contract(P, 'Parser.trigger_error', serves=['C06'], name='Parser.trigger_error')
def _setup(b, case):
    pr = PL.parser(b)
    pr.attrs['_error_output'] = b.sym('str', 'earlier_messages')
    return {'self': pr, 'message': b.sym('str', 'msg')}
c.setup(_setup)
c.ensures('rejects', 'result is False')
c.ensures('message-names-the-line', "self._error_output == old(self._error_output) + '{}\\n'.format('Line {}: {}'.format(self._current_token._line_number, message))")


# ---- ScriptJob: what the compile returned is what the job holds: a rejected text leaves NO program to run, whatever
#      the job compiled before (the parser is abstract here: Parser.parse is verified above)
SJ = 'bardolph/controller/script_job.py'
def _script_job(b, prior):
    from pyvc.values import Opaque, PyObj, PyList
    accepted = b.sym('bool', 'accepted')
    prog = PyList([b.sym('int', 'some_instruction')])
    stale = PyList([b.sym('int', 'earlier_instruction')])
    calls = b.ghost('parser_calls', PyList())
    def parse(I_, o, a, k):
        calls.items.append(('parse', a[0]))
        # the parser reuses its code generator's list: after a rejection it holds the half-compiled text
        return True if I_.branch(accepted.t, 'accepted') else (False if I_.branch(b.sym('bool', 'false_not_none').t) else None)
    parser = Opaque('parser', {'parse': parse, 'parse_file': parse, 'get_program': lambda I_, o, a, k: prog,
                               'get_errors': lambda I_, o, a, k: I_.fresh('str', 'messages')})
    sj = PyObj(b.cls('bardolph.controller.script_job', 'ScriptJob'),
               {'_program': {'none': None, 'stale': stale}[prior], '_parser': parser, '_machine': None})
    return sj, prog, accepted


for meth, arg in (('load_string', 'input_string'), ('load_file', 'file_name')):
    for prior in ('none', 'stale'):
        c = contract(SJ, 'ScriptJob.' + meth, serves=['C06', 'C17'], name='ScriptJob.%s[earlier program: %s]' % (meth, prior))
        def _setup(b, case, prior=prior, arg=arg):
            sj, prog, accepted = _script_job(b, prior)
            return {'self': sj, arg: b.sym('str', 'text'), '_prog': prog, '_accepted': accepted}
        c.setup(_setup)
        c.ensures('accepted-text-yields-the-compiled-program', '_accepted ==> self._program is _prog and result is _prog')
        c.ensures('rejected-text-leaves-nothing-to-run', 'not _accepted ==> (self._program is None or len(self._program) == 0) and result is self._program')
        c.ensures('compiles-exactly-this-text-once', "len(ghost('parser_calls')) == 1 and ghost('parser_calls')[0][1] is %s" % arg)


# ---- thin dispatch methods: each hands over to its sub-parser and passes its verdict on
for meth, first, tag in (('_print', 'PRINT', 'command'), ('_println', 'PRINTLN', 'command'), ('_printf', 'PRINTF', 'printf')):
    c = method(meth, first, serves=('C06', 'C19'))
    c.name += ' (dispatch)'
    if meth == '_printf':
        c.ensures('one-printf-phrase', "result is True ==> len(emitted(self)) == 1 and is_seg(emitted(self)[0], 'printf')")


# ---- `with v from A to B`: both bounds are values of the state BEFORE the loop variable is set (B may mention v's old value)
LPP = 'bardolph/parser/loop_parser.py'
for ltype in ('WITH', 'COUNTED'):
    c = sub(LPP, 'LoopParser', '_index_var_range', serves=('C06', 'C04', 'C02'),
            extra=lambda b, pr, ltype=ltype: {'code_gen': pr.attrs['_code_gen']})
    c.name += '[%s]' % ltype
    def _setup2(b, case, ltype=ltype, inner=c.setup_fn):
        d = inner(b, case)
        lp = d['self']
        lp.attrs['_loop_type'] = b.enum('bardolph.parser.loop_parser', '_LoopType', ltype)
        lp.attrs['_index_var'] = b.sym('str', 'index_var')
        d['_v'] = lp.attrs['_index_var']
        return d
    c.setup(_setup2)
    c.ensures('both-bounds-first-then-the-variable',
              "result is True ==> is_seg(emitted(_p)[0], 'value') and is_seg(emitted(_p)[1], 'value') and instr(emitted(_p)[2], 'MOVE', LoopVar.FIRST) "
              "and emitted(_p)[2].param1 == _v and no_instr(emitted(_p)[3:], 'MOVE')")


# ---- parse_file: the verdict of compiling the file's text (falsy for a rejected text, a missing or unreadable file), so that
#      ScriptJob.load_file never takes the half-built code of a rejected file for a program
for outcome in ('compiles', 'rejected', 'missing', 'unreadable'):
    c = contract(P, 'Parser.parse_file', serves=['C06', 'C20', 'C17'], name='Parser.parse_file[%s]' % outcome)
    def _setup(b, case, outcome=outcome):
        from pyvc.values import Opaque, PyList, Builtin
        pr = PL.parser(b)
        text = b.sym('str', 'file_text')
        parsed = b.ghost('parsed', PyList())
        verdict = {'compiles': True, 'rejected': False}.get(outcome)
        pr.attrs['parse'] = Builtin('parse', lambda I_, a, k: (parsed.items.append(a[0]), verdict)[1])
        pr.attrs['_code_gen'].attrs['_code'] = PyList([b.sym('int', 'half_built_instruction')])     # what a rejected compile leaves behind
        def _open(I_, a, k):
            if outcome == 'missing':
                I_.raise_builtin('FileNotFoundError', 'no such file')
            if outcome == 'unreadable':
                I_.raise_builtin('OSError', 'permission denied')
            return Opaque('file', {'read': lambda I2, o, a2, k2: text, 'close': lambda I2, o, a2, k2: None,
                                   '__enter__': lambda I2, o, a2, k2: o, '__exit__': lambda I2, o, a2, k2: None})
        b.ghost('open', _open)
        return {'self': pr, 'file_name': b.sym('str', 'file_name'), '_text': text}
    c.setup(_setup)
    c.crosscheck = False
    if outcome == 'compiles':
        c.ensures('truthy-and-compiled-exactly-this-text', "not falsy(result) and len(ghost('parsed')) == 1 and ghost('parsed')[0] is _text")
    else:
        c.ensures('falsy', 'falsy(result)')
