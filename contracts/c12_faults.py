"""C12: device faults and wrong-type targets never abort a script or disturb others.

Fault model: every request to a lifxlan device stub either is performed or raises WorkflowException,
independently at every call (a fresh nondeterministic choice), so each contract covers every assignment of
fail/succeed to the individual requests.  Ghost `attempts` counts requests that reached the network layer,
ghost Dev the requests that were performed.
"""
from pyvc.spec import contract
from pyvc.values import PyObj, PyDict, PyList, Opaque
from pyvc.interp import PyRaise
from . import lib

LL = 'bardolph/controller/lifx_lan_light.py'
M = 'bardolph/vm/machine.py'


def one_light(b, kind='plain', fail=True, **extra):
    impl = lib.device(b, 'dev', fail=fail)
    light = lib.lifx_light(b, kind, impl, 'L', **extra)
    return light, impl


# ---- the retry decorator on every device-touching wrapper: at most three attempts, then give up with a log entry
WRAPPERS = [('Light.set_color', 'plain', lambda b: [PyList([b.sym('int', 'c%d' % i) for i in range(4)]), b.sym('int', 'dur')], None),
            ('Light.set_power', 'plain', lambda b: [b.sym('int', 'p'), b.sym('int', 'dur')], None),
            ('Light.get_color', 'plain', lambda b: [], 'fail-value'),
            ('Light.get_power', 'plain', lambda b: [], None),
            ('MultizoneLight.set_zone_colors', 'multizone', lambda b: [b.sym('int', 'z0'), b.sym('int', 'z1'), PyList([b.sym('int', 'c%d' % i) for i in range(4)]), b.sym('int', 'dur')], None),
            ('MultizoneLight.get_zone_colors', 'multizone', lambda b: [], None),
            ('MatrixLight.set_matrix', 'matrix', lambda b: [Opaque('matrix', {'get_colors': lambda I_, o, a, k: PyList([PyList([1, 2, 3, 4])])}), b.sym('int', 'dur')], None)]
for qn, kind, mkargs, fv in WRAPPERS:
    c = contract(LL, qn, serves=['C12'], name=qn + '[faulty device]')
    def _setup(b, case, kind=kind, mkargs=mkargs):
        light, impl = one_light(b, kind, _num_zones=3) if kind == 'multizone' else (one_light(b, kind, _height=1, _width=1) if kind == 'matrix' else one_light(b, kind))
        b.ghost('attempts', 0)
        d = {'self': light}
        for i, a in enumerate(mkargs(b)):
            d['a%d' % i] = a
        return d
    c.setup(_setup)
    c.ensures('at-most-three-attempts', "1 <= ghost('attempts') <= 3")
    c.ensures('stops-at-the-first-answer', "len(ghost('Dev')) <= 1 and (len(ghost('Dev')) == 1 ==> log_count('warning') == ghost('attempts') - 1)")
    c.ensures('abandoned-with-a-log-entry', "len(ghost('Dev')) == 0 ==> ghost('attempts') == 3 and log_count('warning') == 4")
    if fv == 'fail-value':
        c.ensures('fail-value', "len(ghost('Dev')) == 0 ==> result == [-1, -1, -1, -1]")

c = contract(LL, 'Light.set_power', serves=['C12'], name='Light.set_power[other exception propagates]')
def _setup(b, case):
    light, impl = one_light(b, 'plain', fail='other')
    b.ghost('attempts', 0)
    return {'self': light, 'power': 65535, 'duration': 0}
c.setup(_setup)
c.raises('ValueError', ('single-attempt', "ghost('attempts') == 1"))
c.ensures('unreachable', 'False')

# ---- handlers: unknown names, capability mismatches, silent devices never raise; others get their commands
def handler_case(name, setup, clauses, serves=('C12', 'C01')):
    c = contract(M, 'Machine.' + name.split('[')[0], serves=list(serves), name='Machine.' + name)
    c.setup(setup)
    for cid, text in clauses:
        c.ensures(cid, text)
    return c


def machine_with(b, lights, groups=None, mode='LOGICAL'):
    ls = lib.light_set_with(b, lights, groups=groups)
    m = lib.machine(b, mode, ls)
    lib.sym_regs(b, m, 'real', ('hue', 'saturation', 'brightness', 'kelvin', 'duration'))
    return m


UNKNOWN = [('no-request', "len(ghost('Dev')) == 0"), ('logged', 'log_count() >= 1')]
for h in ('_color_light', '_power_light', '_get_color', '_color_mz_light', '_color_matrix_light', '_color_group',
          '_color_location', '_power_group', '_power_location', '_matrix'):
    def _setup(b, case):
        light, impl = one_light(b, 'plain', fail=False)
        m = machine_with(b, {'L': light}, groups={'G': ['L']})
        # ANY text nobody is known under (a name is data: it may contain braces, quotes, blanks)
        nm = b.sym('str', 'unknown_name')
        if hasattr(nm, 't'):
            b.assume(nm.t != 'L')
            b.assume(nm.t != 'G')
        elif nm in ('L', 'G'):
            nm = 'nobody ' + nm
        m.attrs['_reg'].attrs['name'] = nm
        m.attrs['_reg'].attrs['first_zone'] = 0
        m.attrs['_reg'].attrs['matrix'] = lib.color_matrix(b, 1, 1, [None])
        return {'self': m}
    handler_case(h + '[unknown name]', _setup, UNKNOWN)

# capability mismatches
for h, kind in (('_color_mz_light', 'plain'), ('_color_mz_light', 'matrix'), ('_color_matrix_light', 'plain'),
                ('_color_matrix_light', 'multizone'), ('_get_color', 'multizone'), ('_get_color', 'matrix'), ('_matrix', 'plain')):
    def _setup(b, case, kind=kind):
        extra = {'_num_zones': 3} if kind == 'multizone' else {'_height': 2, '_width': 2} if kind == 'matrix' else {}
        light, impl = one_light(b, kind, fail=False, **extra)
        m = machine_with(b, {'L': light})
        r = m.attrs['_reg'].attrs
        r['name'] = 'L'
        r['first_zone'], r['last_zone'] = 0, 1
        r['matrix'] = lib.color_matrix(b, 1, 1, [None])
        return {'self': m}
    handler_case('%s[%s light lacks the capability]' % (h, kind), _setup, UNKNOWN)

# a silent member of a group does not disturb the others
for h, meth in (('_color_group', 'set_color'), ('_power_group', 'set_power')):
    def _setup(b, case):
        i1, i2 = lib.device(b, 'dev1', fail=True), lib.device(b, 'dev2', fail=False)
        l1, l2 = lib.lifx_light(b, 'plain', i1, 'a'), lib.lifx_light(b, 'plain', i2, 'b')
        m = machine_with(b, {'a': l1, 'b': l2}, groups={'G': ['a', 'b']})
        m.attrs['_reg'].attrs['name'] = 'G'
        m.attrs['_reg'].attrs['power'] = True
        b.ghost('attempts', 0)
        return {'self': m, '_i1': i1, '_i2': i2}
    c = handler_case(h + '[first member silent or not]', _setup, [])
    c.define('D', "ghost('Dev')")
    c.ensures('the-other-member-gets-exactly-its-command',
              "(len(D) == 1 and same(D[0][0], _i2) and D[0][1] == '%s') or (len(D) == 2 and same(D[0][0], _i1) and same(D[1][0], _i2) and D[1][1] == '%s' and D[0][2] == D[1][2] and D[0][3] == D[1][3])" % (meth, meth))
    c.ensures('bounded-attempts', "ghost('attempts') <= 4")

# ---- discovery through the real LifxLanApi: a silent device makes get_lights raise LightException only
LA = 'bardolph/controller/lifx_lan_api.py'
for feat, nm in (({}, 'plain'), ({'multizone': True}, 'multizone')):
    c = contract(LA, 'LifxLanApi.get_lights', serves=['C12'], unwrap=1, name='LifxLanApi.get_lights[%s device, faults anywhere]' % nm)
    def _setup(b, case, feat=feat):
        impl = lib.device(b, 'dev', fail=True, features=feat)
        stub = Opaque('lifxlan', methods={'get_lights': lambda I_, o, a, k: PyList([impl])})
        api = PyObj(b.cls('bardolph.controller.lifx_lan_api', 'LifxLanApi'), {'_lifxlan': stub})
        settings = Opaque('settings', {'get_value': lambda I_, o, a, k: None})
        b.ghost('attempts', 0)
        return {'self': api, 'settings': settings}
    c.setup(_setup)
    c.raises('LightException')
    c.ensures('one-proxy', 'len(result) == 1')
    if nm == 'multizone':
        # round 9: a strip is listed only if it ANSWERED the question for its zones (whatever value the wrapper gives up with);
        # otherwise the discovery fails and the caller keeps what it knew
        c.ensures('a-strip-is-listed-only-with-the-zones-it-reported',
                  "len([d for d in ghost('Dev') if d[1] == 'get_color_zones']) == 1 and result[0].get_num_zones() == 3")


# ---- which proxy a discovered device gets: by its product features (a plain bulb must not be addressed as a strip)
for feat, cname in (({}, 'Light'), ({'multizone': True}, 'MultizoneLight'), ({'matrix': True}, 'MatrixLight'), ({'multizone': False, 'matrix': False}, 'Light')):
    c = contract(LA, 'LifxLanApi._build_light', serves=['C12', 'C13', 'C07', 'C15'], name='LifxLanApi._build_light[features %r]' % (feat,))
    def _setup(b, case, feat=feat):
        impl = lib.device(b, 'dev', fail=False, features=feat)
        impl.methods['req_with_resp'] = lambda I_, o, a, k: Opaque('chain', attrs={'tile_devices': PyList([PyDict({'width': 5, 'height': 6})]), 'start_index': 0})
        api = PyObj(b.cls('bardolph.controller.lifx_lan_api', 'LifxLanApi'), {'_lifxlan': None})
        return {'self': api, 'impl': impl}
    c.setup(_setup)
    c.ensures('the-proxy-class-its-features-call-for', "typename(result) == %r and result._impl is impl" % cname)

# ---- the retry budget is per request: a request that was abandoned does not eat the attempts of the next one
c = contract(LL, 'two_requests', serves=['C12'], name='lemma:two requests through the same wrapper', src='''
def two_requests(light, count_reset):
    light.set_power(65535, 0)
    first = count_reset()
    light.set_power(0, 0)
    return first
''')
def _setup(b, case):
    from pyvc.values import Builtin
    light, impl = one_light(b, 'plain', fail=True)
    b.ghost('attempts', 0)
    def count_reset(I_, a, k):
        n = I_.ghost['attempts']
        I_.ghost['attempts'] = 0
        I_.ghost['Dev'].items.clear()
        return n
    return {'light': light, 'count_reset': Builtin('count_reset', count_reset)}
c.setup(_setup)
c.ensures('first-request', '1 <= result <= 3')
c.ensures('second-request-has-its-own-three-attempts', "1 <= ghost('attempts') <= 3 and (len(ghost('Dev')) == 0 ==> ghost('attempts') == 3)")


# ---- every discovery reports each device as it answers NOW: name, group and location as last reported, and a proxy
#      born at this discovery (expiry measures the time since a light was last seen)
c = contract(LA, 'get_lights_twice', serves=['C13', 'C12'], name='lemma:get_lights; the device is renamed and regrouped; get_lights', src='''
def get_lights_twice(api, settings):
    import time as _t
    first = LifxLanApi.get_lights.__wrapped__(api, settings)
    t1 = _t.time()
    second = LifxLanApi.get_lights.__wrapped__(api, settings)
    return (first, second, t1)
''')
def _setup(b, case):
    impl = lib.device(b, 'dev', fail=False, features={})
    def reporting(what):
        def f(I_, o, a, k):
            v = I_.fresh('str', what)
            I_.ghost['last_' + what] = v
            return v
        return f
    impl.methods.update(get_label=reporting('label'), get_group=reporting('group'), get_location=reporting('location'),
                        get_mac_addr=lambda I_, o, a, k: 'd0:73:d5:00:00:01')
    stub = Opaque('lifxlan', methods={'get_lights': lambda I_, o, a, k: PyList([impl])})
    api = PyObj(b.cls('bardolph.controller.lifx_lan_api', 'LifxLanApi'), {'_lifxlan': stub})
    settings = Opaque('settings', {'get_value': lambda I_, o, a, k: None})
    b.ghost('attempts', 0)
    return {'api': api, 'settings': settings}
c.setup(_setup)
c.ensures('as-last-reported', "len(result[1]) == 1 and result[1][0].get_name() == ghost('last_label') and result[1][0].get_group() == ghost('last_group') "
          "and result[1][0].get_location() == ghost('last_location')")
c.ensures('seen-again-means-born-again', 'result[1][0]._birth >= result[2]')


# ---- round 9 (C01): an action on a group / location is the same action on each of ITS members - also when a group and a location
#      share a name and are addressed one after the other in one run (a per-run memo of member lists keyed by the name alone would
#      hand the group's lights to the location)
c = contract(M, 'group_then_location_of_the_same_name', serves=['C01'],
             name='lemma:set group N; set location N; off location N; on group N (same name, different members)', src='''
def group_then_location_of_the_same_name(self):
    self._color_group()
    self._color_location()
    self._power_location()
    self._power_group()
''')
def _setup(b, case):
    i1, i2 = lib.device(b, 'dev1', fail=False), lib.device(b, 'dev2', fail=False)
    l1, l2 = lib.lifx_light(b, 'plain', i1, 'a'), lib.lifx_light(b, 'plain', i2, 'b')
    ls = lib.light_set_with(b, {'a': l1, 'b': l2}, groups={'N': ['a']}, locations={'N': ['b']})
    m = lib.machine(b, 'LOGICAL', ls)
    lib.sym_regs(b, m, 'real', ('hue', 'saturation', 'brightness', 'kelvin', 'duration'))
    m.attrs['_reg'].attrs['name'] = 'N'
    m.attrs['_reg'].attrs['power'] = True
    return {'self': m, '_i1': i1, '_i2': i2}
c.setup(_setup)
c.define('D', "ghost('Dev')")
c.ensures('each-command-reaches-the-members-of-the-set-it-names',
          "len(D) == 4 and same(D[0][0], _i1) and D[0][1] == 'set_color' and same(D[1][0], _i2) and D[1][1] == 'set_color' "
          "and same(D[2][0], _i2) and D[2][1] == 'set_power' and same(D[3][0], _i1) and D[3][1] == 'set_power'")
