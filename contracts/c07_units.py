"""Contracts for bardolph/controller/units.py and bardolph/lib/noneable.py (C07, C10, C14).

Formulas are those of the property statement: hue_raw = ((deg mod 360)/360)*65535,
sat/bri_raw = pct/100*65535, ms = s*1000, kelvin unchanged.  The code snaps values within
_EPSILON = 2**-17 of 0 (and hue within 2**-17 of 360) to exactly 0; the clauses therefore
state equality up to that snap, and the *transmitted* (rounded, clamped) value is required to
be exactly the statement's nearest integer in the end-to-end clauses of c07_machine.py.
"""
from pyvc.spec import contract, Scalar, ListOf, Const, Enum

NUM = [Scalar('int'), Scalar('real')]
NONE = Const(None, 'None')
U = 'bardolph/controller/units.py'
EPS = '(1/131072)'

c = contract(U, 'time_raw', serves=['C07', 'C10', 'C14'])
c.arg('logical_time', *NUM, NONE)
c.ensures('none', 'is_none(logical_time) ==> is_none(result)')
c.ensures('ms', 'not is_none(logical_time) ==> result == logical_time * 1000')

c = contract(U, 'time_logical', serves=['C10', 'C14'])
c.arg('raw_time', *NUM, NONE)
c.ensures('none', 'is_none(raw_time) ==> is_none(result)')
c.ensures('s', 'not is_none(raw_time) ==> (result == real(raw_time) / 1000 or (result == 0 and abs(real(raw_time)) < %s))' % EPS)
c.ensures('zero', 'not is_none(raw_time) and raw_time == 0 ==> result == 0')

c = contract(U, '_pct_to_raw', serves=['C07'])
c.arg('pct', *NUM, NONE)
c.ensures('none', 'is_none(pct) ==> is_none(result)')
c.ensures('formula', 'not is_none(pct) ==> (result == real(pct) / 100 * 65535 or (result == 0 and abs(real(pct)) < %s))' % EPS)
c.ensures('sent-is-nearest', 'not is_none(pct) ==> round_he(clamp(result, 0, 65535)) == round_he(clamp(real(pct) / 100 * 65535, 0, 65535))')

COLORS = [ListOf(['real'] * 4), ListOf(['int'] * 4), ListOf(['real', 'int', 'int', 'int'])]

c = contract(U, 'logical_to_raw', serves=['C07', 'C14'])
c.arg('logical_color', *COLORS, NONE)
c.ensures('none', 'is_none(logical_color) ==> is_none(result)')
c.ensures('hue', 'not is_none(logical_color) ==> (result[0] == fmod(logical_color[0], 360) / 360 * 65535 '
          'or (result[0] == 0 and (abs(real(logical_color[0])) < %s or abs(real(logical_color[0]) - 360) < %s)))' % (EPS, EPS))
c.ensures('hue-sent', 'not is_none(logical_color) ==> hue_same(round_he(clamp(result[0], 0, 65535)), '
          'round_he(clamp(fmod(logical_color[0], 360) / 360 * 65535, 0, 65535)))')
for i, nm in ((1, 'saturation'), (2, 'brightness')):
    c.ensures(nm + '-sent', 'not is_none(logical_color) ==> round_he(clamp(result[%d], 0, 65535)) == '
              'round_he(clamp(real(logical_color[%d]) / 100 * 65535, 0, 65535))' % (i, i))
c.ensures('kelvin', 'not is_none(logical_color) ==> result[3] == logical_color[3]')
c.ensures('len', 'not is_none(logical_color) ==> len(result) == 4')

c = contract(U, 'raw_to_logical', serves=['C07', 'C14'])
c.arg('raw_color', *COLORS, NONE)
c.requires('raw-range', 'is_none(raw_color) or (0 <= raw_color[0] <= 65535 and 0 <= raw_color[1] <= 65535 '
           'and 0 <= raw_color[2] <= 65535 and 0 <= raw_color[3])')
c.ensures('none', 'is_none(raw_color) ==> is_none(result)')
c.ensures('hue', 'not is_none(raw_color) ==> result[0] == real(raw_color[0]) / 65535 * 360')
c.ensures('sat', 'not is_none(raw_color) ==> result[1] == real(raw_color[1]) / 65535 * 100')
c.ensures('bri', 'not is_none(raw_color) ==> result[2] == real(raw_color[2]) / 65535 * 100')
c.ensures('kelvin', 'not is_none(raw_color) ==> result[3] == raw_color[3]')

# conversion table
UM = lambda m: Enum('bardolph.controller.units', 'UnitMode', m)
c = contract(U, 'convert_fn', serves=['C07', 'C14', 'C15'])
c.arg('srce_type', UM('LOGICAL'), UM('RAW'), UM('RGB'))
c.arg('dest_type', UM('LOGICAL'), UM('RAW'), UM('RGB'))
c.ensures('table', 'same(result, unit_converter(srce_type, dest_type))')
