"""bisect.bisect_left / bisect_right / insort_left / insort_right: the pure-Python reference implementation in the
bisect.py of the interpreter that runs the repo (read from its own source file on every run, like colorsys), against
the partition-point contract that `contracts/lib.py` hands to the callers in bardolph/lib/sorted_list.py.

What this discharges: the contract that used to be *assumed* for `bisect` holds for the reference implementation, for
sequences of any length (inductive loop invariant + variant).  What stays assumed: the C accelerator `_bisect`,
which replaces these definitions at import time in CPython, computes the same function as this reference.
Elements are atoms of a total order (used only through < and ==), `key` is None, `lo`/`hi` are the defaults -
the only way bardolph calls them.
"""
import z3
from pyvc.spec import contract
from pyvc.values import Builtin
from pyvc.ops import to_term, mk
from pyvc import spec
from .c13_sorted_list import _seq
from . import lib

B = 'stdlib:bisect_py'


def install(I):
    F = I.spec_fns

    def sorted_weak(I_, a, k):
        arr, n = _seq(I_, a[0])
        i, j = z3.Ints('i!sw j!sw')
        return mk(z3.ForAll([i, j], z3.Implies(z3.And(0 <= i, i < j, j < n), z3.Select(arr, i) <= z3.Select(arr, j))), 'bool')
    F['sorted_weak'] = Builtin('spec.sorted_weak', sorted_weak)

    def rng(op, tag):
        def f(I_, a, k):
            """all_<op>(seq, i, j, x): every element at an index in [i, j) stands in relation <op> to x"""
            arr, n = _seq(I_, a[0])
            lo, hi, x = to_term(a[1], 'int'), to_term(a[2], 'int'), to_term(a[3], 'int')
            kq = z3.Int('k!' + tag)
            return mk(z3.ForAll([kq], z3.Implies(z3.And(lo <= kq, kq < hi), op(z3.Select(arr, kq), x))), 'bool')
        return Builtin('spec.all_' + tag, f)
    F['all_lt'] = rng(lambda e, x: e < x, 'lt')
    F['all_le'] = rng(lambda e, x: e <= x, 'le')
    F['all_gt'] = rng(lambda e, x: e > x, 'gt')
    F['all_ge'] = rng(lambda e, x: e >= x, 'ge')


spec.EXTRA_INSTALLERS.append(install)


def _setup(b, case):
    return {'a': b.seq('atom', 'a'), 'x': b.sym('atom', 'x')}


NOTE = ('CPython replaces these definitions by the C accelerator _bisect at import time; that it computes the same '
        'function as the reference implementation verified here is assumed')

c = contract(B, 'bisect_left', serves=['C13', 'C04'], name='bisect.bisect_left [reference implementation]')
c.setup(_setup)
c.requires('sorted', 'sorted_weak(a)')
c.loop(0, [('bounds', '0 <= lo and lo <= hi and hi <= len(a)'),
           ('left-part-below', 'all_lt(a, 0, lo, x)'),
           ('right-part-not-below', 'all_ge(a, hi, len(a), x)')], decreases='hi - lo')
c.ensures('partition-point', '0 <= result and result <= len(a) and all_lt(a, 0, result, x) and all_ge(a, result, len(a), x)')
c.ensures('pure', 'same_seq(a, old(a))')
c.assume_note(NOTE)

c = contract(B, 'bisect_right', serves=['C13', 'C04'], name='bisect.bisect_right [reference implementation]')
c.setup(_setup)
c.requires('sorted', 'sorted_weak(a)')
c.loop(0, [('bounds', '0 <= lo and lo <= hi and hi <= len(a)'),
           ('left-part-not-above', 'all_le(a, 0, lo, x)'),
           ('right-part-above', 'all_gt(a, hi, len(a), x)')], decreases='hi - lo')
c.ensures('partition-point', '0 <= result and result <= len(a) and all_le(a, 0, result, x) and all_gt(a, result, len(a), x)')
c.ensures('pure', 'same_seq(a, old(a))')
c.assume_note(NOTE)

# insort_right / insort_left (= bisect.insort): the reference text is "p = bisect_right(a, x); a.insert(p, x)".  The lemma runs
# the search, then the insertion, and states the callers' contract: x goes in at the partition point, everything else keeps
# its order, the sequence stays sorted.
for _side in ('right', 'left'):
    c = contract(B, 'insort_%s_at_partition_point' % _side, serves=['C13', 'C04'],
                 name='lemma:bisect.insort_%s inserts at the partition point [reference implementation]' % _side, src='''
def insort_%s_at_partition_point(a, x):
    p = bisect_%s(a, x)
    insort_%s(a, x)
    return p
''' % (_side, _side, _side))
    c.setup(_setup)
    c.requires('sorted', 'sorted_weak(a)')
    c.ensures('inserted-once-at-the-partition-point', 'inserted_at(a, old(a), result, x)')
    c.ensures('stays-sorted', 'sorted_weak(a)')
    c.assume_note(NOTE)
