"""No state is shared between two objects that the program builds separately (two Machines, two jobs, two compilers, two job
controllers, two clocks ...): what one job or compile does can never reach another's state.  A mutable container kept as a CLASS
attribute, a mutable default argument, or a cached instance handed to two owners all make the two object graphs meet;
`disjoint(a, b)` walks both graphs (instance attributes AND the mutable class attributes an instance falls back on) and demands
that they have no mutable object in common.  Injected collaborators are bound to constructors in these lemmas, so nothing is
meant to be shared; Settings is excluded (its configuration dictionary is shared by design)."""
from pyvc.spec import contract
from pyvc import spec
from pyvc.values import PyObj, PyList, PyDict, PySet, SymSet, Builtin, Opaque, ClassObj, PyList
from . import lib


MUTATORS = {'append', 'appendleft', 'add', 'clear', 'update', 'pop', 'popleft', 'remove', 'extend', 'insert', 'setdefault', 'discard', 'sort', 'reverse'}


def _written_somewhere(cls, name):
    """is the class attribute `name` (a container) ever written through self.<name> / <Class>.<name> in the methods of the
    class hierarchy?  A table that is only read (an operator table, a list of register names) is a constant, not state."""
    import ast as _ast
    from pyvc.values import FuncObj, StaticMethod
    for k in cls.mro():
        for fn in k.attrs.values():
            fn = getattr(fn, 'func', fn)
            node = getattr(fn, 'node', None)
            if node is None:
                continue
            for n in _ast.walk(node):
                def is_attr(x):
                    return isinstance(x, _ast.Attribute) and x.attr == name
                if isinstance(n, _ast.Call) and isinstance(n.func, _ast.Attribute) and n.func.attr in MUTATORS and is_attr(n.func.value):
                    return True
                if isinstance(n, (_ast.Assign, _ast.AugAssign, _ast.Delete)):
                    tgts = n.targets if isinstance(n, (_ast.Assign, _ast.Delete)) else [n.target]
                    for t in tgts:
                        if isinstance(t, _ast.Subscript) and is_attr(t.value):
                            return True
                        if isinstance(n, _ast.AugAssign) and is_attr(t):
                            return True
    return False


def _mutables(I, root):
    seen, out, todo = set(), {}, [(root, 'self')]
    while todo:
        v, path = todo.pop()
        if id(v) in seen:
            continue
        if isinstance(v, PyObj):
            seen.add(id(v))
            out[id(v)] = (v, path)
            for k, x in v.attrs.items():
                todo.append((x, path + '.' + k))
            for cls in v.cls.mro():             # class attributes the instance falls back on
                for k, x in cls.attrs.items():
                    if k not in v.attrs and (isinstance(x, PyObj) and not getattr(x.cls, 'is_enum', False)      # an object of a program class: stateful
                                             or isinstance(x, (PyList, PyDict, PySet, SymSet)) and _written_somewhere(v.cls, k)):
                        todo.append((x, path + '.<class %s>.%s' % (cls.name, k)))
        elif isinstance(v, PyList):
            seen.add(id(v))
            out[id(v)] = (v, path)
            for i, x in enumerate(v.items):
                todo.append((x, '%s[%d]' % (path, i)))
        elif isinstance(v, PyDict):
            seen.add(id(v))
            out[id(v)] = (v, path)
            for k, x in v.d.items():
                todo.append((x, '%s[%r]' % (path, k)))
        elif isinstance(v, (PySet, SymSet)):
            seen.add(id(v))
            out[id(v)] = (v, path)
        elif isinstance(v, tuple):
            for i, x in enumerate(v):
                todo.append((x, '%s[%d]' % (path, i)))
    return out


def install(I):
    def disjoint(I_, a, k):
        ma, mb = _mutables(I_, a[0]), _mutables(I_, a[1])
        common = [ma[i][1] for i in ma if i in mb]
        I_.ghost['shared_state'] = PyList(sorted(common))
        return not common
    I.spec_fns['disjoint'] = Builtin('spec.disjoint', disjoint)
    I.spec_fns['shared_state'] = Builtin('spec.shared_state', lambda I_, a, k: I_.ghost.get('shared_state', PyList()))


spec.EXTRA_INSTALLERS.append(install)


def _env(b):
    """production-like bindings: every collaborator is constructed per request"""
    lib.injection_reset(b)
    il = b.module('bardolph.lib.i_lib')
    ic = b.module('bardolph.controller.i_controller')
    lib.provide(b, il.ns['Clock'], lib.clock_stub(b))
    b.module('bardolph.lib.injection').ns['_providers'].d[il.ns['Clock']] = Builtin('provider', lambda I, a, k: lib.clock_stub(b))
    lib.provide(b, ic.ns['LightSet'], lib.light_set_with(b, {}))
    rt = b.module('bardolph.runtime.i_runtime').ns['Runtime']
    lib.provide(b, rt, Opaque('runtime', {'get_fns': lambda I_, o, a, k: PyDict()}))
    settings = Opaque('settings', {'get_value': lambda I_, o, a, k: (a[1] if len(a) > 1 else None)})
    lib.provide(b, il.ns['Settings'], settings)


CLASSES = [('bardolph/vm/machine.py', 'Machine', ['C17', 'C01', 'C04', 'C02', 'C19']),
           ('bardolph/vm/machine.py', 'Registers', ['C17']),
           ('bardolph/vm/eval_stack.py', 'EvalStack', ['C17', 'C02', 'C04']),
           ('bardolph/vm/call_stack.py', 'CallStack', ['C17', 'C03']),
           ('bardolph/vm/loader.py', 'Loader', ['C17', 'C05']),
           ('bardolph/parser/parse.py', 'Parser', ['C17', 'C06', 'C05']),
           ('bardolph/parser/code_gen.py', 'CodeGen', ['C17', 'C05']),
           ('bardolph/parser/context.py', 'Context', ['C17', 'C06']),
           ('bardolph/lib/symbol_table.py', 'SymbolTable', ['C17', 'C06']),
           ('bardolph/controller/script_job.py', 'ScriptJob', ['C17', 'C20', 'C08', 'C05', 'C02', 'C01']),
           ('bardolph/lib/job_control.py', 'JobControl', ['C17', 'C08', 'C09']),
           ('bardolph/lib/clock.py', 'Clock', ['C17', 'C10', 'C09']),
           ('bardolph/controller/light_set.py', 'LightSet', ['C17', 'C13']),
           ('bardolph/lib/std_out_output.py', 'StdOutOutput', ['C17', 'C19']),
           ('bardolph/lib/sorted_list.py', 'SortedList', ['C17', 'C13'])]
for path, cname, serves in CLASSES:
    c = contract(path, 'two_instances', serves=serves, name='lemma:two %s objects share no state' % cname, src='''
def two_instances():
    a = %s()
    b = %s()
    return (a, b)
''' % (cname, cname))
    c.setup(lambda b, case: (_env(b), {})[1])
    c.crosscheck = False
    c.ensures('no-mutable-object-in-common', 'disjoint(result[0], result[1])')

# a loader that has loaded one program keeps that program's routines while another loader loads another program
c = contract('bardolph/vm/loader.py', 'two_loads', serves=['C17', 'C05'], name='lemma:loader A loads f; loader B loads g; A still knows f only', src='''
def two_loads(f, g):
    a = Loader()
    a.load([Instruction(OpCode.ROUTINE, f), Instruction(OpCode.END, f), Instruction(OpCode.JSR, f)])
    b = Loader()
    b.load([Instruction(OpCode.ROUTINE, g), Instruction(OpCode.END, g), Instruction(OpCode.JSR, g)])
    return (a.get_routines(), b.get_routines(), a, b)
''')
def _setup(b, case):
    _env(b)
    f, g = b.sym('atom', 'f'), b.sym('atom', 'g')
    b.assume(f.t != g.t) if hasattr(f, 't') else None
    return {'f': f, 'g': g}
c.setup(_setup)
c.crosscheck = False
c.ensures('each-knows-its-own-routines', 'f in result[0] and not (g in result[0]) and g in result[1] and not (f in result[1]) and disjoint(result[2], result[3])')


# ---- copies: a copy shares nothing mutable with its original (the VM works on copies so that a run never writes into the program)
c = contract('bardolph/lib/time_pattern.py', 'copy_is_separate', serves=['C17', 'C11', 'C01', 'C10'], name='lemma:TimePattern.copy() shares nothing with the original', src='''
def copy_is_separate(p, q):
    p.union(q)
    d = p.copy()
    return (p, d)
''')
def _setup(b, case):
    tp = b.cls('bardolph.lib.time_pattern', 'TimePattern')
    fs = b.I.call(tp.attrs['from_string'], ['12:30'], {})
    other = b.I.call(tp.attrs['from_string'], ['1*:*5'], {})
    return {'p': fs, 'q': other}
c.setup(_setup)
# (the alternative patterns themselves may be the same objects: nothing ever writes into an alternative)
c.ensures('own-containers', 'result[1]._alternatives is not result[0]._alternatives and result[1]._hour_set is not result[0]._hour_set '
          'and result[1]._minute_set is not result[0]._minute_set and result[1].match(12, 30) and result[1].match(11, 15) and not result[1].match(12, 31)')

for cname, ctor in (('ColorMatrix', 'ColorMatrix.new_from_constant(2, 3, [1, 2, 3, 4])'), ('Routine', 'Routine("r")'), ('VmIo', None), ('VmMath', None), ('VmDiscover', None)):
    path = {'ColorMatrix': 'bardolph/controller/color_matrix.py', 'Routine': 'bardolph/controller/routine.py', 'VmIo': 'bardolph/vm/vm_io.py',
            'VmMath': 'bardolph/vm/vm_math.py', 'VmDiscover': 'bardolph/vm/vm_discover.py'}[cname]
    if ctor is None:
        ctor = '%s(CallStack(), Registers())' % cname
        pre = '    from bardolph.vm.call_stack import CallStack\n    from bardolph.vm.machine import Registers\n'
    else:
        pre = ''
    c = contract(path, 'two_instances', serves=['C17', 'C15' if cname == 'ColorMatrix' else 'C01'], name='lemma:two %s objects share no state' % cname, src='''
def two_instances():
%s    a = %s
    b = %s
    return (a, b)
''' % (pre, ctor, ctor))
    c.setup(lambda b, case: (_env(b), {})[1])
    c.crosscheck = False
    c.ensures('no-mutable-object-in-common', 'disjoint(result[0], result[1])')
