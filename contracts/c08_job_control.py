"""C08: queued jobs run one at a time, in order, exactly once, and the queue drains.

Monitor rule (DESIGN 2.8, trusted): the guarded fields (_queue, _active_agent, _background) are only accessed
while the re-entrant lock is held, except for the racy snapshots the contracts name; every method is
therefore verified sequentially from an ARBITRARY pre-state satisfying the monitor invariant
    I:  no agent occurs twice in the queue, the active agent is not queued
and must re-establish it.  Ghost `started` is the sequence of agents whose thread was started
(threading.Thread(...).start() = assumed: runs the target once, later).  Queues of ANY length (an abstract segment of queued agents; the two ends are observable),
agents and jobs are opaque objects.  Both outcomes of acquire(True, 1.0) are verified.
"""
import z3
from pyvc.spec import contract
from pyvc.values import PyObj, PyList, PyDict, Opaque, Builtin, SymVal
from pyvc.interp import PyRaise
from pyvc import spec
from . import lib

JC = 'bardolph/lib/job_control.py'


def lock_stub(b, may_fail=True):
    lk = Opaque('RLock', attrs={'depth': 0})

    def acquire(I_, o, a, k):
        # an RLock already held by this thread is re-acquired at once; otherwise the 1 s time-out may strike
        if may_fail and o.attrs['depth'] == 0 and not I_.branch(I_.fresh('bool', 'lock_acquired').t):
            I_.ghost['lock_timeouts'] = I_.ghost.get('lock_timeouts', 0) + 1
            return False
        o.attrs['depth'] += 1
        return True

    def release(I_, o, a, k):
        if o.attrs['depth'] <= 0:
            I_.raise_builtin('RuntimeError', 'cannot release un-acquired lock')
        o.attrs['depth'] -= 1
    lk.methods.update(acquire=acquire, release=release)
    lk.native = {'kind': 'generic'}
    return lk


def thread_module_hook(b):
    """threading.Thread(target=...).start() appends the bound agent to ghost `started`"""
    I = b.I
    th = b.module('threading')

    def thread_ctor(I_, a, k):
        t = Opaque('Thread', attrs={'target': k.get('target')})
        def start(I2, o, a2, k2):
            tgt = o.attrs['target']
            ag = getattr(tgt, 'self', tgt)
            I2.ghost['started'].items.append(ag)
            # at the instant its thread starts the job must already be what the controller reports as running
            jc = I2.ghost.get('jc')
            if jc is not None:
                known = jc.attrs.get('_active_agent') is ag or any(v is ag for v in I2.read_dict(jc.attrs['_background']).values())
                I2.ghost['registered_at_start'].items.append(known)
        t.methods['start'] = start
        t.methods['is_alive'] = lambda I2, o, a2, k2: I2.fresh('bool', 'alive')
        return t
    th.ns['Thread'] = Builtin('Thread', thread_ctor)
    b.ghost('started', PyList())
    b.ghost('registered_at_start', PyList())
    b.pre_exec = [THREAD_FAKE]


THREAD_FAKE = '''
import threading
class _FakeThread:
    def __init__(self, target=None, **k): self.target = target
    def start(self): GHOST.setdefault('started', []).append(self.target.__self__)
    def is_alive(self): return True
threading.Thread = _FakeThread
GHOST['started'] = []
'''


def agent(b, tag, jc=None, callback=None):
    job = Opaque('job_' + tag, methods={'execute': lambda I_, o, a, k: None,
                                       'request_stop': lambda I_, o, a, k: I_.ghost.setdefault('stop_requests', PyList()).items.append(o)})
    job.native = {'kind': 'generic'}
    ag = PyObj(b.cls('bardolph.lib.job_control', 'Agent'), {'_job': job, '_callback': callback, '_thread': None,
                                                          '_name': b.sym('str', 'name_' + tag)})
    return ag


def job_control(b, qlen, active, nbg=0, may_fail=True, racy_reads=False):
    thread_module_hook(b)
    jc = PyObj(b.cls('bardolph.lib.job_control', 'JobControl'), {})
    if qlen in ('any', 'any+'):       # a queue of arbitrary length: one abstract segment of queued agents
        from pyvc.values import Segment
        n = b.sym('int', 'queue_length')
        b.between(n, 1 if qlen == 'any+' else 0, 10 ** 9)
        if isinstance(n, int):      # replay: the model's queue length, concretely
            n = max(n, 1 if qlen == 'any+' else 0)
            q0 = PyList([agent(b, 'q%d' % i) for i in range(min(n, 5))])
            q0.is_deque = True
            return _finish_jc(b, jc, q0, active, nbg, may_fail, racy_reads)
        q = PyList([Segment('Q', z3.IntVal(0), n.t, elem=lambda I_, base, ix: agent(b, 'queued[%s]' % ix), tag='queued agents')])
    else:
        q = PyList([agent(b, 'q%d' % i) for i in range(qlen)])
    q.is_deque = True
    return _finish_jc(b, jc, q, active, nbg, may_fail, racy_reads)


def _finish_jc(b, jc, q, active, nbg, may_fail, racy_reads=False):
    act = agent(b, 'active') if active else None
    if act is not None:     # the active agent's thread was started; whether it is still alive is arbitrary
        act.attrs['_thread'] = Opaque('Thread', methods={'is_alive': lambda I_, o, a, k: I_.fresh('bool', 'alive')})
        act.attrs['_thread'].native = {'kind': 'generic'}
    bg = PyDict()
    for i in range(nbg):
        a_ = agent(b, 'bg%d' % i)
        bg.d[a_.attrs['_name']] = a_
    names = [x.attrs['_name'] for x in bg.d.values()]
    for i in range(len(names)):
        for j in range(i + 1, len(names)):
            if isinstance(names[i], SymVal):
                b.assume(names[i].t != names[j].t)
    jc.attrs.update(_background=bg, _active_agent=act, _queue=q, _lock=lock_stub(b, may_fail))
    # guarded by the lock: every write of the slot by the code under contract happens while the lock is held (a write after the
    # lock was let go lets another thread see a free slot and start a second job)
    b.ghost('unlocked_slot_writes', 0)
    def slot_written(I_, o, f, v):
        if o.attrs['_lock'].attrs['depth'] <= 0:
            I_.ghost['unlocked_slot_writes'] = I_.ghost['unlocked_slot_writes'] + 1
    b.on_write(jc, '_active_agent', slot_written)
    if racy_reads:
        # rely: the slot is written by job threads (completion) under the lock.  What this thread reads WITHOUT holding the lock
        # may be out of date by the time it holds it: such a read yields either the slot's value or the other possibility
        # (free instead of taken / taken by a job that has finished meanwhile instead of free)
        gone = agent(b, 'finished_meanwhile')
        def read(I_, o, f):
            cur = o.attrs[f]
            if o.attrs['_lock'].attrs['depth'] > 0:
                return cur
            I_.ghost['unlocked_slot_reads'] = I_.ghost.get('unlocked_slot_reads', 0) + 1
            if I_.branch(I_.fresh('bool', 'slot_changed_before_the_lock_was_taken').t):
                return gone if cur is None else None
            return cur
        b.volatile(jc, '_active_agent', read)
    b.ghost('jc', jc)
    b.ghost('stop_requests', PyList())
    return jc, q, act


def install(I):
    F = I.spec_fns

    def same_agents(I_, a, k):
        """the two sequences hold the identical agent objects in the same order"""
        x, y = a
        xs = list(x.items) if isinstance(x, PyList) else list(x)
        ys = list(y.items) if isinstance(y, PyList) else list(y)
        return len(xs) == len(ys) and all(p is q for p, q in zip(xs, ys))
    from pyvc.values import Segment

    def same_agents2(I_, a, k):
        x, y = a
        xs = list(x.items) if isinstance(x, PyList) else list(x)
        ys = list(y.items) if isinstance(y, PyList) else list(y)
        if any(isinstance(v, Segment) for v in xs + ys):
            return I_.seq_eq(xs, ys)
        return same_agents(I_, a, k)
    F['same_agents'] = Builtin('spec.same_agents', same_agents2)

    def tail(I_, a, k):
        items = list(a[0].items)
        out = []
        dropped = False
        for x in items:
            if dropped:
                out.append(x)
            elif isinstance(x, Segment):
                if not I_.feasible(x.n > 0):
                    continue
                if I_.feasible(z3.Not(x.n > 0)):
                    raise TypeError('tail of a list whose first segment may be empty')
                out.append(Segment(x.base, z3.simplify(x.off + 1), z3.simplify(x.n - 1), x.elem, x.tag))
                dropped = True
            else:
                dropped = True
        return PyList(out)
    F['tail'] = Builtin('spec.tail', tail)
    F['seq'] = Builtin('spec.seq', lambda I_, a, k: PyList(list(a)))
    F['concat'] = Builtin('spec.concat', lambda I_, a, k: PyList([x for s in a for x in s.items]))
    F['lock_released'] = Builtin('spec.lock_released', lambda I_, a, k: a[0].attrs['_lock'].attrs['depth'] == 0)
    def maps_to(I_, a, k):
        d, key, obj = a
        ts = []
        for kk, vv in I_.read_dict(d).items():
            if vv is obj:
                r = I_.equals(kk, key)
                if r is True:
                    return True
                if r is not False:
                    ts.append(r.t)
        from pyvc.ops import mk
        return mk(z3.Or(*ts), 'bool') if ts else False
    F['maps_to'] = Builtin('spec.maps_to', maps_to)
    F['timed_out'] = Builtin('spec.timed_out', lambda I_, a, k: I_.ghost.get('lock_timeouts', 0) > 0)


spec.EXTRA_INSTALLERS.append(install)

SHAPES = [{'q': q, 'active': a} for q in (0, 'any+') for a in (0, 1)]      # empty queue / any non-empty queue

# ---- _run_next_job: starts the front job iff nothing is active
c = contract(JC, 'JobControl._run_next_job', serves=['C08'])
def _setup(b, case):
    jc, q, act = job_control(b, case['q'], case['active'])
    return {'self': jc, '_q': q, '_act': act}
c.setup(_setup)
c.cases([{'q': 'any', 'active': 0}, {'q': 'any', 'active': 1}])
c.ensures('lock-balanced', 'lock_released(self)')
c.ensures('starts-the-front-job-when-idle',
          "not timed_out() and old(self._active_agent) is None and len(old(self._queue)) > 0 ==> "
          "self._active_agent is old(self._queue)[0] and same_agents(self._queue, tail(old(self._queue))) and same_agents(ghost('started'), seq(self._active_agent))")
c.ensures('otherwise-nothing-starts',
          "timed_out() or old(self._active_agent) is not None or len(old(self._queue)) == 0 ==> "
          "self._active_agent is old(self._active_agent) and same_agents(self._queue, old(self._queue)) and len(ghost('started')) == 0")
c.ensures('holds-the-slot-before-its-thread-starts', "all(ghost('registered_at_start'))")
c.ensures('the-slot-is-written-under-the-lock', "ghost('unlocked_slot_writes') == 0")

# ---- add_job / insert_job
for meth, front in (('add_job', False), ('insert_job', True)):
    c = contract(JC, 'JobControl.' + meth, serves=['C08'])
    def _setup(b, case):
        # the slot is examined under the lock only: an earlier look at it may be out of date (racy_reads)
        jc, q, act = job_control(b, case['q'], case['active'], racy_reads=True)
        job = Opaque('new_job', methods={'execute': lambda I_, o, a, k: None})
        return {'self': jc, 'job': job, 'name': b.sym('str', 'new_name')}
    c.setup(_setup)
    c.cases(SHAPES)
    c.ensures('lock-balanced', 'lock_released(self)')
    c.ensures('timeout-changes-nothing', "is_none(result) ==> same_agents(self._queue, old(self._queue)) and self._active_agent is old(self._active_agent) and len(ghost('started')) == 0")
    new_q = 'concat(seq(result), old(self._queue))' if front else 'concat(old(self._queue), seq(result))'
    c.ensures('queued-at-the-%s-while-something-runs' % ('front' if front else 'back'),
              "not is_none(result) and old(self._active_agent) is not None ==> same_agents(self._queue, %s) "
              "and self._active_agent is old(self._active_agent) and len(ghost('started')) == 0" % new_q)
    c.ensures('idle-controller-starts-the-front-of-the-new-queue',
              "not is_none(result) and old(self._active_agent) is None ==> self._active_agent is (%s)[0] "
              "and same_agents(self._queue, tail(%s)) and same_agents(ghost('started'), seq(self._active_agent))" % (new_q, new_q))
    c.ensures('agent-reports-back-to-the-controller', "not is_none(result) ==> result._job is job and result._callback.__func__ is self._on_execution_done.__func__")
    c.ensures('holds-the-slot-before-its-thread-starts', "all(ghost('registered_at_start'))")
    c.ensures('the-slot-is-written-under-the-lock', "ghost('unlocked_slot_writes') == 0")

# ---- completion: frees the slot and starts the next one
c = contract(JC, 'JobControl._on_execution_done', serves=['C08'])
def _setup(b, case):
    jc, q, act = job_control(b, case['q'], 1)
    return {'self': jc, '_': act}
c.setup(_setup)
c.cases([{'q': q} for q in (0, 'any+')])
c.ensures('lock-balanced', 'lock_released(self)')
c.ensures('next-in-queue-order-starts', "not timed_out() and len(old(self._queue)) > 0 ==> self._active_agent is old(self._queue)[0] "
          "and same_agents(self._queue, tail(old(self._queue))) and same_agents(ghost('started'), seq(self._active_agent))")
c.ensures('the-slot-is-written-under-the-lock', "ghost('unlocked_slot_writes') == 0")
c.ensures('drained', "not timed_out() and len(old(self._queue)) == 0 ==> self._active_agent is None and len(ghost('started')) == 0 and self.has_jobs() == (len(self._background) > 0)")

# ---- the agent: the callback is invoked exactly once, also when the job raises
for raises in (False, 'RuntimeError', 'SystemExit', 'KeyboardInterrupt'):
    c = contract(JC, 'Agent._execute_and_call', serves=['C08'], name='Agent._execute_and_call[job %s]' % (('raises ' + raises) if raises else 'finishes'))
    def _setup(b, case, raises=raises):
        calls = PyList()
        def execute(I_, o, a, k):
            I_.ghost['executed'] = I_.ghost.get('executed', 0) + 1
            if raises:
                I_.raise_builtin(raises, 'job failed')
        job = Opaque('job', methods={'execute': execute})
        cb = Builtin('callback', lambda I_, a, k: calls.items.append(a[0]))
        ag = PyObj(b.cls('bardolph.lib.job_control', 'Agent'), {'_job': job, '_callback': cb, '_thread': None, '_name': 'n'})
        b.ghost('executed', 0)
        return {'self': ag, '_calls': calls}
    c.setup(_setup)
    post = "ghost('executed') == 1 and len(_calls) == 1 and _calls[0] is self"
    # whether the job's exception propagates or is absorbed is not the property's business: the completion callback
    # must have been invoked exactly once on every way out (else the queue never advances)
    if raises:
        c.raises(raises, ('callback-still-invoked-once', post))
    c.ensures('executed-then-callback-once', post)

# ---- background jobs
c = contract(JC, 'JobControl.spawn_job', serves=['C08'])
def _setup(b, case):
    jc, q, act = job_control(b, 1, 1, nbg=case['bg'])
    job = Opaque('new_job', methods={'execute': lambda I_, o, a, k: None})
    n = b.sym('str', 'bgname')
    for x in jc.attrs['_background'].d.values():
        b.assume(x.attrs['_name'].t != n.t)
    return {'self': jc, 'job': job, 'name': n}
c.setup(_setup)
c.cases([{'bg': 0}, {'bg': 1}, {'bg': 2}])
c.bounded('0..2 background jobs')
c.requires('a-name-is-given', "name != ''")     # an empty name is replaced by a generated one (Agent.__init__)
c.ensures('lock-balanced', 'lock_released(self)')
c.ensures('runs-alongside-under-its-name', "not is_none(result) ==> maps_to(self._background, name, result) and len(self._background) == len(old(self._background)) + 1 "
          "and same_agents(ghost('started'), seq(result)) and self._active_agent is old(self._active_agent) and same_agents(self._queue, old(self._queue))")
c.ensures('timeout-changes-nothing', "is_none(result) ==> len(self._background) == len(old(self._background)) and len(ghost('started')) == 0")
c.ensures('reported-as-running-from-the-moment-it-starts', "all(ghost('registered_at_start'))")

c = contract(JC, 'JobControl._on_background_done', serves=['C08'])
def _setup(b, case):
    jc, q, act = job_control(b, 1, 1, nbg=case['bg'])
    ag = list(jc.attrs['_background'].d.values())[0]
    return {'self': jc, 'agent': ag}
c.setup(_setup)
c.cases([{'bg': 1}, {'bg': 2}])
c.bounded('1..2 background jobs')
c.ensures('forgotten-when-it-ends', "not timed_out() ==> agent._name not in self._background and len(self._background) == len(old(self._background)) - 1")
c.ensures('lock-balanced', 'lock_released(self)')

# ---- reporting and stopping touch nothing
for meth in ('stop_current', 'stop_background', 'has_jobs', 'get_current', 'get_queued'):
    c = contract(JC, 'JobControl.' + meth, serves=['C08', 'C09'])
    def _setup(b, case):
        jc, q, act = job_control(b, case['q'], case['active'], nbg=1)
        return {'self': jc, '_act': act}
    c.setup(_setup)
    c.cases([{'q': 0, 'active': 0}, {'q': 'any+', 'active': 1}, {'q': 'any+', 'active': 0}])
    c.ensures('slot-and-queue-untouched', "self._active_agent is old(self._active_agent) and same_agents(self._queue, old(self._queue)) and len(self._background) == len(old(self._background)) and len(ghost('started')) == 0")
    c.ensures('lock-balanced', 'lock_released(self)')
    if meth == 'has_jobs':
        c.ensures('no-jobs-iff-everything-finished', 'result == (len(self._queue) > 0 or len(self._background) > 0 or self._active_agent is not None)')


# ---- is_running: true exactly for the name of the active queued job and the names of live background jobs
#      (the web front end relies on it to refuse duplicates: C20)
for active in (0, 1):
    for nbg in (0, 1, 2):
        c = contract(JC, 'JobControl.is_running', serves=['C08', 'C20'], name='JobControl.is_running[active=%d,background=%d]' % (active, nbg))
        def _setup(b, case, active=active, nbg=nbg):
            jc, q, act = job_control(b, 'any', active, nbg=nbg)
            return {'self': jc, 'name': b.sym('str', 'asked_name'), '_act': act, '_bgs': PyList(list(jc.attrs['_background'].d.values()))}
        c.setup(_setup)
        if nbg:
            c.bounded('%d background job(s)' % nbg)
        c.ensures('exactly-the-running-names',
                  "iff(result is True, (_act is not None and name == _act._name) or any(name == x._name for x in _bgs))")
        c.ensures('answers-yes-or-no', 'result is True or result is False')
        c.ensures('touches-nothing', "self._active_agent is old(self._active_agent) and same_agents(self._queue, old(self._queue)) and len(self._background) == len(old(self._background))")


# ---- has_jobs: "no jobs" exactly when nothing is queued, nothing runs in the queue's slot and nothing runs in the background
for q in (0, 1, 2, 'any+'):
    for active in (0, 1):
        for nbg in (0, 1):
            c = contract(JC, 'JobControl.has_jobs', serves=['C08'], name='JobControl.has_jobs[queue=%s,active=%d,background=%d]' % (q, active, nbg))
            def _setup(b, case, q=q, active=active, nbg=nbg):
                jc, qq, act = job_control(b, q, active, nbg=nbg)
                return {'self': jc}
            c.setup(_setup)
            c.ensures('jobs-iff-anything-queued-active-or-in-the-background', 'result is %s' % (q != 0 or bool(active) or bool(nbg)))
            c.ensures('touches-nothing', "self._active_agent is old(self._active_agent) and same_agents(self._queue, old(self._queue)) and len(self._background) == len(old(self._background))")

# ---- clear_queue (stop-all clears the queue first): the waiting jobs are dropped, the running ones are not touched
c = contract(JC, 'JobControl.clear_queue', serves=['C08', 'C09', 'C20'])
def _setup(b, case):
    jc, q, act = job_control(b, case['q'], case['active'], nbg=1)
    return {'self': jc}
c.setup(_setup)
c.cases([{'q': 0, 'active': 0}, {'q': 'any+', 'active': 1}, {'q': 'any+', 'active': 0}, {'q': 2, 'active': 1}])
c.ensures('nothing-waits-any-more', 'len(self._queue) == 0')
c.ensures('running-jobs-untouched', "self._active_agent is old(self._active_agent) and len(self._background) == len(old(self._background)) "
          "and len(ghost('started')) == 0 and len(ghost('stop_requests')) == 0")


# ---- round 9: the state every contract above starts from is the one the REAL constructor builds: an empty *unbounded* deque (a
#      deque with a maxlen never refuses an append - it silently drops a waiting job from the other end), no active job, no background jobs
def _install_fresh(I):
    def unbounded_deque(I_, a, k):
        q = a[0]
        return isinstance(q, PyList) and getattr(q, 'is_deque', False) is True and getattr(q, 'maxlen', None) is None
    I.spec_fns['unbounded_deque'] = Builtin('spec.unbounded_deque', unbounded_deque)
spec.EXTRA_INSTALLERS.append(_install_fresh)

c = contract(JC, 'fresh_job_control', serves=['C08', 'C09', 'C20'], name='lemma:JobControl() is the empty state with an unbounded queue', src='''
def fresh_job_control():
    return JobControl()
''')
c.setup(lambda b, case: (thread_module_hook(b), {})[1])
c.crosscheck = False
c.ensures('queue-never-drops-a-waiting-job', 'unbounded_deque(result._queue) and len(result._queue) == 0')
c.ensures('nothing-runs', 'result._active_agent is None and len(result._background) == 0')


# ---- what every contract of this file takes on trust (listed in the evidence)
for _c in spec.REGISTRY:
    if _c.path == JC and _c.serves:
        _c.assume_note('C08 monitor rule (DESIGN 2.8): the guarded fields of JobControl are written only while its re-entrant lock is held, so each '
                       'method is verified sequentially from an arbitrary state satisfying the monitor invariant; interleavings of whole critical '
                       'sections are covered by that, interleavings INSIDE them are excluded by the lock (trusted: threading.RLock)')
        _c.assume_note('C08 rely: a read of the job slot made without holding the lock may be out of date once the lock is held (add_job / insert_job); '
                       'the racy snapshots of has_jobs / is_running / get_current / stop_current are taken as the value at one instant')
