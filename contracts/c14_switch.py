"""C14: Machine._switch_unit_mode / _moveq(UNIT_MODE): a switch re-expresses the registers without
changing what the lights get.

Relational clause: the values a following `set` would transmit (the C07 formulas applied to the registers
in the mode in force), the transmitted duration and the pending delay, are the same before and after the
switch -- exactly, except hue compared on the circle (65535 == 0) and, when rgb is the target, hue only
when saturation and brightness are non-zero and saturation only when brightness is non-zero
("colours compared as colours"); the statement allows one raw unit, we prove equality.
Frame clause: exactly the registers the documentation lists may be written.
"""
from pyvc.spec import contract
from . import lib

M = 'bardolph/vm/machine.py'
MODES = ('LOGICAL', 'RAW', 'RGB')
ALL = ('hue', 'saturation', 'brightness', 'kelvin', 'red', 'green', 'blue', 'duration', 'time')


def sent(mode, R):
    """expressions (strings) for the transmitted [h, s, b, k] given register accessor format R."""
    if mode == 'LOGICAL':
        return ['sent_hue(%s)' % (R % 'hue'), 'sent_pct(%s)' % (R % 'saturation'), 'sent_pct(%s)' % (R % 'brightness'),
                'sent_u16(%s)' % (R % 'kelvin')]
    if mode == 'RAW':
        return ['sent_u16(%s)' % (R % n) for n in ('hue', 'saturation', 'brightness', 'kelvin')]
    rgb = ', '.join('%s / 100' % (R % n) for n in ('red', 'green', 'blue'))
    return ['sent_frac(hsv_h(%s))' % rgb, 'sent_frac(hsv_s(%s))' % rgb, 'sent_frac(hsv_v(%s))' % rgb,
            'sent_u16(round_he(%s))' % (R % 'kelvin')]


def sent_duration(mode, R):
    return ('sent_u32(%s)' if mode == 'RAW' else 'sent_ms(%s)') % (R % 'duration')


def delay_s(mode, R):
    return ('real(%s) / 1000' if mode == 'RAW' else 'real(%s)') % (R % 'time')


NEW, OLD = 'self._reg.%s', 'old(self._reg.%s)'

for src in MODES:
    for dst in MODES:
        for kind in ('real', 'int'):
            def setup(b, case, src=src, dst=dst, kind=kind):
                m = lib.machine(b, src, lib.light_set_with(b, {}))
                reg = m.attrs['_reg']
                for n in ALL:
                    reg.attrs[n] = b.sym(kind, n)
                from pyvc.values import PyList
                dflt = [b.sym('int', 'default%d' % i) for i in range(4)]      # the saved default colour is always raw
                reg.attrs['default'] = PyList(list(dflt))
                return {'self': m, 'to_mode': b.enum('bardolph.controller.units', 'UnitMode', dst),
                        '_d0': dflt[0], '_d1': dflt[1], '_d2': dflt[2], '_d3': dflt[3]}
            c = contract(M, 'Machine._switch_unit_mode', serves=['C14', 'C10', 'C15'],
                         name='Machine._switch_unit_mode[%s->%s,%s]' % (src, dst, kind))
            c.setup(setup)
            # documented valid ranges
            if src == 'LOGICAL':
                c.requires('ranges', '0 <= self._reg.hue <= 360 and 0 <= self._reg.saturation <= 100 and 0 <= self._reg.brightness <= 100')
            elif src == 'RAW':
                c.requires('ranges', '0 <= self._reg.hue <= 65535 and 0 <= self._reg.saturation <= 65535 and 0 <= self._reg.brightness <= 65535')
            else:
                c.requires('ranges', '0 <= self._reg.red <= 100 and 0 <= self._reg.green <= 100 and 0 <= self._reg.blue <= 100')
            c.requires('kelvin', '0 <= self._reg.kelvin <= 65535')
            c.requires('times', '0 <= self._reg.duration and 0 <= self._reg.time')
            c.ensures('mode', 'self._reg.unit_mode is to_mode')
            c.ensures('saved-default-colour-untouched', 'len(self._reg.default) == 4 and self._reg.default[0] == _d0 and self._reg.default[1] == _d1 '
                      'and self._reg.default[2] == _d2 and self._reg.default[3] == _d3')
            c.ensures('nothing-else-in-the-registers-changes', 'unchanged(self._reg.name) and unchanged(self._reg.operand) and unchanged(self._reg.power) '
                      'and unchanged(self._reg.result) and unchanged(self._reg.pc) and unchanged(self._reg.matrix) and unchanged(self._reg.first_zone) '
                      'and unchanged(self._reg.last_zone) and unchanged(self._reg.disc_forward)')
            if src == dst:
                for n in ALL:
                    c.ensures('unchanged-' + n, 'unchanged(self._reg.%s)' % n)
                continue
            before, after = sent(src, OLD), sent(dst, NEW)
            if dst == 'RGB':
                # colours compared as colours: hue is meaningful only for a coloured, lit colour
                c.ensures('same-brightness-sent', '%s == %s' % (after[2], before[2]))
                sat_src = {'LOGICAL': 'old(self._reg.brightness) > 0', 'RAW': 'old(self._reg.brightness) > 0'}[src]
                hue_src = sat_src + ' and old(self._reg.saturation) > 0'
                c.ensures('same-saturation-sent', '%s ==> %s == %s' % (sat_src, after[1], before[1]))
                c.ensures('same-hue-sent', '%s ==> hue_same(%s, %s)' % (hue_src, after[0], before[0]))
            else:
                c.ensures('same-hue-sent', 'hue_same(%s, %s)' % (after[0], before[0]))
                c.ensures('same-saturation-sent', '%s == %s' % (after[1], before[1]))
                c.ensures('same-brightness-sent', '%s == %s' % (after[2], before[2]))
            c.ensures('same-kelvin-sent', '%s == %s' % (after[3], before[3]))
            if kind == 'int' or src != 'RGB' or dst != 'RAW':
                c.ensures('kelvin-never-altered', 'self._reg.kelvin == old(self._reg.kelvin)')
            c.ensures('same-duration-sent', '%s == %s' % (sent_duration(dst, NEW), sent_duration(src, OLD)))
            c.ensures('same-pending-delay', 'abs(%s - %s) <= 1 / 1000' % (delay_s(dst, NEW), delay_s(src, OLD)))
            # frame: the documentation's table
            raw_involved = 'RAW' in (src, dst)
            if not raw_involved:
                c.ensures('frame-time', 'unchanged(self._reg.time) and unchanged(self._reg.duration)')
            if dst != 'RGB':
                for n in ('red', 'green', 'blue'):
                    c.ensures('frame-' + n, 'unchanged(self._reg.%s)' % n)
            else:
                for n in ('hue', 'saturation', 'brightness'):
                    c.ensures('frame-' + n, 'unchanged(self._reg.%s)' % n)

# _moveq dispatches a move into UNIT_MODE to the switch, everything else to the plain register store
c = contract(M, 'moveq_unit_mode', serves=['C14', 'C01'], name='lemma:Machine._moveq(UNIT_MODE)', src='''
def moveq_unit_mode(self, to_mode):
    from bardolph.vm.instruction import Instruction
    self._program = [Instruction(OpCode.MOVEQ, to_mode, Register.UNIT_MODE)]
    self._reg.pc = 0
    self._moveq()
''')
def _setup(b, case):
    m = lib.machine(b, 'LOGICAL', lib.light_set_with(b, {}))
    lib.sym_regs(b, m, 'real', ('hue', 'saturation', 'brightness', 'kelvin', 'duration', 'time'))
    return {'self': m, 'to_mode': b.enum('bardolph.controller.units', 'UnitMode', 'RAW')}
c.setup(_setup)
c.requires('ranges', '0 <= self._reg.hue <= 360 and 0 <= self._reg.saturation <= 100 and 0 <= self._reg.brightness <= 100 and 0 <= self._reg.duration and 0 <= self._reg.time and 0 <= self._reg.kelvin')
c.ensures('switched', 'self._reg.unit_mode is to_mode and self._reg.duration == old(self._reg.duration) * 1000 and self._reg.time == old(self._reg.time) * 1000')
c.ensures('converted', 'sent_u16(self._reg.saturation) == sent_pct(old(self._reg.saturation))')
