"""Small classes the compiler and the VM rely on (reached only indirectly from the anchored files):
Instruction, Routine / RuntimeRoutine, Machine._bin_op / _unary_op, ls_module's one job controller, LightSet.refresh."""
from pyvc.spec import contract
from pyvc.values import PyObj, PyList, PyDict, Opaque, Builtin, SymVal
from . import lib

INS = 'bardolph/vm/instruction.py'
c = contract(INS, 'Instruction.__init__', serves=['C01', 'C05', 'C17'])
c.setup(lambda b, case: {'self': PyObj(b.cls('bardolph.vm.instruction', 'Instruction'), {}), 'op_code': b.enum('bardolph.vm.vm_codes', 'OpCode', 'MOVEQ'),
                         'param0': b.sym('int', 'p0'), 'param1': b.sym('str', 'p1')})
c.ensures('holds-exactly-what-it-was-given', 'self.op_code is op_code and self.param0 == param0 and self.param1 == param1')

c = contract(INS, 'Instruction.__eq__', serves=['C01', 'C17'], name='Instruction.__eq__[same op code]')
def _setup(b, case):
    I_ = b.cls('bardolph.vm.instruction', 'Instruction')
    op = b.enum('bardolph.vm.vm_codes', 'OpCode', 'MOVEQ')
    a = b.new(I_, op, b.sym('int', 'a0'), b.sym('int', 'a1'))
    o = b.new(I_, op, b.sym('int', 'b0'), b.sym('int', 'b1'))
    return {'self': a, 'other': o}
c.setup(_setup)
c.ensures('equal-iff-all-three-parts-are', 'iff(result, self.param0 == other.param0 and self.param1 == other.param1)')
c = contract(INS, 'Instruction.__eq__', serves=['C01', 'C17'], name='Instruction.__eq__[different op codes]')
def _setup(b, case):
    I_ = b.cls('bardolph.vm.instruction', 'Instruction')
    v = b.sym('int', 'v')
    return {'self': b.new(I_, b.enum('bardolph.vm.vm_codes', 'OpCode', 'MOVEQ'), v, v), 'other': b.new(I_, b.enum('bardolph.vm.vm_codes', 'OpCode', 'MOVE'), v, v)}
c.setup(_setup)
c.ensures('never-equal', 'result is False')

# ---- a built-in function call: the function receives the frame that holds the arguments of THIS call, its value is the result
RT = 'bardolph/controller/routine.py'
c = contract(RT, 'RuntimeRoutine.invoke', serves=['C02', 'C03', 'C01'])
def _setup(b, case):
    seen = b.ghost('frames_seen', PyList())
    val = b.sym('int', 'function_value')
    fn = Builtin('fn', lambda I_, a, k: (seen.items.append(a[0]), val)[1])
    r = b.new(('bardolph.controller.routine', 'RuntimeRoutine'), b.sym('str', 'name'), fn)
    return {'self': r, 'stack_frame': Opaque('frame'), '_val': val}
c.setup(_setup)
c.ensures('called-once-with-this-frame', "result == _val and len(ghost('frames_seen')) == 1 and ghost('frames_seen')[0] is stack_frame")

c = contract(RT, 'routine_params', serves=['C03', 'C06'], name='lemma:Routine: parameters in declaration order', src='''
def routine_params(name, p, q):
    r = Routine(name)
    r.add_param(p)
    r.add_param(q)
    return (r.name, r.params, r.has_param(p), r.has_param(q), r.get_address(), r.undefined if hasattr(r, 'undefined') else None)
''')
def _setup(b, case):
    p, q = b.sym('atom', 'p'), b.sym('atom', 'q')
    b.assume(p.t != q.t) if isinstance(p, SymVal) else None
    return {'name': b.sym('atom', 'name'), 'p': p, 'q': q}
c.setup(_setup)
c.ensures('as-declared', 'result[0] == name and len(result[1]) == 2 and result[1][0] == p and result[1][1] == q and result[2] is True and result[3] is True')

# ---- arithmetic faults: a division by zero ends the script (message, stop) instead of escaping from the VM
M = 'bardolph/vm/machine.py'
c = contract(M, 'Machine._bin_op', serves=['C02', 'C12', 'C06'], name='Machine._bin_op[DIV, MOD]')
def _setup(b, case):
    m = lib.machine(b, 'LOGICAL', lib.light_set_with(b, {}))
    st = b.I.getattr_(m.attrs['_vm_math'].attrs['_eval_stack'], '_stack')
    x, y = b.sym('int', 'x'), b.sym('int', 'y')
    st.items.extend([x, y])
    return {'self': m, 'operator': b.enum('bardolph.vm.vm_codes', 'Operator', case['op']), '_x': x, '_y': y}
c.setup(_setup)
c.cases([{'op': 'DIV'}, {'op': 'MOD'}])
c.ensures('zero-divisor-stops-the-script-with-a-message', '_y == 0 ==> self._keep_running is False and log_count("error") >= 1')
c.ensures('otherwise-the-value-is-on-the-stack-and-the-script-goes-on', '_y != 0 ==> self._keep_running is True and len(self._vm_math._eval_stack._stack) == 1')

# ---- ls_module: ONE job controller for the module, made when the module is loaded (not on first use by whichever thread)
LS = 'bardolph/controller/ls_module.py'
c = contract(LS, 'queue_twice', serves=['C08'], name='lemma:ls_module.queue_script twice', src='''
def queue_twice(s1, s2):
    before = LsModule._jobs
    a = queue_script(s1)
    mid = LsModule._jobs
    b = queue_script(s2)
    return (before, mid, LsModule._jobs, a, b)
''')
def _setup(b, case):
    mod = b.module('bardolph.controller.ls_module')
    from pyvc.values import StaticMethod
    sj = b.cls('bardolph.controller.script_job', 'ScriptJob')
    sj.attrs['from_string'] = StaticMethod(Builtin('ScriptJob.from_string', lambda I_, a, k: Opaque('job', {'execute': lambda I2, o, a2, k2: None, 'request_stop': lambda I2, o, a2, k2: None})))
    from .c08_job_control import thread_module_hook
    thread_module_hook(b)
    return {'s1': b.sym('str', 'script1'), 's2': b.sym('str', 'script2')}
c.setup(_setup)
c.crosscheck = False
c.ensures('one-controller-from-the-start', 'result[0] is not None and result[1] is result[0] and result[2] is result[0]')


# ---- configure() may be called again (the module is re-initialised): the job controller - and with it the running and
#      queued jobs - stays
c = contract(LS, 'configure_again', serves=['C08'], name='lemma:ls_module: queue; configure(); queue', src='''
def configure_again(s1, s2):
    first = LsModule._jobs
    queue_script(s1)
    configure()
    queue_script(s2)
    return (first, LsModule._jobs)
''')
def _setup(b, case):
    mod = b.module('bardolph.controller.ls_module')
    from pyvc.values import StaticMethod
    sj = b.cls('bardolph.controller.script_job', 'ScriptJob')
    sj.attrs['from_string'] = StaticMethod(Builtin('ScriptJob.from_string', lambda I_, a, k: Opaque('job', {'execute': lambda I2, o, a2, k2: None, 'request_stop': lambda I2, o, a2, k2: None})))
    from .c08_job_control import thread_module_hook
    thread_module_hook(b)
    for modname, names in (('bardolph.controller.light_module', ('configure',)),):
        m = b.module(modname)
        for n in names:
            m.ns[n] = Builtin(n, lambda I_, a, k: None)
    st = b.module('bardolph.lib.settings')
    chain = Opaque('settings_builder')
    chain.methods.update(apply_env=lambda I_, o, a, k: chain, configure=lambda I_, o, a, k: None, add_overrides=lambda I_, o, a, k: chain)
    st.ns['using'] = Builtin('using', lambda I_, a, k: chain)
    return {'s1': b.sym('str', 'script1'), 's2': b.sym('str', 'script2')}
c.setup(_setup)
c.crosscheck = False
c.ensures('the-same-controller', 'result[0] is not None and result[1] is result[0]')


# ---- the command-line runner: one job object PER file, each loaded with its own file, queued in the order given
RUN = 'bardolph/controller/run.py'
c = contract(RUN, 'main', serves=['C08', 'C17'], name='run.main[three files]')
def _setup(b, case):
    mod = b.module('bardolph.controller.run')
    files = [b.sym('str', 'file%d' % i) for i in range(3)]
    args = Opaque('args', attrs={'file': PyList(list(files)), 'script': None, 'config_file': None, 'fakes': False, 'verbose': False})
    mod.ns['init_args'] = Builtin('init_args', lambda I_, a, k: args)
    mod.ns['init_settings'] = Builtin('init_settings', lambda I_, a, k: None)
    for modname in ('bardolph.controller.light_module', 'bardolph.runtime.runtime_module'):
        b.module(modname).ns['configure'] = Builtin('configure', lambda I_, a, k: None)
    queued = b.ghost('queued', PyList())
    jc = Opaque('job_control', {'add_job': lambda I_, o, a, k: queued.items.append(a[0])})
    b.module('bardolph.lib.job_control').ns['JobControl'] = Builtin('JobControl', lambda I_, a, k: jc)
    made = b.ghost('jobs_made', PyList())
    def new_job(I_):
        j = Opaque('script_job', attrs={'loaded': PyList()})
        j.methods['load_file'] = lambda I2, o, a2, k2: o.attrs['loaded'].items.append(a2[0])
        j.methods['load_string'] = lambda I2, o, a2, k2: o.attrs['loaded'].items.append(a2[0])
        made.items.append(j)
        return j
    sj = Opaque('ScriptJob-class', {'from_file': lambda I_, o, a, k: (lambda j: (j.attrs['loaded'].items.append(a[0]), j)[1])(new_job(I_)),
                                    'from_string': lambda I_, o, a, k: (lambda j: (j.attrs['loaded'].items.append(a[0]), j)[1])(new_job(I_)),
                                    '__call__': lambda I_, o, a, k: new_job(I_)})
    mod.ns['ScriptJob'] = sj
    return {'_f0': files[0], '_f1': files[1], '_f2': files[2]}
c.setup(_setup)
c.crosscheck = False
c.ensures('one-job-per-file-in-order', "len(ghost('queued')) == 3 and ghost('queued')[0] is not ghost('queued')[1] and ghost('queued')[1] is not ghost('queued')[2] "
          "and ghost('queued')[0] is not ghost('queued')[2] and len(ghost('queued')[0].loaded) == 1 and ghost('queued')[0].loaded[0] == _f0 "
          "and len(ghost('queued')[1].loaded) == 1 and ghost('queued')[1].loaded[0] == _f1 and len(ghost('queued')[2].loaded) == 1 and ghost('queued')[2].loaded[0] == _f2")


# ---- Routine.has_param: names are compared exactly (parameters `level` and `Level` are two parameters)
c = contract(RT, 'case_matters', serves=['C16', 'C03', 'C06'], name='lemma:Routine: level and Level are different parameters', src='''
def case_matters():
    r = Routine('mix')
    r.add_param('level')
    return (r.has_param('level'), r.has_param('Level'), r.has_param('LEVEL'), r.has_param('leve'))
''')
c.setup(lambda b, case: {})
c.ensures('exact-comparison', 'result[0] is True and result[1] is False and result[2] is False and result[3] is False')

# ---- the keywords that can start a command (a definition followed by one of them defines a one-command routine)
TK = 'bardolph/parser/token.py'
c = contract(TK, 'starts_a_command', serves=['C06', 'C14', 'C16', 'C15', 'C01', 'C03'], name='lemma:TokenTypes.is_executable: exactly the command keywords', src='''
def starts_a_command():
    return [t.name for t in TokenTypes if t.is_executable()]
''')
c.setup(lambda b, case: {})
COMMANDS = ('ASSIGN', 'BREAKPOINT', 'GET', 'IF', 'OFF', 'ON', 'PRINT', 'PRINTF', 'PRINTLN', 'PAUSE', 'REGISTER', 'REPEAT', 'SET', 'STAGE', 'UNITS', 'WAIT')
c.ensures('every-command-keyword', ' and '.join("'%s' in result" % n for n in COMMANDS))
c.ensures('and-no-value-or-punctuation-class', ' and '.join("not ('%s' in result)" % n for n in ('NAME', 'NUMBER', 'LITERAL_STRING', 'MARK', 'EOF', 'END', 'BEGIN', 'WITH', 'AND', 'OR', 'AS', 'TO', 'FROM', 'ELSE', 'DEFINE', 'TIME_PATTERN')))

# ---- a matrix can always be written to the log, whatever numbers its cells hold (the fake lights log every matrix they get)
CMX = 'bardolph/controller/color_matrix.py'
c = contract(CMX, 'ColorMatrix.__str__', serves=['C15', 'C14', 'C12'])
def _setup(b, case):
    cell = lambda tag: PyList([b.sym(k, '%s%d' % (tag, i)) for i, k in enumerate(('real', 'int', 'real', 'int'))])
    return {'self': lib.color_matrix(b, 1, 3, [cell('a'), None, cell('c')])}
c.setup(_setup)
c.bounded('1 x 3 matrix, cells with float and int components and an unset cell')
c.ensures('some-text-no-exception', 'result is not None')
