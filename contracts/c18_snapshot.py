"""C18: replaying a captured snapshot script restores the captured light state exactly.

Generator (deductive, bounded populations): Snapshot.generate(None) over directories of plain / multizone /
matrix lights with symbolic names and raw states produces exactly
    'units raw' + NL ++ for every light in name order: its block
where a plain block sets hue/saturation/brightness/kelvin to the captured numbers, switches the light on or off
and sets it; a multizone block sets every zone; a matrix block stages every cell.  str.format is uninterpreted,
so the text is compared as a structured term against the text built by the specification from the captured state.
Per-line replay: the parser templates (c06) and the raw-mode handler contracts (c07: in raw units param_16 is the
identity on captured values) carry each line to the device request.  Composition "text -> tokens" and "blocks in
sequence" is a bounded stand-in: bounded/snapshot_replay.py captures, perturbs and replays on the repo's fakes.
"""
import json
import os
import subprocess
from pyvc import spec
from pyvc.spec import contract
from pyvc.values import PyObj, PyList, PyDict, Opaque, Builtin, Struct
from . import lib

SN = 'bardolph/controller/snapshot.py'
NL = chr(10)


def fake_plain(b, name, tag):
    ic = b.module('bardolph.controller.i_controller')
    color = PyList([b.sym('int', '%s_c%d' % (tag, i)) for i in range(4)])
    power = b.sym('int', tag + '_power')
    return Opaque('plain:' + tag, {'get_name': lambda I_, o, a, k: name, 'get_color': lambda I_, o, a, k: color,
                                   'get_power': lambda I_, o, a, k: power}, classes=(ic.ns['Light'],)), ('plain', name, color, power)


def fake_mz(b, name, tag, nz=2):
    ic = b.module('bardolph.controller.i_controller')
    zones = PyList([PyList([b.sym('int', '%s_z%d_%d' % (tag, z, i)) for i in range(4)]) for z in range(nz)])
    return Opaque('mz:' + tag, {'get_name': lambda I_, o, a, k: name, 'get_zone_colors': lambda I_, o, a, k: zones},
                  classes=(ic.ns['MultizoneLight'],)), ('mz', name, zones)


def fake_matrix(b, name, tag, h=1, w=2):
    ic = b.module('bardolph.controller.i_controller')
    cells = [PyList([b.sym('int', '%s_m%d_%d' % (tag, c_, i)) for i in range(4)]) for c_ in range(h * w)]
    cm = lib.color_matrix(b, h, w, cells)
    return Opaque('matrix:' + tag, {'get_name': lambda I_, o, a, k: name, 'get_matrix': lambda I_, o, a, k: cm},
                  classes=(ic.ns['MatrixLight'],)), ('matrix', name, h, w, cells)


def install(I):
    def fmt(f, *a):
        from pyvc.models import format_symbolic
        if all(isinstance(x, (int, float, str)) for x in a):
            return f.format(*a)
        return format_symbolic(I, f, a, {})

    def cat(x, y):
        return I.binop('Add', x, y)

    def settings(col):
        t = ''
        for nm, v in zip(('hue', 'saturation', 'brightness', 'kelvin'), col.items):
            t = cat(t, fmt('{} {:.0f} ', nm, v))
        return t

    def expected(I_, a, k):
        """the script the statement prescribes for the captured state (list of light descriptions in name order)"""
        t = ''
        t = cat(t, 'units raw' + NL)
        for d in a[0]:
            if d[0] == 'plain':
                _, name, col, power = d
                t = cat(t, settings(col))
                pw = I_.truth_term(power)
                if not isinstance(pw, bool):        # decided by the path condition (the code branched on it)
                    import z3
                    pw = True if not I_.feasible(z3.Not(pw)) else False if not I_.feasible(pw) else None
                onoff = fmt('on "{}"' + NL, name) if pw is True else fmt('off "{}"' + NL, name) if pw is False else None
                if onoff is None:
                    raise TypeError('power must be decided on this path')
                t = cat(t, onoff)
                t = cat(t, fmt('set "{}"' + NL, name))
            elif d[0] == 'mz':
                _, name, zones = d
                for zi, zc in enumerate(zones.items):
                    t = cat(t, settings(zc))
                    t = cat(t, fmt('set "{}" zone {}' + NL, name, zi))
            else:
                _, name, h, w, cells = d
                t = cat(t, fmt('set "{}" begin' + NL, name))
                for r in range(h):
                    for c_ in range(w):
                        t = cat(t, settings(cells[r * w + c_]))
                        t = cat(t, fmt('stage row {} column {}' + NL, r, c_))
                t = cat(t, 'end' + NL)
        return t
    I.spec_fns['expected_snapshot'] = Builtin('spec.expected_snapshot', expected)


spec.EXTRA_INSTALLERS.append(install)

POPS = [[], ['plain'], ['mz'], ['matrix'], ['plain', 'mz'], ['matrix', 'plain'], ['plain', 'plain']]
for pop in POPS:
    c = contract(SN, 'Snapshot.generate', serves=['C18', 'C20'], unwrap=1, name='ScriptSnapshot.generate(None)[%s]' % ','.join(pop))
    def _setup(b, case, pop=pop):
        lights, descr = PyDict(), []
        names = []
        for i, kind in enumerate(pop):
            nm = b.sym('str', 'name%d' % i)
            lt, d = {'plain': fake_plain, 'mz': fake_mz, 'matrix': fake_matrix}[kind](b, nm, 'l%d' % i)
            lights.d[nm] = lt
            descr.append(d)
            names.append(nm)
        for i in range(len(names)):
            for j in range(i + 1, len(names)):
                b.assume(names[i].t != names[j].t) if hasattr(names[i], 't') else None
        ls = lib.light_set_with(b, dict(lights.d))
        snap = b.new(('bardolph.controller.snapshot', 'ScriptSnapshot'))
        return {'self': snap, 'filter': None, 'light_set': ls, '_descr': descr}
    c.setup(_setup)
    c.bounded('populations of up to 2 lights (2 zones, 1x2 matrix); names and raw states symbolic')
    if pop:
        c.ensures('exactly-the-prescribed-script', 'self._text == expected_snapshot(_descr)')
    else:
        c.ensures('starts-in-raw-units', "result is self")
    c.ensures('returns-itself', 'result is self')


def bounded_replay(tier, seed):
    repo = os.environ.get('PYVC_REPO', '/repo')
    here = os.path.dirname(os.path.dirname(os.path.abspath(__file__)))
    p = subprocess.run(['/venv/bin/python', os.path.join(here, 'bounded', 'snapshot_replay.py'), repo, tier, str(seed)],
                       capture_output=True, text=True, timeout=3000)
    try:
        d = json.loads(p.stdout.strip().splitlines()[-1])
    except Exception:
        return {'name': 'bounded:snapshot-replay', 'status': 'error', 'message': (p.stderr or p.stdout)[-800:]}
    seen, uniq = set(), []
    for v in d['violations']:
        if v['name'] not in seen:
            seen.add(v['name'])
            uniq.append({'name': v['name'], 'case': '', 'reproduced': True, 'info': {'what': v['what']},
                         'replay': {'input': v['input'], 'observed': v['what'], 'how': 'bounded/snapshot_replay.py on the repo fakes'}})
    return {'name': 'bounded:snapshot-replay', 'kind': 'bounded', 'bound': d['bound'], 'evaluations': d['evaluations'], 'stats': d['stats'],
            'violations': uniq, 'path': 'bounded/snapshot_replay.py'}


spec.EXTRA_CHECKS = getattr(spec, 'EXTRA_CHECKS', {})
spec.EXTRA_CHECKS.setdefault('C18', []).append(bounded_replay)


# ---- the Capture button writes the script to a file, the replay reads that file: the text compiled is the text written only
#      if the file is read in the encoding it was written in.  Ghost file system: a file keeps (text, encoding it was written
#      with; None = the platform default); reading it in another encoding yields some other text (a light named "Küche"
#      comes back garbled and is then "not found" at replay)
c = contract('web/web_app.py', 'capture_then_load', serves=['C18', 'C20'], name='lemma:WebApp.snapshot(); Parser.parse_file(the snapshot file)', src='''
def capture_then_load(web_app, parser, path):
    web_app.snapshot()
    return parser.parse_file(path)
''')
def _setup(b, case):
    from pyvc.values import Opaque, Builtin
    from . import parserlib as PL
    from .c20_web import web_app
    wa, calls = web_app(b)
    pr = PL.parser(b)
    lib.injection_reset(b)
    lib.provide(b, b.module('bardolph.controller.i_controller').ns['LightSet'], lib.light_set_with(b, {}))
    lib.provide(b, b.module('bardolph.lib.i_lib').ns['Settings'], Opaque('settings', {'get_value': lambda I_, o, a, k: '.'}))
    fs = {}
    b.ghost('files_written', PyList())
    def _open(I_, a, k):
        path = a[0]
        mode = a[1] if len(a) > 1 else k.get('mode', 'r')
        enc = k.get('encoding')
        enc = enc.lower().replace('_', '-') if isinstance(enc, str) else enc
        if 'w' in mode:
            def write(I2, o, a2, k2):
                fs[path] = (a2[0], enc)
                I2.ghost['files_written'].items.append(a2[0])
            return Opaque('file', {'write': write, 'close': lambda I2, o, a2, k2: None, '__enter__': lambda I2, o, a2, k2: o, '__exit__': lambda I2, o, a2, k2: None})
        if path not in fs:
            I_.raise_builtin('FileNotFoundError', 'no such file')
        text, wenc = fs[path]
        def read(I2, o, a2, k2):
            return text if wenc == enc else I2.fresh('str', 'text_decoded_in_another_encoding')
        return Opaque('file', {'read': read, 'close': lambda I2, o, a2, k2: None, '__enter__': lambda I2, o, a2, k2: o, '__exit__': lambda I2, o, a2, k2: None})
    b.ghost('open', _open)
    parsed = b.ghost('parsed', PyList())
    pr.attrs['parse'] = Builtin('parse', lambda I_, a, k: (parsed.items.append(a[0]), True)[1])
    import os
    return {'web_app': wa, 'parser': pr, 'path': os.path.join('.', '__snapshot__.ls')}
c.setup(_setup)
c.crosscheck = False
c.ensures('the-text-compiled-is-the-text-captured', "len(ghost('files_written')) == 1 and len(ghost('parsed')) == 1 and ghost('parsed')[0] == ghost('files_written')[0]")
