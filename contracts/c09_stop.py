"""C09: a stop request ends a running script promptly in every state and is never lost.

Sequential contracts with rely-havoc: Machine._keep_running and Clock._keep_going are written by the requesting
thread, so every read in the job / clock thread returns an arbitrary value that, once False has been read,
stays False until this thread writes it ("stop requests are monotone": the only writers of True are the
threads under contract).  Ghost Clk / Dev record clock and device requests.
NOT decided here (DESIGN section 5): that a thread blocked in threading.Event.wait() is woken after stop() -
the Clock.run contract only shows that every pass of the clock thread's loop fires the event exactly once
after its sleep, whatever the flag has become meanwhile.
"""
import z3
from pyvc import spec
from pyvc.spec import contract
from pyvc.values import PyObj, PyList, PyDict, Opaque, Builtin
from pyvc.ops import mk, to_term
from . import lib
from .c10_clock import clock_obj

M = 'bardolph/vm/machine.py'
CK = 'bardolph/lib/clock.py'


def stop_flag(b, obj, field, ghost_name):
    """volatile flag: arbitrary at every read, but never True again after False was read (other threads only clear it)"""
    b.ghost(ghost_name, False)

    def read(I_, o, f):
        if I_.ghost[ghost_name]:
            return False
        v = I_.fresh('bool', field)
        if not I_.branch(v.t):
            I_.ghost[ghost_name] = True
            I_.ghost[ghost_name + '_at'] = (len(I_.ghost['Clk'].items), len(I_.ghost['Dev'].items))
            return False
        return True
    b.volatile(obj, field, read)


# ---- Machine.stop
c = contract(M, 'Machine.stop', serves=['C09'])
def _setup(b, case):
    m = lib.machine(b, 'LOGICAL', lib.light_set_with(b, {}))
    m.attrs['_keep_running'] = b.sym('bool', 'keep_running')
    # the job thread leaves its delay as soon as the clock is stopped: what it then reads of the run flag is what the flag is AT THAT
    # MOMENT, so the flag has to be down before the clock is told
    clk = m.attrs['_clock']
    inner = clk.methods['stop']
    def stop(I_, o, a, k):
        I_.ghost['run_flag_when_the_clock_was_stopped'] = m.attrs['_keep_running']
        return inner(I_, o, a, k)
    clk.methods['stop'] = stop
    b.ghost('run_flag_when_the_clock_was_stopped', None)
    return {'self': m}
c.setup(_setup)
c.ensures('clears-the-run-flag-and-stops-the-clock', "self._keep_running is False and len(ghost('Clk')) == 1 and ghost('Clk')[0][0] == 'stop'")
c.ensures('flag-first-then-the-clock', "ghost('run_flag_when_the_clock_was_stopped') is False")

# ---- Machine.run: the flag is consulted before every instruction; nothing is executed after it was seen cleared;
# the clock is stopped and output flushed on every way out
SRC_PROG = '''
def run_three_delays(self):
    from bardolph.vm.instruction import Instruction
    prog = [Instruction(OpCode.MOVEQ, 1, Register.TIME), Instruction(OpCode.WAIT), Instruction(OpCode.WAIT), Instruction(OpCode.WAIT)]
    self.run(prog)
'''
c = contract(M, 'run_three_delays', serves=['C09', 'C01', 'C19', 'C17'], src=SRC_PROG, name='lemma:Machine.run(time 1; wait; wait; wait) with stop at any point')
def _setup(b, case):
    m = lib.machine(b, 'LOGICAL', lib.light_set_with(b, {}))
    stop_flag(b, m, '_keep_running', 'stop_seen')
    rt = b.I.load_module('bardolph.runtime.i_runtime').ns['Runtime']
    lib.provide(b, rt, Opaque('runtime', {'get_fns': lambda I_, o, a, k: PyDict()}))
    flushed = PyList()
    il = b.module('bardolph.lib.i_lib')
    out = Opaque('output', {'out': lambda I_, o, a, k: flushed.items.append(('out', a[0])), 'newline': lambda I_, o, a, k: None,
                            'flush': lambda I_, o, a, k: flushed.items.append(('flush',))})
    lib.provide(b, il.ns['Output'], out)
    b.I.getattr_(m.attrs['_vm_io'], '_unnamed').items.append(b.sym('int', 'pending_value'))
    return {'self': m, '_flushed': flushed}
c.setup(_setup)
c.bounded('a 4-instruction program; the flag discipline is per loop pass')
c.ensures('clock-started-once-first', "ghost('Clk')[0][0] == 'start'")
c.ensures('clock-stopped-on-the-way-out', "ghost('Clk')[-1][0] == 'stop'")
c.ensures('nothing-executed-after-the-stop-was-seen', "ghost('stop_seen') ==> len(ghost('Clk')) <= ghost('stop_seen_at')[0] + 1")
c.ensures('runs-to-the-end-when-not-stopped', "not ghost('stop_seen') ==> len(ghost('Clk')) == 5 and self._reg.pc == 4")
c.ensures('pending-output-written-on-every-way-out', "len(_flushed) == 2 and _flushed[0][0] == 'out' and _flushed[1][0] == 'flush' and len(self._vm_io._unnamed) == 0")

# ---- Clock: every wait loop leaves at the first wake-up that finds the clock stopped
c = contract(CK, 'Clock.wait', serves=['C09', 'C10'])
def _setup(b, case):
    clk, start, cue, now0 = clock_obj(b)
    return {'self': clk}
c.setup(_setup)
c.ensures('reports-the-flag', "iff(result, not ghost('stopped_seen'))")

c = contract(CK, 'Clock.stop', serves=['C09'])
c.setup(_setup)
c.ensures('clears-the-flag', 'self._keep_going is False')

# ---- the clock thread: every pass of its loop fires the event after the sleep, whatever the flag has become
c = contract(CK, 'Clock.run', serves=['C09', 'C08'], unwrap=1)
def _setup(b, case):
    clk, start, cue, now0 = clock_obj(b)
    ev = clk.attrs['_event']
    b.ghost('fired', 0)
    b.ghost('passes', 0)
    def inc(name):
        def f(I_, o, a, k):
            I_.ghost[name] = mk(to_term(I_.ghost[name], 'int') + 1, 'int')
        return f
    ev.methods['set'] = inc('fired')
    ev.methods['clear'] = lambda I_, o, a, k: None
    def read(I_, o, f):
        v = I_.fresh('bool', 'keep_going')
        r = I_.branch(v.t)
        if r:
            I_.ghost['passes'] = mk(to_term(I_.ghost['passes'], 'int') + 1, 'int')
        return r
    b.volatile(clk, '_keep_going', read)
    st = b.sym('real', 'sleep_time')
    settings = Opaque('settings', {'get_value': lambda I_, o, a, k: st})
    return {'self': clk, 'settings': settings}
c.setup(_setup)
c.loop(0, ["ghost('fired') == ghost('passes')"], modifies=['ghost:fired', 'ghost:passes'])
c.ensures('each-pass-that-saw-the-flag-set-fires-once', "ghost('fired') == ghost('passes')")

# ---- the ticking thread of a clock that was stopped before (the same job runs a second time) ticks again: its first look at
#      the flag sees what the thread itself made of it, not the False the earlier stop left behind (the stop was aimed at
#      the earlier run).  Later reads: stopped, so that the loop ends after the first pass.
c = contract(CK, 'Clock.run', serves=['C09', 'C10', 'C17'], unwrap=1, name='Clock.run[started again after a stop]')
def _setup(b, case):
    clk, start, cue, now0 = clock_obj(b)
    clk.attrs['_keep_going'] = False              # state left by the stop of the previous run
    ev = clk.attrs['_event']
    b.ghost('fired', 0)
    b.ghost('flag_reads', 0)
    def fire(I_, o, a, k):
        I_.ghost['fired'] = I_.ghost['fired'] + 1
    ev.methods['set'] = fire
    ev.methods['clear'] = lambda I_, o, a, k: None
    def read(I_, o, f):
        I_.ghost['flag_reads'] = I_.ghost['flag_reads'] + 1
        return o.attrs[f] if I_.ghost['flag_reads'] == 1 else False
    b.volatile(clk, '_keep_going', read)
    st = b.sym('real', 'sleep_time')
    settings = Opaque('settings', {'get_value': lambda I_, o, a, k: st})
    return {'self': clk, 'settings': settings}
c.setup(_setup)
c.unroll_own_loops = True
c.ensures('ticks-at-least-once', "ghost('fired') == 1")

# ---- ScriptJob
SJ = 'bardolph/controller/script_job.py'
c = contract(SJ, 'ScriptJob.request_stop', serves=['C09'])
def _setup(b, case):
    m = lib.machine(b, 'LOGICAL', lib.light_set_with(b, {}))
    sj = PyObj(b.cls('bardolph.controller.script_job', 'ScriptJob'), {'_program': PyList(), '_parser': None, '_machine': m})
    return {'self': sj}
c.setup(_setup)
c.ensures('stops-its-machine', "self._machine._keep_running is False and ghost('Clk')[-1][0] == 'stop'")

# ---- delivery: JobControl.stop_* reach exactly the named / current / all background agents (see also c08)
JC = 'bardolph/lib/job_control.py'
from .c08_job_control import job_control
c = contract(JC, 'JobControl.stop_job', serves=['C09', 'C20'])
def _setup(b, case):
    jc, q, act = job_control(b, 'any', 1, nbg=1, may_fail=False)
    which = case['which']
    bg = list(jc.attrs['_background'].d.values())[0]
    name = act.attrs['_name'] if which == 'active' else bg.attrs['_name'] if which == 'background' else b.sym('str', 'other_name')
    if which == 'other':
        b.assume(name.t != act.attrs['_name'].t)
        b.assume(name.t != bg.attrs['_name'].t)
    if which == 'background':
        b.assume(name.t != act.attrs['_name'].t)
    return {'self': jc, 'name': name, '_act': act, '_bg': bg}
c.setup(_setup)
c.cases([{'which': w} for w in ('active', 'background', 'other')])
c.ensures('exactly-the-named-job', "(same(name, _act._name) ==> result is True and len(ghost('stop_requests')) == 1 and ghost('stop_requests')[0] is _act._job) and "
          "(same(name, _bg._name) ==> result is True and len(ghost('stop_requests')) == 1 and ghost('stop_requests')[0] is _bg._job) and "
          "(not same(name, _act._name) and not same(name, _bg._name) ==> result is False and len(ghost('stop_requests')) == 0)")

c = contract(JC, 'JobControl.stop_background', serves=['C09', 'C20'])
def _setup(b, case):
    jc, q, act = job_control(b, 'any', 1, nbg=2, may_fail=False)
    return {'self': jc, '_act': act}
c.setup(_setup)
c.bounded('2 background jobs')
c.ensures('all-background-jobs-and-only-them', "len(ghost('stop_requests')) == 2 and ghost('stop_requests')[0] is not _act._job and ghost('stop_requests')[1] is not _act._job "
          "and ghost('stop_requests')[0] is not ghost('stop_requests')[1]")

c = contract(JC, 'JobControl.stop_current', serves=['C09', 'C20'], name='JobControl.stop_current[delivery]')
def _setup(b, case):
    jc, q, act = job_control(b, 'any', 1, nbg=1, may_fail=False)
    return {'self': jc, '_act': act}
c.setup(_setup)
c.ensures('only-the-current-job', "len(ghost('stop_requests')) <= 1 and (len(ghost('stop_requests')) == 1 ==> ghost('stop_requests')[0] is _act._job) and iff(result, len(ghost('stop_requests')) == 1)")

# ---- WebApp.stop_all: the queue is emptied BEFORE anything is stopped, then current and all background jobs
WA = 'web/web_app.py'
c = contract(WA, 'WebApp.stop_all', serves=['C09', 'C20'])
def _setup(b, case):
    calls = PyList()
    def rec(name, ret):
        return lambda I_, o, a, k: (calls.items.append(name), ret(I_))[1]
    jobs = Opaque('jobs', {'clear_queue': rec('clear_queue', lambda I_: None),
                           'stop_current': rec('stop_current', lambda I_: I_.fresh('bool', 'r1')),
                           'stop_background': rec('stop_background', lambda I_: I_.fresh('bool', 'r2'))})
    wa = PyObj(b.cls('web.web_app', 'WebApp'), {'_scripts': PyDict(), '_jobs': jobs})
    return {'self': wa, '_calls': calls}
c.setup(_setup)
c.ensures('clear-first-then-stop-everything', "len(_calls) == 3 and _calls[0] == 'clear_queue' and _calls[1] == 'stop_current' and _calls[2] == 'stop_background'")


# ---- a stop request is never lost: also when it arrives after the job was started but before the job thread has
# reached the first instruction.  The interleaving "request_stop() runs to completion, then the job thread runs
# execute()" is exactly the sequential composition below.
c = contract(SJ, 'stop_before_first_instruction', serves=['C09'], name='lemma:ScriptJob.request_stop; ScriptJob.execute', src='''
def stop_before_first_instruction(self):
    from bardolph.vm.instruction import Instruction
    from bardolph.vm.vm_codes import OpCode, Register
    self._program = [Instruction(OpCode.MOVEQ, 1, Register.TIME), Instruction(OpCode.WAIT), Instruction(OpCode.WAIT)]
    self.request_stop()
    self.execute()
''')
def _setup(b, case):
    m = lib.machine(b, 'LOGICAL', lib.light_set_with(b, {}))
    rt = b.I.load_module('bardolph.runtime.i_runtime').ns['Runtime']
    lib.provide(b, rt, Opaque('runtime', {'get_fns': lambda I_, o, a, k: PyDict()}))
    il = b.module('bardolph.lib.i_lib')
    lib.provide(b, il.ns['Output'], Opaque('output', {'out': lambda I_, o, a, k: None, 'newline': lambda I_, o, a, k: None, 'flush': lambda I_, o, a, k: None}))
    sj = PyObj(b.cls('bardolph.controller.script_job', 'ScriptJob'), {'_program': None, '_parser': None, '_machine': m})
    return {'self': sj}
_setup_job = _setup
c.setup(_setup)
c.ensures('the-stopped-run-executes-nothing', "no_clock_request(ghost('Clk'), 'pause_for')")


def _replay_stop_lost(ob, repo):
    from pyvc.replay import run_scripts
    import subprocess, json
    code = """import sys; sys.path.insert(0, %r)
from tests import test_module
from bardolph.controller.script_job import ScriptJob
from bardolph.controller import i_controller
from bardolph.lib.injection import provide
test_module.configure()
job = ScriptJob.from_string('on "Top" off "Top"')
job.request_stop()      # the stop request arrives after the job was started, before its thread runs
job.execute()
calls = [l.get_call_list() for l in provide(i_controller.LightApi).get_lights() if l.get_name() == 'Top'][0]
import json; print(json.dumps({'commands_sent_after_the_stop': len(calls)}))
""" % repo
    out = subprocess.run(['/venv/bin/python', '-c', code], capture_output=True, text=True, timeout=120, cwd=repo)
    try:
        res = json.loads(out.stdout.strip().splitlines()[-1])
    except Exception:
        return {'reproduced': False, 'why': out.stderr[-300:]}
    return {'reproduced': res['commands_sent_after_the_stop'] > 0, 'call': "ScriptJob.from_string('on \"Top\" off \"Top\"'); request_stop(); execute()",
            'observed': res, 'required': 'no device command after the stop request'}
c.replay_hook = _replay_stop_lost


# ---- "a stop affects only the run it was aimed at: the same or another script started afterwards runs to completion":
#      a stop that reaches the job after its run has ended must not be remembered by the next run of the same job
c = contract(SJ, 'stop_then_run_again', serves=['C09', 'C17'], name='lemma:ScriptJob.execute; request_stop; execute (the same job started again)', src='''
def stop_then_run_again(self):
    from bardolph.vm.instruction import Instruction
    from bardolph.vm.vm_codes import OpCode, Register
    self._program = [Instruction(OpCode.MOVEQ, 1, Register.TIME), Instruction(OpCode.WAIT), Instruction(OpCode.WAIT)]
    self.execute()
    self.request_stop()
    self.execute()
''')
c.setup(_setup_job)
c.ensures('the-first-run-is-complete', "ghost('Clk')[0][0] == 'start' and ghost('Clk')[3][0] == 'stop' and ghost('Clk')[4][0] == 'stop'")
c.ensures('the-run-started-after-the-stop-is-complete-too',
          "len(ghost('Clk')) == 9 and ghost('Clk')[5][0] == 'start' and ghost('Clk')[6][0] == ghost('Clk')[1][0] and ghost('Clk')[7][0] == ghost('Clk')[2][0] and ghost('Clk')[8][0] == 'stop'")



def _install(I):
    def no_clock_request(I_, a, k):
        clk, kind = a
        return all(not (isinstance(x, tuple) and x and x[0] == kind) for x in clk.items)
    I.spec_fns['no_clock_request'] = Builtin('spec.no_clock_request', no_clock_request)
spec.EXTRA_INSTALLERS.append(_install)


for _c in spec.REGISTRY:
    if 'C09' in _c.serves and _c.path in (M, CK, SJ):
        _c.assume_note('C09 rely: Machine._keep_running and Clock._keep_going are written by other threads: every read returns an arbitrary value that, '
                       'once False has been read, stays False until this thread writes it; that a thread blocked in threading.Event.wait() is woken '
                       'after a stop is NOT decided (liveness)')
