"""Template lemmas over the real VM: the REAL parser of the current tree compiles a template script (natively,
on every run), the resulting instructions are rebuilt as Instruction objects, and the REAL handlers are then
executed symbolically from a symbolic machine state by a small driver that mirrors the dispatch of Machine.run
(handler call, pc advance except after END / JSR / JUMP).  The program counter stays concrete on every path,
data are symbolic, loops are handled by induction: a lemma assumes the loop invariant at the loop top, runs one
pass, and proves the invariant again (or the exit state)."""
import json
import os
import subprocess
import tempfile
from pyvc.values import PyObj, PyList, PyDict, Opaque
from . import lib

_CACHE = {}
VERIF = os.path.dirname(os.path.dirname(os.path.abspath(__file__)))


def compile_scripts(texts):
    repo = os.environ.get('PYVC_REPO', '/repo')
    key = (repo, tuple(texts))
    if key in _CACHE:
        return _CACHE[key]
    with tempfile.TemporaryDirectory() as td:
        ip, op = os.path.join(td, 'in.json'), os.path.join(td, 'out.json')
        json.dump(list(texts), open(ip, 'w'))
        p = subprocess.run(['/venv/bin/python', os.path.join(VERIF, 'tools', 'compile_script.py'), repo, ip, op],
                           capture_output=True, text=True, timeout=300, cwd=repo)
        if not os.path.exists(op):
            raise RuntimeError('compile_script failed: ' + (p.stderr or '')[-500:])
        res = json.load(open(op))
    _CACHE[key] = res
    return res


def rebuild(b, prog):
    Ins = b.cls('bardolph.vm.instruction', 'Instruction')
    def dec(j):
        if j['k'] == 'lit':
            return j['v']
        if j['k'] == 'enum':
            return b.enum(j['m'], j['c'], j['n'])
        raise ValueError('operand %r cannot be rebuilt' % (j,))
    return PyList([PyObj(Ins, {'op_code': dec(o), 'param0': dec(p0), 'param1': dec(p1)}) for o, p0, p1 in prog])


DRIVER = '''
def run_until(self, stop_pcs, max_steps):
    """the dispatch of Machine.run, stopping when pc reaches one of stop_pcs (after at least one step)"""
    steps = 0
    while steps < max_steps:
        if steps > 0 and self._reg.pc in stop_pcs:
            return steps
        if self._reg.pc >= len(self._program):
            return steps
        inst = self._program[self._reg.pc]
        self._fn_table[inst.op_code]()
        if inst.op_code not in (OpCode.END, OpCode.JSR, OpCode.JUMP):
            self._reg.pc += 1
        steps += 1
    return -1
'''


def machine_with_program(b, text, mode='LOGICAL', lights=None, groups=None, locations=None):
    res = compile_scripts([text])[0]
    if not res['ok']:
        raise RuntimeError('template script rejected by the real parser: %s' % res['errors'])
    ls = lib.light_set_with(b, lights or {}, groups=groups, locations=locations)
    m = lib.machine(b, mode, ls)
    m.attrs['_program'] = rebuild(b, res['program'])
    m.attrs['_reg'].attrs['pc'] = 0
    return m, res['program']


def find(prog, op, nth=0, p0=None):
    hits = [i for i, (o, a, b_) in enumerate(prog) if o.get('n') == op and (p0 is None or a.get('n') == p0 or a.get('v') == p0)]
    return hits[nth]


def setvar(m, name, value):
    m.attrs['_call_stack'].attrs['_top'].attrs['vars'].d[name] = value


def loop_frame(b, m, **loopvars):
    """enter a loop frame (as LOOP does) and preset its loop variables"""
    I = b.I
    cs = m.attrs['_call_stack']
    I.call(I.getattr_(cs, 'enter_loop'), [], {})
    top = cs.attrs['_top']
    LV = b.cls('bardolph.vm.vm_codes', 'LoopVar')
    for k, v in loopvars.items():
        top.attrs['_loop_var'].d[LV.members[k]] = v
    return top
