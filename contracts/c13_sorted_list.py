"""C13 (stepping part) / C04: bardolph/lib/sorted_list.py over sequences of *symbolic length*.

Elements are atoms of a total order (names; modelled as integers used only through < and ==).
bisect / insort are assumed contracts (partition point of a sorted sequence).  Every operation
preserves strict sortedness (hence duplicate-freedom), add/remove change the element set by exactly
{v}, next(v)/prev(v) return the least element > v / greatest element < v for ANY probe v, present or not.
"""
import z3
from pyvc.spec import contract, Scalar
from pyvc.values import SymSeq, PyList, SymVal, Builtin
from pyvc.ops import to_term, mk
from pyvc import spec
from . import lib

S = 'bardolph/lib/sorted_list.py'


def _seq(I, s):
    if isinstance(s, SymSeq):
        return s.arr, s.n
    if isinstance(s, PyList):       # replay: concrete list
        arr = z3.K(z3.IntSort(), z3.IntVal(0))
        for i, x in enumerate(s.items):
            arr = z3.Store(arr, i, to_term(x, 'int'))
        return arr, z3.IntVal(len(s.items))
    raise TypeError('sequence expected')


def install(I):
    F = I.spec_fns

    def sorted_strict(I_, a, k):
        arr, n = _seq(I_, a[0])
        i, j = z3.Ints('i!ss j!ss')
        return mk(z3.ForAll([i, j], z3.Implies(z3.And(0 <= i, i < j, j < n), z3.Select(arr, i) < z3.Select(arr, j))), 'bool')
    F['sorted_strict'] = Builtin('spec.sorted_strict', sorted_strict)

    def member_at(I_, a, k):
        """member_at(seq, x, w): w is a valid index holding x (explicit witness form of membership)"""
        arr, n = _seq(I_, a[0])
        w = to_term(a[2], 'int')
        return mk(z3.And(0 <= w, w < n, z3.Select(arr, w) == to_term(a[1], 'int')), 'bool')
    F['member_at'] = Builtin('spec.member_at', member_at)

    def absent(I_, a, k):
        arr, n = _seq(I_, a[0])
        kq = z3.Int('k!abs')
        return mk(z3.ForAll([kq], z3.Implies(z3.And(0 <= kq, kq < n), z3.Select(arr, kq) != to_term(a[1], 'int'))), 'bool')
    F['absent'] = Builtin('spec.absent', absent)

    def same_seq(I_, a, k):
        a1, n1 = _seq(I_, a[0])
        a2, n2 = _seq(I_, a[1])
        kq = z3.Int('k!same')
        return mk(z3.And(n1 == n2, z3.ForAll([kq], z3.Implies(z3.And(0 <= kq, kq < n1), z3.Select(a1, kq) == z3.Select(a2, kq)))), 'bool')
    F['same_seq'] = Builtin('spec.same_seq', same_seq)

    def inserted_at(I_, a, k):
        """inserted_at(new, old, p, v): new is old with v inserted at index p"""
        an, nn = _seq(I_, a[0])
        ao, no = _seq(I_, a[1])
        p, v = to_term(a[2], 'int'), to_term(a[3], 'int')
        kq = z3.Int('k!ins')
        return mk(z3.And(nn == no + 1, 0 <= p, p <= no, z3.Select(an, p) == v,
                         z3.ForAll([kq], z3.Implies(z3.And(0 <= kq, kq < p), z3.Select(an, kq) == z3.Select(ao, kq))),
                         z3.ForAll([kq], z3.Implies(z3.And(p < kq, kq < nn), z3.Select(an, kq) == z3.Select(ao, kq - 1)))), 'bool')
    F['inserted_at'] = Builtin('spec.inserted_at', inserted_at)

    def removed_at(I_, a, k):
        an, nn = _seq(I_, a[0])
        ao, no = _seq(I_, a[1])
        p = to_term(a[2], 'int')
        kq = z3.Int('k!rem')
        return mk(z3.And(nn == no - 1, 0 <= p, p < no,
                         z3.ForAll([kq], z3.Implies(z3.And(0 <= kq, kq < p), z3.Select(an, kq) == z3.Select(ao, kq))),
                         z3.ForAll([kq], z3.Implies(z3.And(p <= kq, kq < nn), z3.Select(an, kq) == z3.Select(ao, kq + 1)))), 'bool')
    F['removed_at'] = Builtin('spec.removed_at', removed_at)

    def least_above(I_, a, k):
        """least_above(seq, v, r): r is an element > v and no element lies strictly between v and r"""
        arr, n = _seq(I_, a[0])
        v, r = to_term(a[1], 'int'), to_term(a[2], 'int')
        kq = z3.Int('k!la')
        return mk(z3.And(r > v, z3.ForAll([kq], z3.Implies(z3.And(0 <= kq, kq < n), z3.Or(z3.Select(arr, kq) <= v, z3.Select(arr, kq) >= r)))), 'bool')
    F['least_above'] = Builtin('spec.least_above', least_above)

    def greatest_below(I_, a, k):
        arr, n = _seq(I_, a[0])
        v, r = to_term(a[1], 'int'), to_term(a[2], 'int')
        kq = z3.Int('k!gb')
        return mk(z3.And(r < v, z3.ForAll([kq], z3.Implies(z3.And(0 <= kq, kq < n), z3.Or(z3.Select(arr, kq) >= v, z3.Select(arr, kq) <= r)))), 'bool')
    F['greatest_below'] = Builtin('spec.greatest_below', greatest_below)

    def none_above(I_, a, k):
        arr, n = _seq(I_, a[0])
        v = to_term(a[1], 'int')
        kq = z3.Int('k!na')
        return mk(z3.ForAll([kq], z3.Implies(z3.And(0 <= kq, kq < n), z3.Select(arr, kq) <= v)), 'bool')
    F['none_above'] = Builtin('spec.none_above', none_above)

    def none_below(I_, a, k):
        arr, n = _seq(I_, a[0])
        v = to_term(a[1], 'int')
        kq = z3.Int('k!nb')
        return mk(z3.ForAll([kq], z3.Implies(z3.And(0 <= kq, kq < n), z3.Select(arr, kq) >= v)), 'bool')
    F['none_below'] = Builtin('spec.none_below', none_below)


spec.EXTRA_INSTALLERS.append(install)


def sl(b, name='self'):
    return b.seq('atom', name, cls=b.cls('bardolph.lib.sorted_list', 'SortedList'))


def std_setup(with_value=True):
    def f(b, case):
        d = {'self': sl(b)}
        if with_value:
            d['value'] = b.sym('atom', 'value')
        return d
    return f


PRE = ('sorted', 'sorted_strict(self)')

c = contract(S, 'SortedList._index_of', serves=['C13'])
c.setup(std_setup())
c.requires(*PRE)
c.ensures('found', 'not is_none(result) ==> member_at(self, value, result)')
c.ensures('not-found', 'is_none(result) ==> absent(self, value)')
c.ensures('pure', 'same_seq(self, old(self))')

c = contract(S, 'SortedList.has', serves=['C13'])
c.setup(std_setup())
c.requires(*PRE)
c.ensures('true', 'result ==> member_at(self, value, ghost_bisect())')
c.ensures('false', 'not result ==> absent(self, value)')

c = contract(S, 'SortedList.add', serves=['C13'])
c.setup(std_setup())
c.requires(*PRE)
c.ensures('stays-sorted', 'sorted_strict(self)')
c.ensures('present-before-nothing-changes', 'not absent(old(self), value) ==> same_seq(self, old(self))')
c.ensures('absent-before-inserted-once', 'absent(old(self), value) ==> inserted_at(self, old(self), ghost_bisect(), value)')

c = contract(S, 'SortedList.remove', serves=['C13'])
c.setup(std_setup())
c.requires(*PRE)
c.ensures('stays-sorted', 'sorted_strict(self)')
c.ensures('gone', 'absent(self, value)')
c.ensures('absent-before-nothing-changes', 'absent(old(self), value) ==> same_seq(self, old(self))')
c.ensures('present-before-removed-exactly-it', 'not absent(old(self), value) ==> removed_at(self, old(self), ghost_bisect()) and select(old(self), ghost_bisect()) == value')

c = contract(S, 'SortedList.first', serves=['C13', 'C04'])
c.setup(std_setup(False))
c.requires(*PRE)
c.ensures('empty', 'len(self) == 0 ==> is_none(result)')
c.ensures('least', 'len(self) > 0 ==> member_at(self, result, 0) and none_below(self, result)')

c = contract(S, 'SortedList.last', serves=['C13', 'C04'])
c.setup(std_setup(False))
c.requires(*PRE)
c.ensures('empty', 'len(self) == 0 ==> is_none(result)')
c.ensures('greatest', 'len(self) > 0 ==> member_at(self, result, len(self) - 1) and none_above(self, result)')

c = contract(S, 'SortedList.next', serves=['C13', 'C04'])
c.setup(std_setup())
c.requires(*PRE)
c.ensures('nearest-remaining-name-above', 'not is_none(result) ==> member_at(self, result, ghost_bisect()) and least_above(self, value, result)')
c.ensures('none-when-nothing-above', 'is_none(result) ==> none_above(self, value)')
c.ensures('pure', 'same_seq(self, old(self))')

c = contract(S, 'SortedList.prev', serves=['C13', 'C04'])
c.setup(std_setup())
c.requires(*PRE)
c.ensures('nearest-remaining-name-below', 'not is_none(result) ==> member_at(self, result, ghost_bisect() - 1) and greatest_below(self, value, result)')
c.ensures('none-when-nothing-below', 'is_none(result) ==> none_below(self, value)')
c.ensures('pure', 'same_seq(self, old(self))')
