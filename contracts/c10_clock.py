"""C10: delays run on one time line from script start; time-of-day waits restart it.

Ghost time: time.time() returns a fresh real >= the previous one (assumed: non-decreasing clock).
Event.wait() counts wake-ups in ghost `waits` and records the elapsed time seen just before it in
`et_before_wait` (via the et() read that preceded it).  Clock._keep_going is written by other threads
(Clock.stop / Clock.run): every read returns an arbitrary boolean (rely = anything), recorded in ghost
`stopped_seen` when False.
"""
import z3
from pyvc.spec import contract, Scalar
from pyvc.values import PyObj, Opaque, SymVal, Builtin
from pyvc.ops import mk, to_term
from . import lib

C = 'bardolph/lib/clock.py'


def clock_obj(b, kinds='real'):
    I = b.I
    cls = b.cls('bardolph.lib.clock', 'Clock')
    ev = Opaque('event')

    def ev_wait(I_, o, a, k):
        I_.ghost['waits'] = mk(to_term(I_.ghost['waits'], 'int') + 1, 'int')
        I_.ghost['et_before_wait'] = I_.ghost.get('last_et')
        return True
    ev.methods.update(wait=ev_wait, set=lambda *a: None, clear=lambda *a: None)
    start = b.sym('real', 'start')
    cue = b.sym(kinds, 'cue')
    clk = PyObj(cls, {'_event': ev, '_start_time': start, '_cue_time': cue, '_keep_going': True})
    now0 = b.sym('real', 'now0')
    b.ghost('now', now0)
    b.ghost('waits', b.sym('int', 'waits0'))
    b.ghost('stopped_seen', False)
    b.ghost('last_et', None)
    b.ghost('et_before_wait', None)

    def read_keep_going(I_, obj, field):
        # rely: other threads only clear the flag (Clock.stop); once seen False it stays False for this thread
        if I_.ghost['stopped_seen']:
            return False
        v = I_.fresh('bool', 'keep_going')
        if not I_.branch(v.t):
            I_.ghost['stopped_seen'] = True
            return False
        return True
    b.volatile(clk, '_keep_going', read_keep_going)
    return clk, start, cue, now0


def install(I):
    # et() bookkeeping: remember the elapsed time computed by the last et() call
    pass


# ---- et / reset
c = contract(C, 'Clock.et', serves=['C10'])
def _setup(b, case):
    clk, start, cue, now0 = clock_obj(b)
    return {'self': clk}
c.setup(_setup)
c.ensures('elapsed', "result == ghost('now') - self._start_time and ghost('now') >= old(ghost('now'))")

c = contract(C, 'Clock.reset', serves=['C10'])
c.setup(_setup)
c.ensures('restart', "self._cue_time == 0 and self._start_time == ghost('now') and ghost('now') >= old(ghost('now'))")

# ---- pause_for: cumulative cue, never early, no wait when already due
for dk in ('real', 'int'):
    c = contract(C, 'Clock.pause_for', serves=['C10', 'C09'], name='Clock.pause_for[%s]' % dk)
    def _setup(b, case, dk=dk):
        clk, start, cue, now0 = clock_obj(b)
        d = b.sym(dk, 'delay')
        return {'self': clk, 'delay': d, '_now0': now0, '_waits0': b.I.ghost['waits']}
    c.setup(_setup)
    c.requires('pre', "delay >= 0 and self._cue_time >= 0 and self._start_time <= ghost('now')")
    INV = ["self._cue_time == old(self._cue_time) + delay",
           "self._start_time == old(self._start_time)",
           "ghost('now') >= _now0 and ghost('waits') >= _waits0",
           # every wake-up consumed so far was consumed while the delay was not yet due
           # once the delay is due no further wake-up is consumed (so: already due on entry => none at all)
           "_now0 - self._start_time >= self._cue_time ==> ghost('waits') == _waits0",
           "not ghost('stopped_seen')"]       # C09: leaves at the first wake-up that finds the clock stopped
    c.loop(0, INV, modifies=['ghost:now', 'ghost:waits'])
    c.ensures('time-line-is-cumulative', 'self._cue_time == old(self._cue_time) + delay')
    c.ensures('start-untouched', 'self._start_time == old(self._start_time)')
    c.ensures('never-early', "not ghost('stopped_seen') ==> ghost('now') - self._start_time >= self._cue_time")
    c.ensures('already-due-ends-at-once', "_now0 - old(self._start_time) >= old(self._cue_time) + delay ==> ghost('waits') == _waits0")
    c.ensures('zero-delay-never-blocks-when-on-time', "delay == 0 and _now0 - old(self._start_time) >= old(self._cue_time) ==> ghost('waits') == _waits0")

# ---- wait_until: returns at the first read that matches, then restarts the time line
c = contract(C, 'Clock.wait_until', serves=['C10', 'C09', 'C01'])
def _setup(b, case):
    clk, start, cue, now0 = clock_obj(b)
    matchf = z3.Function('PatternMatches', z3.IntSort(), z3.IntSort(), z3.BoolSort())
    tp = Opaque('pattern', methods={'match': lambda I_, o, a, k: mk(matchf(to_term(a[0], 'int'), to_term(a[1], 'int')), 'bool')})
    b.ghost('last_h', 0)
    b.ghost('last_m', 0)
    return {'self': clk, 'time_pattern': tp, '_now0': now0, '_match': Builtin('match', lambda I_, a, k: mk(matchf(to_term(a[0], 'int'), to_term(a[1], 'int')), 'bool'))}
c.setup(_setup)
c.loop(0, ["ghost('now') >= _now0", "ghost('last_h') == hour and ghost('last_m') == minute",
           "not ghost('stopped_seen')"],      # C09: the loop is never continued after a wake-up that found the clock stopped
       modifies=['ghost:now', 'ghost:waits', 'ghost:last_h', 'ghost:last_m'], havoc_kinds={'hour': 'int', 'minute': 'int'})
c.ensures('awaited-time-arrived', "not ghost('stopped_seen') ==> _match(ghost('last_h'), ghost('last_m'))")
c.ensures('time-line-restarts', "not ghost('stopped_seen') ==> self._cue_time == 0 and self._start_time == ghost('now') and ghost('now') >= _now0")


# ---- Machine._wait: 0 never blocks; seconds in logical/rgb, milliseconds in raw; a pattern waits for a time of day
for mode in ('LOGICAL', 'RAW', 'RGB'):
    for kind in ('real', 'int'):
        c = contract('bardolph/vm/machine.py', 'Machine._wait', serves=['C10', 'C01', 'C14'], name='Machine._wait[%s,%s]' % (mode, kind))
        def _setup(b, case, mode=mode, kind=kind):
            m = lib.machine(b, mode, lib.light_set_with(b, {}))
            lib.sym_regs(b, m, kind, ('time',))
            return {'self': m}
        c.setup(_setup)
        c.ensures('zero-or-negative-never-blocks', "old(self._reg.time) <= 0 ==> len(ghost('Clk')) == 0")
        c.ensures('one-delay-of-the-time-register',
                  "old(self._reg.time) > 0 ==> len(ghost('Clk')) == 1 and ghost('Clk')[0][0] == 'pause_for' and ghost('Clk')[0][1] == %s"
                  % ('real(old(self._reg.time)) / 1000' if mode == 'RAW' else 'old(self._reg.time)'))
        c.ensures('time-register-kept', 'unchanged(self._reg.time)')

c = contract('bardolph/vm/machine.py', 'Machine._wait', serves=['C10', 'C11', 'C01'], name='Machine._wait[pattern]')
def _setup(b, case):
    m = lib.machine(b, 'LOGICAL', lib.light_set_with(b, {}))
    tp = b.new(('bardolph.lib.time_pattern', 'TimePattern'), '1*', '30')
    m.attrs['_reg'].attrs['time'] = tp
    return {'self': m, '_tp': tp}
c.setup(_setup)
c.ensures('one-time-of-day-wait', "len(ghost('Clk')) == 1 and ghost('Clk')[0][0] == 'wait_until' and same(ghost('Clk')[0][1], _tp)")


# ---- hour and minute come from ONE reading of the clock (two readings may straddle an hour boundary)
c = contract(C, 'Clock._hour_minute', serves=['C10', 'C11'])
def _setup(b, case):
    b.ghost('clock_readings', 0)
    b.ghost('last_h', 0)
    b.ghost('last_m', 0)
    return {}
c.setup(_setup)
c.ensures('one-consistent-reading', "ghost('clock_readings') == 1 and result[0] is ghost('last_h') and result[1] is ghost('last_m')")


# ---- a clock can be started again after a stop (the same ScriptJob runs again): the second run's delays are real delays,
#      i.e. after start() the clock is going again: either the flag is already set or a NEW ticking thread was started that
#      sets it (the old one may still be asleep and then ends)
c = contract(C, 'restart', serves=['C10', 'C09', 'C17'], name='lemma:start(); stop(); start()', src='''
def restart(clk):
    clk.start()
    clk.stop()
    clk.start()
    return clk
''')
def _setup(b, case):
    from pyvc.values import Builtin, Opaque, PyList
    lib.injection_reset(b)
    started = b.ghost('threads_started', PyList())
    th = b.module('threading')
    def thread_ctor(I_, a, k):
        t = Opaque('Thread', attrs={'target': k.get('target')})
        t.methods['start'] = lambda I2, o, a2, k2: started.items.append(o)
        t.methods['is_alive'] = lambda I2, o, a2, k2: I2.fresh('bool', 'old_thread_still_asleep')
        return t
    th.ns['Thread'] = Builtin('Thread', thread_ctor)
    b.module('time').ns['time'] = Builtin('time.time', lambda I_, a, k: I_.fresh('real', 'now'))
    clk = b.new((C[:-3].replace('/', '.'), 'Clock'))
    return {'clk': clk}
c.setup(_setup)
c.ensures('going-again', "result._keep_going is True or len(ghost('threads_started')) == 2")
c.ensures('time-line-restarted', 'result._cue_time == 0')
