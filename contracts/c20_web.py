"""C20: the web front end runs only the manifest's scripts, escaped, without duplicates.

Manifests are symbolic: every string is a symbolic string, optional keys are present or absent per case.
html.escape / str.title / str.replace are uninterpreted (assumed contracts); render_template and the request
headers are flask stubs.  JobControl is an opaque recorder: the clauses state exactly which of add_job /
spawn_job / stop_job / stop_current / stop_background / clear_queue is called, with which arguments.
"""
import z3
from pyvc import spec
from pyvc.spec import contract
from pyvc.values import PyObj, PyList, PyDict, Opaque, Builtin, SymVal
from pyvc.ops import mk, to_term
from . import lib

WA = 'web/web_app.py'
FE = 'web/front_end.py'


def install(I):
    F = I.spec_fns

    def fn(name, f):
        F[name] = Builtin('spec.' + name, lambda I_, a, k: f(I_, *a))
    fn('escaped', lambda I_, s_: lib.html_escape(I_, s_))
    from pyvc.models import path_join
    fn('joined', lambda I_, *a: path_join(I_, list(a)))

    def strip_ls(I_, f_):
        t = to_term(f_)
        n = z3.Length(t)
        return mk(z3.If(z3.SuffixOf(z3.StringVal('.ls'), t), z3.SubString(t, 0, n - 3), t), 'str')
    fn('strip_ls', strip_ls)


spec.EXTRA_INSTALLERS.append(install)


def jobs_stub(b, running=None):
    calls = PyList()
    def rec(name, ret=None):
        def f(I_, o, a, k):
            calls.items.append((name,) + tuple(a))
            return ret(I_) if callable(ret) else ret
        return f
    st = Opaque('jobs', {'add_job': rec('add_job', Opaque('agent')), 'spawn_job': rec('spawn_job', Opaque('agent')), 'insert_job': rec('insert_job'),
                         'stop_job': rec('stop_job', lambda I_: I_.fresh('bool', 'r')), 'stop_current': rec('stop_current', lambda I_: I_.fresh('bool', 'r')),
                         'stop_background': rec('stop_background', lambda I_: I_.fresh('bool', 'r')), 'clear_queue': rec('clear_queue'),
                         'is_running': (lambda I_, o, a, k: (calls.items.append(('is_running',) + tuple(a)), running if running is not None else I_.fresh('bool', 'running'))[1]),
                         'get_background': rec('get_background', PyList()), 'get_current': rec('get_current'), 'get_queued': rec('get_queued', PyList())})
    return st, calls


def web_app(b, scripts=None, running=None):
    jobs, calls = jobs_stub(b, running)
    wa = PyObj(b.cls('web.web_app', 'WebApp'), {'_scripts': PyDict(scripts or {}), '_jobs': jobs})
    return wa, calls


def script_control(b, tag='sc', background=None):
    cls = b.cls('web.web_app', 'ScriptControl')
    return PyObj(cls, {'file_name': b.sym('str', tag + '_file'), 'run_background': b.sym('bool', tag + '_bg') if background is None else background,
                       'path': b.sym('str', tag + '_path'), 'title': b.sym('str', tag + '_title'), 'background': b.sym('str', tag + '_bgcol'),
                       'color': b.sym('str', tag + '_color'), 'icon': 'litBulb', 'running': None})


# ---- escaping
c = contract(WA, 'ScriptControl.__init__', serves=['C20'])
def _setup(b, case):
    self_ = PyObj(b.cls('web.web_app', 'ScriptControl'), {})
    return {'self': self_, 'file_name': b.sym('str', 'file_name'), 'run_background': b.sym('bool', 'bg'), 'title': b.sym('str', 'title'),
            'path': b.sym('str', 'path'), 'background': b.sym('str', 'background'), 'color': b.sym('str', 'color')}
c.setup(_setup)
c.ensures('every-manifest-string-is-escaped', 'self.file_name == escaped(file_name) and self.path == escaped(path) and self.title == escaped(title) '
          'and self.background == escaped(background) and self.color == escaped(color)')
c.ensures('not-running-yet', 'self.running is None and self.run_background is run_background')

# ---- derivations
for has_path in (False, True):
    c = contract(WA, 'WebApp.get_script_path', serves=['C20'], name='WebApp.get_script_path[path %s]' % ('given' if has_path else 'absent'))
    def _setup(b, case, has_path=has_path):
        wa, calls = web_app(b)
        cfg = PyDict({'file_name': b.sym('str', 'file_name')})
        if has_path:
            cfg.d['path'] = b.sym('str', 'given_path')
        return {'self': wa, 'script_config': cfg}
    c.setup(_setup)
    if has_path:
        c.ensures('given-path-or-derived', "(script_config['path'] != '' ==> result == script_config['path']) and (script_config['path'] == '' ==> result == strip_ls(script_config['file_name']))")
    else:
        c.ensures('file-name-without-trailing-ls', "result == strip_ls(script_config['file_name'])")

# ---- lookup and queueing
c = contract(WA, 'WebApp.get_script_control', serves=['C20', 'C08'])
def _setup(b, case):
    sc = script_control(b)
    key = b.sym('str', 'manifest_path')
    wa, calls = web_app(b, {key: sc})
    return {'self': wa, 'path': b.sym('str', 'requested'), '_key': key, '_sc': sc, '_calls': calls}
c.setup(_setup)
c.ensures('unlisted-path-gives-nothing', 'path != _key ==> result is None and len(_calls) == 0')
c.ensures('listed-path-gives-a-copy-with-the-running-state-of-its-job', "path == _key ==> result is not None and result is not _sc and result.file_name == _sc.file_name "
          "and len(_calls) == 1 and _calls[0][0] == 'is_running' and _calls[0][1] == _sc.path")
c.ensures('manifest-entry-not-modified', '_sc.running is None')

for bg in (False, True):
    c = contract(WA, 'WebApp.queue_script', serves=['C20'], unwrap=1, name='WebApp.queue_script[%s]' % ('background' if bg else 'queued'))
    def _setup(b, case, bg=bg):
        wa, calls = web_app(b)
        sc = script_control(b, background=bg)
        raw = b.sym('str', 'manifest_file_name')
        sc.attrs['file_name'] = lib.html_escape(b.I, raw)       # as ScriptControl.__init__ stores it
        made = PyList()
        sj = b.cls('bardolph.controller.script_job', 'ScriptJob')
        def from_file(I_, a, k):
            j = Opaque('script-job')
            made.items.append((j, a[0]))
            return j
        from pyvc.values import StaticMethod
        sj.attrs['from_file'] = StaticMethod(Builtin('ScriptJob.from_file', from_file))
        sp = b.sym('str', 'script_dir')
        settings = Opaque('settings', {'get_value': lambda I_, o, a, k: sp})
        return {'self': wa, 'script_control': sc, 'settings': settings, '_calls': calls, '_made': made, '_dir': sp, '_raw': raw}
    c.setup(_setup)
    c.ensures('the-file-the-manifest-names', "_made[0][1] == joined(_dir, _raw)")
    c.ensures('exactly-one-start-of-exactly-this-script', "len(_calls) == 1 and _calls[0][0] == '%s' and len(_made) == 1 and _calls[0][1] is _made[0][0] "
              "and _calls[0][2] == script_control.path" % ('spawn_job' if bg else 'add_job'))

# ---- front end
def front_end(b):
    return PyObj(b.cls('web.front_end', 'FrontEnd'), {})


for listed, running in ((True, False), (True, True), (False, None)):
    c = contract(FE, 'FrontEnd.run_script', serves=['C20'], unwrap=1,
                 name='FrontEnd.run_script[%s]' % ('listed, %s' % ('already running' if running else 'idle') if listed else 'unlisted path'))
    def _setup(b, case, listed=listed, running=running):
        queued = PyList()
        sc = script_control(b)
        sc.attrs['running'] = running
        wa = Opaque('web_app', {'get_script_control': lambda I_, o, a, k: (sc if listed else None),
                                'queue_script': lambda I_, o, a, k: (queued.items.append(a[0]), True)[1],
                                'get_script_list': lambda I_, o, a, k: PyList(), 'get_path_root': lambda I_, o, a, k: '/'})
        iw = b.module('web.i_web')
        lib.injection_reset(b)
        lib.provide(b, iw.ns['WebApp'], wa)
        return {'self': front_end(b), 'path': b.sym('str', 'path'), 'web_app': wa, '_queued': queued, '_sc': sc}
    c.setup(_setup)
    if listed and not running:
        c.ensures('started-exactly-once', 'len(_queued) == 1 and _queued[0] is _sc')
    else:
        c.ensures('nothing-started', 'len(_queued) == 0')

for meth, expect in (('stop_current', 'stop_current'), ('stop_all', 'stop_all')):
    c = contract(FE, 'FrontEnd.' + meth, serves=['C20', 'C09'], unwrap=1)
    def _setup(b, case, expect=expect):
        acts = PyList()
        sc = script_control(b)
        wa = Opaque('web_app', {'get_script_control': lambda I_, o, a, k: sc, 'get_path_root': lambda I_, o, a, k: '/',
                                'stop_current': lambda I_, o, a, k: acts.items.append('stop_current'), 'stop_all': lambda I_, o, a, k: acts.items.append('stop_all'),
                                'stop_script': lambda I_, o, a, k: acts.items.append('stop_script')})
        lib.injection_reset(b)
        lib.provide(b, b.module('web.i_web').ns['WebApp'], wa)
        return {'self': front_end(b), 'web_app': wa, '_acts': acts}
    c.setup(_setup)
    c.ensures('acts-on-exactly-that', "len(_acts) == 1 and _acts[0] == '%s'" % expect)

c = contract(FE, 'FrontEnd.stop_script', serves=['C20', 'C09'], unwrap=1)
def _setup(b, case):
    acts = PyList()
    sc = script_control(b)
    sc.attrs['running'] = b.sym('bool', 'running')
    wa = Opaque('web_app', {'get_script_control': lambda I_, o, a, k: sc, 'get_path_root': lambda I_, o, a, k: '/', 'get_script_list': lambda I_, o, a, k: PyList(),
                            'stop_script': lambda I_, o, a, k: acts.items.append(('stop_script', a[0]))})
    lib.injection_reset(b)
    lib.provide(b, b.module('web.i_web').ns['WebApp'], wa)
    return {'self': front_end(b), 'path': b.sym('str', 'path'), 'web_app': wa, '_acts': acts, '_sc': sc}
c.setup(_setup)
# the job's NAME is the escaped path held by its ScriptControl (WebApp.queue_script), not the text of the request
c.ensures('stops-exactly-the-named-running-script', "(old(_sc.running) ==> len(_acts) == 1 and _acts[0][1] == _sc.path) and (not old(_sc.running) ==> len(_acts) == 0)")

# ---- status and capture render without error
c = contract(WA, 'WebApp.get_status', serves=['C20'])
def _setup(b, case):
    wa, calls = web_app(b)
    ls = lib.light_set_with(b, {})
    lib.injection_reset(b)
    lib.provide(b, b.module('bardolph.controller.i_controller').ns['LightSet'], ls)
    return {'self': wa}
c.setup(_setup)
c.ensures('all-five-entries', "len(result) == 5 and 'lights' in result")

c = contract(WA, 'WebApp.snapshot', serves=['C20', 'C18'], unwrap=1)
def _setup(b, case):
    wa, calls = web_app(b)
    ls = lib.light_set_with(b, {})
    lib.injection_reset(b)
    lib.provide(b, b.module('bardolph.controller.i_controller').ns['LightSet'], ls)
    written = PyList()
    f = Opaque('file', {'write': lambda I_, o, a, k: written.items.append(a[0]), 'close': lambda I_, o, a, k: written.items.append('<closed>')})
    b.ghost('open', lambda I_, a, k: f)
    settings = Opaque('settings', {'get_value': lambda I_, o, a, k: '.'})
    return {'self': wa, 'settings': settings, '_written': written}
c.setup(_setup)
c.ensures('writes-the-script-snapshot-once-and-closes', "len(_written) == 2 and _written[1] == '<closed>'")


# ---- the index page's list: a copy of every manifest entry with the running state of ITS job (escaped path), in manifest order
c = contract(WA, 'WebApp.get_script_list', serves=['C20'])
def _setup(b, case):
    s1, s2 = script_control(b, 'first'), script_control(b, 'second')
    k1, k2 = b.sym('str', 'key1'), b.sym('str', 'key2')
    b.assume(k1.t != k2.t) if hasattr(k1, 't') else None
    wa, calls = web_app(b, {k1: s1, k2: s2})
    return {'self': wa, '_s1': s1, '_s2': s2, '_calls': calls}
c.setup(_setup)
c.bounded('two manifest entries')
c.ensures('one-copy-per-entry-in-order', 'len(result) == 2 and result[0] is not _s1 and result[1] is not _s2 and result[0].file_name == _s1.file_name '
          'and result[1].file_name == _s2.file_name and result[0].path == _s1.path and result[1].path == _s2.path')
c.ensures('running-state-asked-under-the-jobs-name', "len(_calls) == 2 and _calls[0][0] == 'is_running' and _calls[0][1] == _s1.path and _calls[1][1] == _s2.path")
c.ensures('manifest-entries-not-modified', '_s1.running is None and _s2.running is None')

# ---- stop requests of the application object go to the job controller unchanged
for meth, arg in (('stop_script', True), ('stop_current', False)):
    c = contract(WA, 'WebApp.' + meth, serves=['C20', 'C09'])
    def _setup(b, case, arg=arg):
        wa, calls = web_app(b)
        d = {'self': wa, '_calls': calls}
        if arg:
            d['path'] = b.sym('str', 'job_name')
        return d
    c.setup(_setup)
    if arg:
        c.ensures('exactly-that-job', "len(_calls) == 1 and _calls[0][0] == 'stop_job' and _calls[0][1] == path")
    else:
        c.ensures('exactly-the-current-job', "len(_calls) == 1 and _calls[0][0] == 'stop_current'")

# ---- default title: the path with _ and - as spaces, in title case; a given title wins
for given in (False, True):
    c = contract(WA, 'WebApp.get_script_title', serves=['C20'], name='WebApp.get_script_title[title %s]' % ('given' if given else 'absent'))
    def _setup(b, case, given=given):
        wa, calls = web_app(b)
        cfg = PyDict({'file_name': 'evening_all-on.ls'})
        if given:
            cfg.d['title'] = b.sym('str', 'given_title')
        return {'self': wa, 'script_config': cfg}
    c.setup(_setup)
    if given:
        c.ensures('given-title-or-derived', "(script_config['title'] != '' ==> result == script_config['title']) and (script_config['title'] == '' ==> result == 'Evening All On')")
    else:
        c.ensures('derived-from-the-path', "result == 'Evening All On'")


# ---- /stop-current and /stop-all act also when the manifest has no entry of that name (the shipped manifest has none): the
#      page that follows may fail to render, the stop itself must have been issued
for meth, expect in (('stop_current', 'stop_current'), ('stop_all', 'stop_all')):
    c = contract(FE, 'FrontEnd.' + meth, serves=['C20', 'C09'], unwrap=1, name='FrontEnd.%s[no manifest entry of that name]' % meth)
    def _setup(b, case, expect=expect):
        acts = b.ghost('acts', PyList())
        wa = Opaque('web_app', {'get_script_control': lambda I_, o, a, k: None, 'get_path_root': lambda I_, o, a, k: '/',
                                'get_script_list': lambda I_, o, a, k: PyList(),
                                'stop_current': lambda I_, o, a, k: acts.items.append('stop_current'), 'stop_all': lambda I_, o, a, k: acts.items.append('stop_all'),
                                'stop_script': lambda I_, o, a, k: acts.items.append('stop_script')})
        lib.injection_reset(b)
        lib.provide(b, b.module('web.i_web').ns['WebApp'], wa)
        return {'self': front_end(b), 'web_app': wa}
    c.setup(_setup)
    c.raises('AttributeError', ('the-stop-was-issued-before-the-page-failed', "len(ghost('acts')) == 1 and ghost('acts')[0] == '%s'" % expect))
    c.ensures('the-stop-was-issued', "len(ghost('acts')) == 1 and ghost('acts')[0] == '%s'" % expect)


# ---- "the status ... pages render without error": the text table of the status page takes every value a light can report -
#      whole numbers and fractional ones (a matrix light staged in raw units keeps them unrounded), zone numbers, power levels
SN = 'bardolph/controller/snapshot.py'
for kind in ('int', 'real'):
    c = contract(SN, 'TextSnapshot.setting', serves=['C20'], name='TextSnapshot.setting[%s value]' % kind)
    def _setup(b, case, kind=kind):
        ts = PyObj(b.cls('bardolph.controller.snapshot', 'TextSnapshot'), {'_text': b.sym('str', 'so_far'), '_field_width': 15, '_brief': False})
        v = b.sym(kind, 'value')
        b.between(v, 0, 65535)
        return {'self': ts, '_': None, 'value': v}
    c.setup(_setup)
    c.ensures('one-more-field-nothing-raised', "self._text == old(self._text) + str('{:>4.0f}'.format(value)).ljust(15)")



# ---- reading the manifest: one entry per listed script under its (derived) path, queued unless the manifest marks it as a
#      background script
c = contract(WA, 'WebApp._load_manifest', serves=['C20'], unwrap=1, name='WebApp._load_manifest[two entries]')
def _setup(b, case):
    wa, calls = web_app(b)
    f1, f2 = b.sym('str', 'file1'), b.sym('str', 'file2')
    p1, p2 = 'first', 'second'
    cfg1 = PyDict({'file_name': f1, 'path': p1, 'title': b.sym('str', 'title1'), 'background': b.sym('str', 'bg1'), 'color': b.sym('str', 'col1'), 'run_background': True})
    cfg2 = PyDict({'file_name': f2, 'path': p2, 'title': b.sym('str', 'title2'), 'background': b.sym('str', 'bg2'), 'color': b.sym('str', 'col2')})
    b.ghost('open', lambda I_, a, k: Opaque('file', {'close': lambda I2, o, a2, k2: None}))
    b.ghost('json_load', lambda I_, a, k: PyList([cfg1, cfg2]))
    settings = Opaque('settings', {'get_value': lambda I_, o, a, k: 'manifest.json'})
    return {'self': wa, 'settings': settings, '_p1': p1, '_p2': p2, '_f1': f1, '_f2': f2}
c.setup(_setup)
c.bounded('two manifest entries with the paths "first" and "second"')
c.ensures('one-entry-per-listed-script-under-its-path', 'len(self._scripts) == 2 and self._scripts[_p1].file_name == escaped(_f1) and self._scripts[_p2].file_name == escaped(_f2)')
c.ensures('in-the-background-only-if-so-marked', 'self._scripts[_p1].run_background is True and self._scripts[_p2].run_background is False')


# ---- the web application's wiring: ONE WebApp (so one job controller: "a script reported as running is not started a second
#      time" needs every request to see the same jobs), bound after injection was configured
c = contract('web/web_module.py', 'web_wiring', serves=['C20', 'C17'], name='lemma:web_module.configure(); provide(WebApp) twice', src='''
def web_wiring():
    from bardolph.lib import injection as _inj
    configure()
    return (_inj.provide(i_web.WebApp), _inj.provide(i_web.WebApp))
''')
def _setup(b, case):
    from pyvc.values import Builtin
    lib.injection_reset(b)
    wm = b.module('web.web_module')
    made = b.ghost('web_apps_made', PyList())
    chain = Opaque('settings_init', {})
    for meth in ('add_overrides', 'apply_file', 'configure'):
        chain.methods[meth] = lambda I_, o, a, k: None
    wm.ns['settings'] = Opaque('settings_module', {'using': lambda I_, o, a, k: chain})
    for nm in ('light_module', 'runtime_module'):
        wm.ns[nm] = Opaque(nm, {'configure': lambda I_, o, a, k: None})
    def new_app(I_, a, k):
        app = Opaque('WebApp#%d' % len(made.items))
        made.items.append(app)
        return app
    wm.ns['web_app'] = Opaque('web_app_module', attrs={'WebApp': Builtin('WebApp', new_app)})
    wm.ns['os'] = Opaque('os', {'getenv': lambda I_, o, a, k: None})
    return {}
c.setup(_setup)
c.crosscheck = False
c.ensures('one-web-app-for-every-request', "result[0] is result[1] and len(ghost('web_apps_made')) == 1 and result[0] is ghost('web_apps_made')[0]")
