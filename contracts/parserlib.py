"""Abstract token streams and code lists for verifying the recursive-descent parser method by method.

* Tokens: real bardolph.parser.token.Token objects whose token type is a *symbolic* member of TokenTypes,
  whose content is a symbolic string and whose line number is a symbolic int; the stream delivers a fresh
  such token at every next() (the parser never reads past EOF: next_token guards on it).  Every branch the
  parser takes on a token's type or text forks the proof, so a contract proved here holds for EVERY token
  sequence (up to the assumed lexer postcondition, see c16).
* Code: the real CodeGen whose _code list starts with one abstract Segment ("everything emitted so far",
  symbolic length); nested phrases verified elsewhere append further Segments, so jump offsets and
  current_offset are linear-integer terms and "the jump lands exactly at label L" is an LIA obligation.
* Symbol tables: SymbolTable.get_symbol / add_symbol are modular (assumed) contracts over an abstract table:
  a lookup returns a symbol of arbitrary type (undefined / macro with any literal value / routine with any
  parameter list / variable), consistently for repeated lookups of the same name.
* Error messages: Parser._add_message is modular: ghost counter `errs`.
"""
import z3
from pyvc import spec
from pyvc.spec import contract
from pyvc.values import (PyObj, PyList, PyDict, Opaque, Builtin, SymVal, SymEnumVal, Segment, Struct, EnumMember,
                         enum_index)
from pyvc.ops import mk, to_term
from pyvc.interp import PyRaise, PathEnd
from . import lib

P = 'bardolph/parser/parse.py'


def TT(I):
    return I.load_module('bardolph.parser.token').ns['TokenTypes']


def abstract_token(I, tag='tok'):
    tt = TT(I)
    t = I.fresh('int', tag + '_type')
    I.assume(z3.And(t.t >= 0, t.t < len(tt.members)))
    content = I.fresh('str', tag + '_text')
    line = I.fresh('int', tag + '_line')
    I.assume(line.t >= 0)
    tokcls = I.load_module('bardolph.parser.token').ns['Token']
    tok = PyObj(tokcls, {'_token_type': SymEnumVal(t.t, tt), '_content': content, '_line_number': line, '_file_name': ''})
    # assumed lexer postcondition (bounded stand-in / proof obligations of C16): texts of string-less tokens are
    # empty, NUMBER / TIME_PATTERN texts are well-formed (used by the modular contract of _current_literal)
    return tok


def concrete_token(I, type_name, content=None):
    tt = TT(I)
    if content is None:     # a token of a class that carries text spells ANY text of that class
        content = I.fresh('str', 'token_text') if type_name in ('LITERAL_STRING', 'NAME', 'NUMBER', 'TIME_PATTERN', 'ERROR') else ''
    tokcls = I.load_module('bardolph.parser.token').ns['Token']
    return PyObj(tokcls, {'_token_type': tt.members[type_name], '_content': content, '_line_number': I.fresh('int', 'line'),
                          '_file_name': ''})


def bump(I, name, by=1):
    I.ghost[name] = mk(to_term(I.ghost.get(name, 0), 'int') + by, 'int')
    return I.ghost[name]


def stream(I, preset=()):
    """the token source: first the preset tokens (if any), then arbitrary tokens"""
    st = Opaque('token-stream')
    pending = list(preset)

    def nxt(I_, o, a, k):
        bump(I_, 'pos')
        n = to_term(I_.ghost['pos'], 'int')
        if pending and hasattr(n, 'as_long') and z3.is_int_value(z3.simplify(n)):
            ix = z3.simplify(n).as_long() - 1
            if 0 <= ix < len(pending):
                return pending[ix]
        return abstract_token(I_, 'tok%d' % I_.fresh_n)
    st.methods['__next__'] = nxt
    return st


def seg(I, base, lo=0, elem=None, tag=''):
    n = I.fresh('int', 'len_' + base)
    I.assume(n.t >= lo)
    return Segment(base, z3.IntVal(0), n.t, elem, tag or base)


def parser(b, first_token=None, in_routine=None, in_matrix=None, loop_depth='any', then=()):
    """a real Parser (real constructor) placed in the middle of an arbitrary parse; `then`: the tokens that follow the
    current one before the stream becomes arbitrary"""
    I = b.I
    lib.injection_reset(b)
    Pr = b.new(('bardolph.parser.parse', 'Parser'))
    Pr.attrs['_tokens'] = stream(I, then)
    Pr.attrs['_current_token'] = first_token if first_token is not None else abstract_token(I, 'tok0')
    cg = Pr.attrs['_code_gen']
    cg.attrs['_code'] = PyList([seg(I, 'code_before')])
    ctx = Pr.attrs['_context']
    ctx.attrs['_in_routine'] = b.sym('bool', 'in_routine') if in_routine is None else in_routine
    ctx.attrs['_in_matrix'] = b.sym('bool', 'in_matrix') if in_matrix is None else in_matrix
    lc_cls = b.cls('bardolph.parser.context', '_LoopContext')

    def loop_ctx(I_, base, ix):
        return PyObj(lc_cls, {'break_list': PyList([seg(I_, 'breaks_of_loop_%s' % ix, tag='pending breaks')])})
    if loop_depth == 'any':
        ls = PyList([seg(I, 'open_loops', elem=loop_ctx)])
    else:
        ls = PyList([loop_ctx(I, 'open_loops', i) for i in range(loop_depth)])
    ls.is_deque = True
    ctx.attrs['_loop_stack'] = ls
    if '_nesting' in Pr.attrs:
        Pr.attrs['_nesting'] = b.sym('int', 'nesting')
        b.between(Pr.attrs['_nesting'], 0, 10 ** 6)
    b.ghost('pos', 0)
    b.ghost('errs', 0)
    b.ghost('symbols', {})
    return Pr


# ---------------------------------------------------------------------------------------------- spec helpers
def install(I):
    F = I.spec_fns

    def fn(name, f):
        F[name] = Builtin('spec.' + name, lambda I_, a, k: f(I_, *a))
    fn('errs', lambda I_: I_.ghost_read('errs'))
    fn('tokens_consumed', lambda I_: I_.ghost_read('pos'))

    def code_items(I_, p):
        return p.attrs['_code_gen'].attrs['_code']
    fn('code', code_items)

    def emitted(I_, p):
        """the items appended to the code list since entry (everything after the initial segment)"""
        items = I_.read_items(p.attrs['_code_gen'].attrs['_code'])
        return tuple(items[1:])
    fn('emitted', emitted)

    def loop_emitted(I_, p):
        """items appended since the innermost cut loop was entered (incl. the 'inv' segment of earlier iterations)"""
        p = p.attrs.get('parser', p)
        code = p.attrs['_code_gen'].attrs['_code']
        entry = I_.loop_entry_stack[-1].get(id(code)) if I_.loop_entry_stack else None
        n0 = len(entry) if entry is not None else 0
        return tuple(code.items[n0:])
    fn('loop_emitted', loop_emitted)

    def ends_with(I_, items, op):
        """the last directly emitted item is an instruction `op`; trailing 'inv' segments (what earlier iterations of a cut
        loop appended, possibly nothing) are covered inductively by the same clause in the loop invariant"""
        items = list(items)
        while items and isinstance(items[-1], Segment) and items[-1].tag == 'inv':
            items.pop()
        if not items:
            return False
        opn = op.name if isinstance(op, EnumMember) else op
        return instr(I_, items[-1], opn) is True
    fn('ends_with', ends_with)

    def no_instr(I_, items, op):
        return all(not (instr(I_, x, op) is True) for x in items)
    fn('no_instr', no_instr)

    def start_index(I_, p, i):
        """index in the code of the i-th emitted item (0-based): sum of the lengths before it"""
        items = I_.read_items(p.attrs['_code_gen'].attrs['_code'])
        tot = z3.IntVal(0)
        for x in items[:1 + i]:
            tot = tot + (x.n if isinstance(x, Segment) else 1)
        return mk(tot, 'int')
    fn('start_index', start_index)

    def end_index(I_, p):
        items = I_.read_items(p.attrs['_code_gen'].attrs['_code'])
        tot = z3.IntVal(0)
        for x in items:
            tot = tot + (x.n if isinstance(x, Segment) else 1)
        return mk(tot, 'int')
    fn('end_index', end_index)

    def is_seg(I_, x, tag=None):
        return isinstance(x, Segment) and (tag is None or x.tag.startswith(tag))
    fn('is_seg', is_seg)

    def instr(I_, x, op, p0=Ellipsis, p1=Ellipsis):
        """x is an Instruction with this op code (name) and, when given, these parameters"""
        if not isinstance(x, PyObj) or x.cls.name != 'Instruction':
            return False
        oc = x.attrs['op_code']
        if not (isinstance(oc, EnumMember) and oc.name == op):
            return False
        out = []
        for want, got in ((p0, x.attrs['param0']), (p1, x.attrs['param1'])):
            if want is Ellipsis:
                continue
            r = I_.identical_or_equal(got, want) if not isinstance(want, EnumMember) else (got is want)
            if r is False:
                return False
            if r is not True:
                out.append(r.t)
        return mk(z3.And(*out), 'bool') if out else True
    fn('instr', lambda I_, *a: instr(I_, *a))

    def all_but(I_, items, keep, op):
        """no item other than items[keep] is an instruction with this op code"""
        n = len(items)
        keep = keep % n if n else -1
        return all(not (instr(I_, x, op) is True) for i, x in enumerate(items) if i != keep)
    fn('all_but', all_but)

    def all_from(I_, items, start, op, p0=Ellipsis):
        return all(instr(I_, x, op, p0) is True for x in items[start:])
    fn('all_from', all_from)

    def all_segs(I_, items, tag):
        return all(isinstance(x, Segment) and x.tag.startswith(tag) for x in items)
    fn('all_segs', all_segs)

    for enum_name in ('Register', 'OpCode', 'JumpCondition', 'LoopVar', 'Operator', 'Operand', 'IoOp', 'SetOp'):
        F[enum_name] = I.load_module('bardolph.vm.vm_codes').ns[enum_name]
    F['TokenTypes'] = I.load_module('bardolph.parser.token').ns['TokenTypes']

    def all_patterns_valid(I_, p):
        """every TIME_PATTERN instruction emitted carries a pattern object that came from a valid text / macro"""
        val = I_.ghost.get('pattern_validity', {})
        for x in I_.read_items(p.attrs['_code_gen'].attrs['_code']):
            if isinstance(x, PyObj) and x.cls.name == 'Instruction' and getattr(x.attrs['op_code'], 'name', '') == 'TIME_PATTERN':
                v = x.attrs['param1']
                if not (isinstance(v, PyObj) and v.cls.name == 'TimePattern'):
                    return False        # a number, a string, None...: the VM could not wait for it
                if val.get(id(v), True) is False:
                    return False
        return True
    fn('all_patterns_valid', all_patterns_valid)

    def first_inits_rest_unite(I_, p):
        """`time at A or B or C`: the first pattern REPLACES the time register (INIT), every further one is ADDED (UNION)"""
        ops_ = [getattr(x.attrs['param0'], 'name', None) for x in I_.read_items(p.attrs['_code_gen'].attrs['_code'])
                if isinstance(x, PyObj) and x.cls.name == 'Instruction' and getattr(x.attrs['op_code'], 'name', '') == 'TIME_PATTERN']
        return all(o == ('INIT' if i == 0 else 'UNION') for i, o in enumerate(ops_))
    fn('first_inits_rest_unite', first_inits_rest_unite)

    def same_dest(I_, got, dest):
        if got is dest:
            return True
        r = I_.identical_or_equal(got, dest)
        return r
    fn('same_dest', same_dest)

    def called_routine_is_defined(I_, p):
        """the JSR emitted names a symbol that the symbol table holds as a routine"""
        styp = I_.load_module('bardolph.lib.symbol').ns['SymbolType']
        for x in I_.read_items(p.attrs['_code_gen'].attrs['_code']):
            if isinstance(x, PyObj) and x.cls.name == 'Instruction' and getattr(x.attrs['op_code'], 'name', '') == 'JSR':
                nm = x.attrs['param0']
                for (tid, key), symb in I_.ghost.get('symbols', {}).items():
                    if symb.attrs['_name'] is nm:
                        r = I_.equals(symb.attrs['_symbol_type'], styp.members['ROUTINE'])
                        return r
                return False
        return True
    fn('called_routine_is_defined', called_routine_is_defined)

    def globals_added(I_, p):
        """names entered into the parser's *global* symbol table by code executed in this contract"""
        g = p.attrs['_context'].attrs['_globals']
        return PyList([nm for (tb, nm) in I_.ghost.get('defined_in', PyList()).items if tb is g])
    fn('globals_added', globals_added)

    def locals_added(I_, p):
        g = p.attrs['_context'].attrs['_locals']
        return PyList([nm for (tb, nm) in I_.ghost.get('defined_in', PyList()).items if tb is g])
    fn('locals_added', locals_added)

    def sets_register(I_, items, reg):
        """some emitted item writes this register: a MOVEQ/MOVE into it or a value phrase whose destination it is"""
        for x in items:
            if isinstance(x, PyObj) and x.cls.name == 'Instruction' and x.attrs['param1'] is reg:
                return True
            if isinstance(x, Segment) and x.tag.startswith('value') and getattr(x, 'dest', None) is reg:
                return True
        return False
    fn('sets_register', sets_register)

    def exit_jump_target(I_, p):
        """index targeted by the (last) JUMP IF_FALSE emitted: the loop-exit jump"""
        items = I_.read_items(p.attrs['_code_gen'].attrs['_code'])
        tot = z3.IntVal(0)
        found = None
        for x in items:
            if isinstance(x, PyObj) and x.cls.name == 'Instruction' and getattr(x.attrs['op_code'], 'name', '') == 'JUMP' \
                    and getattr(x.attrs['param0'], 'name', '') == 'IF_FALSE':
                found = tot + to_term(x.attrs['param1'], 'int')
            tot = tot + (x.n if isinstance(x, Segment) else 1)
        return mk(found, 'int') if found is not None else None
    fn('exit_jump_target', exit_jump_target)

    def jump_targets(I_, p, cond, target):
        """some JUMP with this condition emitted since entry lands exactly on `target`"""
        items = I_.read_items(p.attrs['_code_gen'].attrs['_code'])
        tot, cs = z3.IntVal(0), []
        for x in items:
            if isinstance(x, PyObj) and x.cls.name == 'Instruction' and getattr(x.attrs['op_code'], 'name', '') == 'JUMP' \
                    and getattr(x.attrs['param0'], 'name', '') == cond and x.attrs['param1'] is not None:
                cs.append(tot + to_term(x.attrs['param1'], 'int') == to_term(target, 'int'))
            tot = tot + (x.n if isinstance(x, Segment) else 1)
        return mk(z3.Or(*cs), 'bool') if cs else False
    fn('jump_targets', jump_targets)

    def exit_sequence_ok(I_, p, tgt=None):
        """the loop-exit jump lands on an item boundary E <= index of END_LOOP; the items from E up to END_LOOP (the
        clean-up that pops unvisited names after a break; empty for non-iterating loops) contain only jumps that stay
        inside [E, index of END_LOOP]"""
        items = I_.read_items(p.attrs['_code_gen'].attrs['_code'])
        if tgt is None:
            tgt = exit_jump_target(I_, p)
        if tgt is None:
            return False
        tgt = to_term(tgt, 'int')
        starts, tot = [], z3.IntVal(0)
        for x in items:
            starts.append(tot)
            tot = tot + (x.n if isinstance(x, Segment) else 1)
        end_loop_at = z3.simplify(tot - 1)
        cases = []
        for k in range(1, len(items)):
            conds = [tgt == starts[k]]
            for j in range(k, len(items) - 1):
                x = items[j]
                if isinstance(x, Segment):
                    conds.append(z3.BoolVal(False))          # no nested phrase code in the exit sequence
                elif getattr(x.attrs['op_code'], 'name', '') == 'JUMP' and x.attrs['param1'] is not None:
                    t2 = starts[j] + to_term(x.attrs['param1'], 'int')
                    conds.append(z3.And(t2 >= starts[k], t2 <= end_loop_at))
                elif getattr(x.attrs['op_code'], 'name', '') in ('LOOP', 'END_LOOP', 'JSR', 'RETURN', 'END', 'ROUTINE'):
                    conds.append(z3.BoolVal(False))
            cases.append(z3.And(*conds))
        return mk(z3.Or(*cases), 'bool') if cases else False
    fn('exit_sequence_ok', exit_sequence_ok)

    def exit_sequence_pops(I_, p, tgt):
        """the clean-up between the loop's exit point and its END_LOOP pops names (while the counter says some are left)"""
        items = I_.read_items(p.attrs['_code_gen'].attrs['_code'])
        tgt = to_term(tgt, 'int')
        starts, tot = [], z3.IntVal(0)
        for x in items:
            starts.append(tot)
            tot = tot + (x.n if isinstance(x, Segment) else 1)
        def opname(x):
            return '' if isinstance(x, Segment) else getattr(x.attrs['op_code'], 'name', '')
        cases = []
        for k in range(1, len(items)):
            tail = items[k:-1]
            has_pop = any(opname(x) == 'POP' for x in tail)
            tests_counter = any(opname(x) in ('PUSH', 'PUSHQ', 'OP', 'MOVE') and any(getattr(x.attrs[f], 'name', None) == 'COUNTER' for f in ('param0', 'param1'))
                                for x in tail if not isinstance(x, Segment))
            back = any(opname(x) == 'JUMP' and not isinstance(x.attrs['param1'], type(None)) and
                       I_.truth_concrete_or_none(I_.compare('Lt', x.attrs['param1'], 0)) is True for x in tail if not isinstance(x, Segment))
            if has_pop and tests_counter and back:
                cases.append(tgt == starts[k])
        return mk(z3.Or(*cases), 'bool') if cases else False
    fn('exit_sequence_pops', exit_sequence_pops)

    def falsy(I_, r):
        return r is None or r is False
    fn('falsy', falsy)


spec.EXTRA_INSTALLERS.append(install)


# ---------------------------------------------------------------------------------------------- modular contracts
def _advance(I, env, at_least=1):
    """the callee consumed >= at_least tokens: a fresh current token"""
    p = env.vars['self']
    p = p.attrs.get('parser', p)       # sub-parsers hold the parser
    bump(I, 'pos')
    p.attrs['_current_token'] = abstract_token(I, 'tok%d' % I.fresh_n)


def _phrase_effect(tag, min_len=0, code_arg=None):
    """effect of a successfully / unsuccessfully parsed sub-phrase: on success a Segment is appended to the code
    and tokens are consumed; on failure at least one message was added (result decided by the caller's fork)."""
    def eff(I, env):
        p = env.vars['self']
        p = p.attrs.get('parser', p)
        ok = I.branch(I.fresh('bool', 'ok_' + tag).t, 'phrase-ok')
        env.vars['__ok__'] = ok
        if isinstance(p, PyObj) and '_nesting' in p.attrs:
            I.ghost['nesting_at_last_phrase'] = p.attrs['_nesting']
        I.ghost['names_declared_before_last_phrase'] = len(I.ghost.get('defined_in', PyList()).items)
        if ok:
            cg = env.vars.get(code_arg) if code_arg else None
            cg = cg or p.attrs['_code_gen']
            sg = seg(I, '%s_%d' % (tag, I.fresh_n), lo=min_len, tag=tag)
            sg.dest = env.vars.get('dest')
            cg.attrs['_code'].items.append(sg)
            _advance(I, env)
        else:
            bump(I, 'errs')
    return eff


def _phrase_result(I, env):
    return True if env.vars.get('__ok__') else False


def phrase_contract(path, qualname, tag, min_len=0, code_arg=None, note=None, group='parser'):
    c = contract(path, qualname, serves=[], modular=True, group=group, name='%s (family contract at call sites)' % qualname)
    c.effect(_phrase_effect(tag, min_len, code_arg))
    c.returns(_phrase_result)
    c.assume_note(note or ('%s: used through the Parse family contract at call sites (consumes >= 1 token and appends one closed '
                           'code segment, or adds a message and returns False); its own body is verified separately' % qualname))
    return c


phrase_contract(P, 'Parser._rvalue', 'value', code_arg='code_gen')
phrase_contract(P, 'Parser.command_seq', 'command')
phrase_contract(P, 'Parser._command', 'command')
phrase_contract(P, 'Parser._call_routine', 'call', min_len=4)
phrase_contract('bardolph/parser/expr_parser.py', 'ExpressionParser.expression', 'expr', min_len=1)
phrase_contract(P, 'Parser._operand', 'operand', min_len=2)
phrase_contract('bardolph/parser/loop_parser.py', 'LoopParser._pre_loop_list', 'loop-sources', min_len=0)
phrase_contract(P, 'Parser._zone_range', 'zones', min_len=2)
phrase_contract('bardolph/parser/matrix_parser.py', 'MatrixParser.matrix_spec', 'matrix', min_len=3)


# the statement parsers reachable through Parser._command_map: at the dispatch they are used through the family contract
for _m in ('_assignment', '_break', '_breakpoint', '_definition', '_get_color', '_if', '_mark', '_power_off', '_power_on', '_pause',
           '_print', '_printf', '_println', '_return', '_set_reg', '_repeat', '_set', '_stage', '_set_units', '_wait'):
    phrase_contract(P, 'Parser.' + _m, 'command', group='dispatch')
phrase_contract(P, 'Parser._syntax_error', 'never', group='dispatch')

c = contract(P, 'Parser._at_rvalue', serves=[], modular=True, group='parser', name='Parser._at_rvalue (pure look-ahead: any answer)')
c.returns('bool')
c.assume_note('Parser._at_rvalue: a pure look-ahead predicate; callers are verified for both answers')

c = contract(P, 'Parser._current_reg', serves=[], modular=True, group='parser', name='Parser._current_reg (lexer-dependent, assumed)')
def _reg_result(I, env):
    p = env.vars['self']
    tok = p.attrs['_current_token']
    if not I.truth(I.equals(tok.attrs['_token_type'], TT(I).members['REGISTER'])):
        return None
    R = I.load_module('bardolph.vm.vm_codes').ns['Register']
    t = I.fresh('int', 'register')
    names = ('HUE', 'SATURATION', 'BRIGHTNESS', 'KELVIN', 'RED', 'GREEN', 'BLUE', 'DEFAULT', 'DURATION', 'TIME')
    I.assume(z3.Or(*[t.t == enum_index(R.members[n]) for n in names]))
    return SymEnumVal(t.t, R)
c.returns(_reg_result)
c.assume_note('Parser._current_reg: a REGISTER token spells one of the ten register names of Lex._REG_LIST (lexer postcondition, C16)')

c = contract('bardolph/vm/vm_codes.py', 'Register.from_string', serves=[], modular=True, group='parser',
             name='Register.from_string (on a symbolic text: any register or None)')
def _from_string_reg(I, env):
    nm = env.vars['name']
    R = I.load_module('bardolph.vm.vm_codes').ns['Register']
    if isinstance(nm, str):
        return R.members.get(nm.upper())
    if I.branch(I.fresh('bool', 'is_register_name').t, 'register-name'):
        t = I.fresh('int', 'register')
        I.assume(z3.And(t.t >= 0, t.t < len(R.members)))
        return SymEnumVal(t.t, R)
    return None
c.returns(_from_string_reg)

phrase_contract('bardolph/parser/io_parser.py', 'IoParser.printf', 'printf', min_len=1)

c = contract(P, 'Parser._add_message', serves=[], modular=True, group='parser', name='Parser._add_message (ghost error count)')
def _msg_effect(I, env):
    bump(I, 'errs')
    I.ghost.setdefault('messages', PyList()).items.append(env.vars['message'])
c.effect(_msg_effect)


# abstract symbol tables -------------------------------------------------------------------------------
ST = 'bardolph/lib/symbol_table.py'


def _abstract_value(I, kind):
    if kind == 'int':
        return I.fresh('int', 'macro_int')
    if kind == 'real':
        return I.fresh('real', 'macro_real')
    if kind == 'str':
        return I.fresh('str', 'macro_str')
    tp = I.load_module('bardolph.lib.time_pattern').ns['TimePattern']
    return PyObj(tp, {'_repr': 'TimePattern(?)', '_hour_set': None, '_minute_set': None, '_alternatives': PyList()})


def _lookup(I, table, name):
    key = (id(table), str(to_term(name)) if isinstance(name, SymVal) else repr(name))
    cache = I.ghost.setdefault('symbols', {})
    if key in cache:
        return cache[key]
    from pyvc.values import Computed
    symcls = I.load_module('bardolph.lib.symbol').ns['Symbol']
    styp = I.load_module('bardolph.lib.symbol').ns['SymbolType']
    members = list(styp.members.values())
    t = I.fresh('int', 'symbol_type')
    kinds = [enum_index(styp.members[n]) for n in ('UNDEFINED', 'VAR', 'MACRO', 'ROUTINE')]
    I.assume(z3.Or(*[t.t == k for k in kinds]))
    ty = SymEnumVal(t.t, styp)

    def value(I_, obj):
        """the symbol's value, materialised when it is first read: depends on the (then decided) symbol type"""
        m = I_.enum_members_feasible(ty)
        if m.name == 'MACRO':
            for cand in ('int', 'real', 'str', 'pattern'):
                if I_.branch(I_.fresh('bool', 'macro_is_' + cand).t, 'macro-kind'):
                    v = _abstract_value(I_, cand)
                    if cand == 'pattern':
                        I_.ghost.setdefault('pattern_validity', {})[id(v)] = True     # macros hold only accepted patterns
                    return v
            raise PathEnd()
        if m.name == 'ROUTINE':
            rcls = I_.load_module('bardolph.controller.routine').ns['Routine']
            params = PyList([seg(I_, 'params_%d' % I_.fresh_n, elem=lambda I2, base, ix: I2.fresh('str', 'param'), tag='parameter names')])
            return PyObj(rcls, {'_name': name, '_address': 0, '_return': 0, '_params': params})
        return None
    s = PyObj(symcls, {'_name': name, '_symbol_type': ty, '_value': Computed(value)})
    cache[key] = s
    return s


c = contract(ST, 'SymbolTable.get_symbol', serves=[], modular=True, group='parser', name='SymbolTable.get_symbol (abstract table)')
c.returns(lambda I, env: _lookup(I, env.vars['self'], env.vars['name']))
c.assume_note('symbol tables are abstract during parser verification: a lookup yields any of undefined / variable / macro (int, float, '
              'string or time pattern) / routine (any parameter list), the same answer for the same name until it is (re)defined')

c = contract(ST, 'SymbolTable.add_symbol', serves=[], modular=True, group='parser', name='SymbolTable.add_symbol (abstract table)')
def _add_effect(I, env):
    table, name = env.vars['self'], env.vars['name']
    symcls = I.load_module('bardolph.lib.symbol').ns['Symbol']
    key = (id(table), str(to_term(name)) if isinstance(name, SymVal) else repr(name))
    I.ghost.setdefault('symbols', {})[key] = PyObj(symcls, {'_name': name, '_symbol_type': env.vars['symbol_type'], '_value': env.vars['value']})
    I.ghost.setdefault('defined', PyList()).items.append((name, env.vars['symbol_type']))
    I.ghost.setdefault('defined_in', PyList()).items.append((table, name))
c.effect(_add_effect)

c = contract(ST, 'SymbolTable.clear', serves=[], modular=True, group='parser', name='SymbolTable.clear (abstract table)')
def _clear_effect(I, env):
    table = env.vars['self']
    cache = I.ghost.setdefault('symbols', {})
    for k in [k for k in cache if k[0] == id(table)]:
        del cache[k]
    I.ghost.setdefault('cleared', PyList()).items.append(table)
c.effect(_clear_effect)


# Parser._current_literal depends on the lexer's promise about token texts (NUMBER is a numeral, ...): abstract
c = contract(P, 'Parser._current_literal', serves=[], modular=True, group='parser', name='Parser._current_literal (lexer-dependent, assumed)')
def _literal_result(I, env):
    p = env.vars['self']
    tok = p.attrs['_current_token']
    tt = TT(I)
    ty = tok.attrs['_token_type']
    def is_(name):
        r = I.equals(ty, tt.members[name])
        return I.truth(r)
    if is_('NUMBER'):
        return I.fresh('int', 'literal_int') if I.branch(I.fresh('bool', 'number_is_int').t) else I.fresh('real', 'literal_float')
    if is_('LITERAL_STRING'):
        return tok.attrs['_content']
    if is_('TIME_PATTERN'):
        return _abstract_value(I, 'pattern')
    return None
c.returns(_literal_result)
c.assume_note('Parser._current_literal: NUMBER tokens carry a numeral (int() / float() succeed), TIME_PATTERN tokens a pattern: lexer postcondition, see C16')


# havoc helpers for loops over tokens: forget the code emitted so far (one abstract segment), the cursor and the count
def havoc_code(I, env):
    """code emitted by the earlier iterations of a cut loop: the items present at loop entry stay, followed by one
    abstract segment (tag 'inv') that stands for what the iterations appended; the loop invariant speaks for it"""
    p = env.lookup('self', I)
    p = p.attrs.get('parser', p)
    code = p.attrs['_code_gen'].attrs['_code']
    entry = I.loop_entry_stack[-1].get(id(code)) if I.loop_entry_stack else None
    entry = list(entry) if entry is not None else [seg(I, 'code_so_far_%d' % I.fresh_n)]
    code.items[:] = entry + [seg(I, 'loop_emitted_%d' % I.fresh_n, tag='inv')]


def havoc_cursor(I, env):
    p = env.lookup('self', I)
    p = p.attrs.get('parser', p)
    old = I.ghost.get('pos', 0)
    newp = I.fresh('int', 'pos')
    I.assume(newp.t >= to_term(old, 'int'))
    I.ghost['pos'] = newp
    p.attrs['_current_token'] = abstract_token(I, 'tok_h%d' % I.fresh_n)


def token_loop(keep=()):
    # progress: every pass of a loop over tokens consumes at least one token (the text is finite: the compiler finishes)
    return dict(modifies=['code', 'cursor'], havoc_with={'code': havoc_code, 'cursor': havoc_cursor}, keep=tuple(keep),
                progress='tokens_consumed()')


def cursor_loop(keep=()):
    """a loop that consumes tokens but emits no code"""
    return dict(modifies=['cursor'], havoc_with={'cursor': havoc_cursor}, keep=tuple(keep), progress='tokens_consumed()')


TOKEN_LOOP = token_loop()


# TimePattern.from_string works on the token text with a regular expression: abstract (valid / invalid pattern)
c = contract('bardolph/lib/time_pattern.py', 'TimePattern.from_string', serves=[], modular=True, group='parser',
             name='TimePattern.from_string (abstract: valid or invalid pattern text)')
def _from_string_result(I, env):
    ok = I.branch(I.fresh('bool', 'pattern_text_valid').t, 'pattern-valid')
    impl = I.ghost.get('from_string_impl')
    return impl(I, ok) if impl is not None else _pattern_value(I, ok)
def _pattern_value(I, ok):
    mod = I.load_module('bardolph.lib.time_pattern')
    fn = mod.ns['TimePattern'].attrs['from_string']
    # what the real from_string returns is decided by running it on a representative text of each class
    text = '12:30' if ok else '25:99'
    from pyvc.values import StaticMethod
    f = fn.func if isinstance(fn, StaticMethod) else fn
    saved = I.active_groups
    I.active_groups = set()
    try:
        v = I.call(f, [text], {})
    finally:
        I.active_groups = saved
    if v is not None:
        I.ghost.setdefault('pattern_validity', {})[id(v)] = ok
    return v
c.returns(_from_string_result)
c.assume_note('TimePattern.from_string: its result for the two classes of token text (a pattern that can match a time / one that cannot or is '
              'malformed) is obtained by running the real function on one representative of each class (12:30, 25:99)')


c = contract('bardolph/parser/context.py', 'Context.fix_break_addrs', serves=[], modular=True, group='parser',
             name='Context.fix_break_addrs (at call sites: every pending break of the innermost loop now targets the current end of code)')
def _fix_effect(I, env):
    cg = env.vars['code_gen']
    from pyvc.models import py_len
    I.ghost['break_target'] = py_len(I, cg.attrs['_code'])
    I.ghost['breaks_fixed'] = I.ghost.get('breaks_fixed', 0) + 1
c.effect(_fix_effect)
c.assume_note('Context.fix_break_addrs is used through its contract inside LoopParser.repeat (ghost break_target := current offset); '
              'its own body is verified on break lists of 0..2 pending breaks')


# the lexer is a generator over regular-expression matches: at the parser's side it is the abstract token stream
c = contract('bardolph/parser/lex.py', 'Lex.tokens', serves=[], modular=True, group='parser', name='Lex.tokens (abstract token stream)')
c.returns(lambda I, env: stream(I))
c.assume_note('Lex.tokens: yields tokens ending with exactly one EOF token (lexer postcondition; segmentation by the regex engine: bounded stand-in, C16)')

c = contract('bardolph/parser/lex.py', 'Lex.__init__', serves=[], modular=True, group='parser', name='Lex.__init__ (abstract)')
c.effect(lambda I, env: None)
