#!/venv/bin/python
"""compile Bardolph scripts with the REAL parser of a tree and dump the instructions as JSON.
usage: compile_script.py <repo> <in.json: [text,...]> <out.json>"""
import json
import sys
import enum

repo, inp, outp = sys.argv[1:4]
sys.path.insert(0, repo)
from tests import test_module                       # noqa
from bardolph.parser.parse import Parser            # noqa
test_module.configure()


def enc(v):
    if v is None or isinstance(v, (bool, int, float, str)):
        return {'k': 'lit', 'v': v}
    if isinstance(v, enum.Enum):
        return {'k': 'enum', 'm': type(v).__module__, 'c': type(v).__name__, 'n': v.name}
    return {'k': 'repr', 'v': repr(v)}


out = []
for text in json.load(open(inp)):
    p = Parser()
    ok = p.parse(text)
    out.append({'ok': bool(ok), 'errors': p.get_errors(),
                'program': [[enc(i.op_code), enc(i.param0), enc(i.param1)] for i in (p.get_program() or [])] if ok else []})
json.dump(out, open(outp, 'w'))
