#!/usr/bin/env python3
"""Refresh the numeric cells of the table in DESIGN.md section 11.3 (contracts / functions under contract, discharged obligations) and the
cross-check total of section 11.6 from the committed evidence files.  Only text after the heading of 11.3 is touched."""
import json, re
p = '/verif/DESIGN.md'
s = open(p).read()
i = s.index('### 11.3 Per property')
head, tail = s[:i], s[i:]
agree = 0
for k in range(1, 21):
    pid = 'C%02d' % k
    e = json.load(open('/verif/evidence/%s.json' % pid))
    c = e['coverage']
    def fmt(n):
        return '{:,}'.format(n).replace(',', ' ')
    cell = '%d / %d' % (c['contracts'], len(c['functions_under_contract']))
    tail, n = re.subn(r'^\| %s \| [^|]* \| [^|]* \|' % pid, '| %s | %s | %s |' % (pid, cell, fmt(c['discharged'])), tail, count=1, flags=re.M)
    assert n == 1, pid
    x = c.get('cpython_witness_crosscheck')
    if isinstance(x, dict):
        agree += x.get('final_states_agree', x.get('agree', 0))
tail = re.sub(r'On the committed tree: ≈ [0-9 ]+ final states agree', 'On the committed tree: ≈ %d final states agree' % agree, tail, count=1)
open(p, 'w').write(head + tail)
print('cross-check agreeing final states:', agree)
