#!/bin/bash
# try_seed.sh <seed-name> [PID ...] : apply /verif/seeded/<seed>/patch.diff to /repo, run the checks, undo.
seed=$1; shift
pids=${@:-$(python3 -c "import json;print(json.load(open('/verif/seeded/$seed/meta.json'))['property'])")}
cd /repo || exit 2
if ! git apply --check /verif/seeded/$seed/patch.diff 2>/dev/null; then echo "$seed: patch does not apply to current /repo"; exit 2; fi
git apply /verif/seeded/$seed/patch.diff
scratch=$(mktemp -d /tmp/pyvc_try.XXXXXX)     # evidence / replays of a mutated tree never land in /verif
for p in $pids; do
  out=$(cd /verif && PYVC_OUT=$scratch ./check $p 2>&1); code=$?
  echo "$seed $p exit=$code :: $(echo "$out" | grep -c '^VIOLATION') violations; $(echo "$out" | grep '^VIOLATION' | head -3 | sed 's/replay=[^ ]* //' | tr '\n' ';')"
  echo "$out" | grep -E "^(UNDECIDED|CHECKER-ERROR)" | head -3
done
rm -rf "$scratch"
git checkout -- . 
