#!/usr/bin/env python3
"""Print the prompt given to an independent seeding sub-agent for one property.
The agent gets only the property text and a scratch worktree; nothing from /verif."""
import json, sys
pid, wt = sys.argv[1], sys.argv[2]
n = sys.argv[3] if len(sys.argv) > 3 else "2"
variant = sys.argv[4] if len(sys.argv) > 4 else ""
p = [json.loads(l) for l in open('/verif/properties.jsonl') if json.loads(l)['id'] == pid][0]
print(f"""You are helping to evaluate a verification effort for the open-source project al-fontes-jr/bardolph
(a small scripting language for LIFX lights: lexer, recursive-descent parser, bytecode code generator,
loader and stack VM, plus a Flask job runner). You have your OWN scratch git worktree of the repository at
{wt} . Work ONLY inside that directory (never touch /repo or /verif, and do not read /verif).

The semantic property under study ({pid}: {p['title']}):

  STATEMENT: {p['statement']}

  QUANTIFIED OVER: {p['quantifier']['text']}

  Files it is anchored in: {', '.join(p['anchors']['files'])}

YOUR TASK: produce {n} DIFFERENT, independent, realistic code changes (bugs a maintainer could plausibly
introduce: an off-by-one, a wrong comparison, a dropped conversion on one path, a swapped argument, a
missing reset, a stale cache, ...) to the non-test source of the repository, each of which
  (a) makes the code VIOLATE the property above,
  (b) still imports/compiles, and
  (c) still passes the repository's existing test suite:
        cd {wt} && /venv/bin/python -m pytest -q -p no:cacheprovider --timeout=900
      (186 tests pass on the unchanged tree; tests.script_test and tests.trace_test fail already and are ignored).
Prefer changes that need something SPECIFIC to manifest (an unusual input value, a particular multi-step
sequence of operations, a particular interleaving or fault point, two cooperating sites that each look fine
alone) rather than ones ordinary use would expose at once. Each change should be small (a few lines).
Note: the unchanged tree may ALREADY violate this property in some ways; your change must introduce a NEW,
different violation: your demonstration must PASS on the unchanged tree and FAIL with your change.

{"DIVERSITY: others have already tried the most obvious one-line changes in the most central function of this property. Look further afield: helper functions and accessors the central code relies on, error and fallback paths, rarely used statement forms, state that survives between calls (caches, counters, flags, shared mutable defaults), two cooperating sites that each look fine alone, conversions applied on one path but not on its sibling, behaviour at boundaries (empty, zero, last element, equal names, negative values). Each of your changes should touch a DIFFERENT function." if variant == "diverse" else ("DIVERSITY: many one-line changes in the central functions of this property, and in their obvious helpers, have been tried already. Yours should be of these kinds: (1) a change in a module the property depends on only indirectly (look at what the anchored files import and call: lib/, controller/, vm/, parser/ helpers, data classes, enums and tables); (2) a change that is correct for every single call but wrong for a particular ORDER of two or three calls or statements; (3) a change to a default, a constant, a table entry, a regular expression or a comparison boundary that only an unusual value reaches; (4) a refactoring that looks behaviour-preserving (extracting a helper, caching, reordering statements, replacing a loop by a comprehension, using a different but similar library call) and is not. Each of your changes should be of a different kind and touch a different function." if variant == "deep" else ("DIVERSITY: the central functions of this property, their direct helpers, caches added to them, and the obvious unit-conversion, clock, injection, symbol-table and lexer changes have all been tried. Find changes that are FAR from the obvious: (1) in code at least two calls away from the functions named in the anchored files (follow the imports: bardolph/lib/*, bardolph/controller/*, bardolph/runtime/*, bardolph/vm/* helpers, web/*, data classes such as Instruction, Routine, Symbol, Token, Rect, ColorMatrix); (2) in the way objects are constructed, copied, compared or hashed (__init__, __eq__, copy, default arguments, class attributes shared between instances); (3) in what happens at the edges of a run: first use, second use of the same object, empty collections, a name used in two roles, the last element, a value of an unexpected but legal type (bool where a number is expected, int where a float is expected, an empty string); (4) in error handling: an exception class widened or narrowed, a return value of an error path changed, a log call that now raises. Each of your changes must touch a different FILE." if variant == "wide" else ("DIVERSITY: a dozen changes per property have been tried already: the central functions, their helpers, caches, unit conversions, clocks, injection, symbol tables, lexer rules, constructors and shared class attributes. Yours should be of these kinds: (1) the AGREEMENT between two components: the code generator emits an instruction whose parameters the VM reads in a different shape or order, an Operand / OpCode / Register / TokenTypes member used where its sibling is meant, a job or web layer passing a different key than the layer below expects; (2) NUMERIC edge cases: negative numbers, zero, a value exactly at a range boundary, float where int is usual, very large values, rounding direction, wrap-around; (3) state of a long-lived object (Machine, Parser, CodeGen, JobControl, LightSet, Clock, WebApp, CallStack, Lex) that is not reset, or reset too eagerly, between two uses; (4) iteration ORDER, sorting, de-duplication and aliasing: a list returned instead of a copy, a dict iterated in insertion order where sorted order is promised, the same object appended twice; (5) a condition that is right for one kind of light / unit mode / operand and wrong for its sibling (multi-zone vs. single, raw vs. logical vs. rgb, group vs. location, define vs. assign, global vs. local). Each of your changes must be of a different kind and touch a different function." if variant == "edge" else ("DIVERSITY: about fifteen changes per property have been tried already, in every central function. Yours should be of these kinds: (1) a TABLE or ENUM entry: the keyword table of the lexer, the register list, OpCode / Operand / Operator / Register / LoopVar members and the dictionaries keyed by them (operator precedences, handler maps, conversion-function maps), a regular expression; (2) CLEAN-UP and ORDER: a finally block, a lock released too early or not at all on one path, a flag cleared before instead of after a call, two statements swapped whose order only matters on a failure path; (3) a RETURN-VALUE convention: None where False is expected or the reverse, a truthy value on a failure path, a result computed and then not returned on one branch, an exception swallowed that the caller relies on; (4) TEXT: quoting and escaping when text is generated (captured scripts, HTML, format strings, log messages containing braces), upper / lower case, leading and trailing blanks, empty strings, line ends; (5) an ARITHMETIC boundary: inclusive vs exclusive ends of ranges, rounding to nearest vs truncation, modulo of negative numbers, percentages at exactly 0 and 100, 65535 vs 65536, seconds vs milliseconds. Each of your changes must be of a different kind and touch a different function." if variant == "tables" else ("DIVERSITY: about eighteen changes per property have been tried already, in every central function, table, constructor and clean-up path. Look for what is LEFT: (1) functions in the anchored files (and the modules they import) that are only reached by an unusual statement form, option or setting - read the whole file for the least-travelled branch; (2) INTERACTIONS of two features each of which works alone (a routine call inside a matrix block, a break inside an if inside a loop over groups, units switched inside a routine, printf inside a loop with a named field that is the loop variable, a time pattern held in a macro used after `or`); (3) a change that is only wrong the SECOND time (second call, second iteration, second script, second request) or only the FIRST time; (4) a default parameter value, an optional argument passed positionally to the wrong slot, a keyword argument dropped. Each of your changes must be of a different kind and touch a different function." if variant == "left" else "")))))}

For each change k = 1..{n} create a directory {wt}/SEED/k/ containing:
  - patch.diff : output of `git diff` for that change alone, relative to the unchanged tree (so that
                 `git apply patch.diff` on a clean tree reproduces it). Only non-test source files.
  - demo.py    : a small self-contained program run as `cd <tree> && /venv/bin/python SEED/k/demo.py`
                 (it may set sys.path to the tree root; it may use the fake lights in bardolph/fakes and the
                 helpers in tests/, e.g. tests/test_module.py and tests/script_runner.py) that exits 0 on the
                 unchanged tree and exits non-zero (assertion failure) with the change applied.
  - notes.md   : which clause of the property is broken, what exactly is needed for it to manifest, and the
                 commands you ran (test suite result with the change, demo result with and without).
Procedure per change: edit the source, run the test suite (must still pass all 186), run the demo (must fail),
save `git diff -- . ':!SEED' > SEED/k/patch.diff`, then `git checkout -- bardolph web` (restore the tree, keep SEED/), run the demo
again (must pass). Leave the worktree clean except for the untracked SEED/ directory.
When done, reply with a short summary: for each change, the file/function touched, the one-line description
of the bug, and what input/sequence makes it manifest. Do not include anything else.""")
