#!/venv/bin/python
"""Native harness used by replays: compile and run Bardolph scripts on the real code of a tree.

usage: run_script.py <repo-root> <job.json> <out.json>
job: {"scripts": [text, ...], "vars": [names], "small_set": bool}
out: [{"compiled": bool, "errors": str, "vars": {...}, "regs": {...}, "calls": {light: [...]}, "stdout": str,
       "raised": str|null}, ...]
Each script runs synchronously (ScriptJob.execute in this thread) with the repo's fake lights and fake clock.
"""
import io
import json
import sys
import contextlib


def main():
    repo, jobp, outp = sys.argv[1:4]
    sys.path.insert(0, repo)
    job = json.load(open(jobp))
    from tests import test_module
    from bardolph.controller import i_controller
    from bardolph.controller.script_job import ScriptJob
    from bardolph.lib.injection import provide
    from bardolph.vm.vm_codes import Register
    out = []
    for text in job['scripts']:
        rec = {'compiled': False, 'errors': '', 'vars': {}, 'regs': {}, 'calls': {}, 'stdout': '', 'raised': None}
        try:
            test_module.configure(job.get('small_set', False))
            buf = io.StringIO()
            with contextlib.redirect_stdout(buf):
                sj = ScriptJob.from_string(text)
                rec['compiled'] = sj.program is not None
                rec['errors'] = sj.compile_errors
                if sj.program is not None:
                    rec['program'] = [repr(i) for i in sj.program]
                    sj.execute()
                    st = sj.get_machine_state()
                    for v in job.get('vars', []):
                        val = st.call_stack.get_variable(v)
                        rec['vars'][v] = val if isinstance(val, (int, float, bool, str, type(None))) else repr(val)
                    for r in Register:
                        try:
                            val = st.reg.get_by_enum(r)
                        except AttributeError:
                            continue
                        rec['regs'][r.name.lower()] = val if isinstance(val, (int, float, bool, str, type(None))) else repr(val)
                    api = provide(i_controller.LightApi)
                    for light in api.get_lights():
                        rec['calls'][light.get_name()] = [repr(c) for c in light.get_call_list()]
                    rec['global_calls'] = [repr(c) for c in api.get_call_list()]
            rec['stdout'] = buf.getvalue()
        except BaseException as e:       # noqa
            rec['raised'] = '%s: %s' % (type(e).__name__, e)
        out.append(rec)
    json.dump(out, open(outp, 'w'))


if __name__ == '__main__':
    main()
