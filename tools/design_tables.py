#!/usr/bin/env python3
"""Fill the generated parts of DESIGN.md: the seed matrix (from the output of tools/seed_matrix.sh) between the
SEED-MATRIX markers.  usage: design_tables.py <matrix-output-file>"""
import json, os, re, sys
rows = {}
for line in open(sys.argv[1]):
    m = re.match(r'(\S+) (C\d\d) exit=(\d) :: (\d+) violations; (.*)', line)
    if not m:
        continue
    seed, pid, ex, n, rest = m.groups()
    first = rest.split(';')[0]
    ob = re.sub(r'^VIOLATION property=\S+ obligation=', '', first)
    nf = ob.endswith(' no-failing-input-found')
    ob = ob.replace(' no-failing-input-found', '')
    rows.setdefault(seed, []).append((pid, ex, ob, nf))
out = ['| seed | file(s) | check | verdict | first failing obligation | replayed |', '|----|----|----|----|----|----|']
def key(s):
    m = re.match(r'C(\d\d)-(\d+)(b?)', s)
    return (int(m.group(1)), int(m.group(2)), m.group(3))
for seed in sorted(rows, key=key):
    meta = json.load(open('/verif/seeded/%s/meta.json' % seed))
    files = ', '.join(os.path.basename(f) for f in meta['files'])
    for pid, ex, ob, nf in rows[seed]:
        if ex != '1' and meta.get('not_caught'):
            out.append('| %s | %s | %s | **not caught** | %s |  |' % (seed, files, pid, meta['not_caught'][:200].replace('|', '\\|')))
            continue
        verdict = 'caught' if ex == '1' else ('not a violation of %s on the current tree (see meta.json)' % pid if meta.get('also_checks') and pid == meta['property'] and ex == '0' else 'exit %s' % ex)
        out.append('| %s | %s | %s | %s | %s | %s |' % (seed, files, pid, verdict, ob.replace('|', '\\|')[:120], '' if ex != '1' else ('no' if nf else 'yes')))
p = '/verif/DESIGN.md'
s = open(p).read()
a = s.index('<!-- SEED-MATRIX-BEGIN -->') + len('<!-- SEED-MATRIX-BEGIN -->')
b = s.index('<!-- SEED-MATRIX-END -->')
s = s[:a] + '\n' + '\n'.join(out) + '\n' + s[b:]
open(p, 'w').write(s)
print(len(out) - 2, 'rows')
