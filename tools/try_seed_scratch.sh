#!/bin/bash
# try_seed_scratch.sh <seed-name> [PID ...] : like try_seed.sh, but never touches /repo: the committed tree (HEAD) is
# exported to a scratch directory, the seed's patch applied there, and the checks run against it (PYVC_REPO / PYVC_OUT).
seed=$1; shift
pids=${@:-$(python3 -c "import json;m=json.load(open('/verif/seeded/$seed/meta.json'));print(' '.join([m['property']]+m.get('also_checks',[])))")}
scratch=$(mktemp -d /tmp/pyvc_try.XXXXXX); mkdir $scratch/tree $scratch/out
git -C /repo archive HEAD | tar -x -C $scratch/tree
if ! (cd $scratch/tree && git apply /verif/seeded/$seed/patch.diff 2>/dev/null || patch -s -p1 < /verif/seeded/$seed/patch.diff); then echo "$seed: patch does not apply to HEAD"; rm -rf $scratch; exit 2; fi
for p in $pids; do
  out=$(cd /verif && PYVC_REPO=$scratch/tree PYVC_OUT=$scratch/out ./check $p 2>&1); code=$?
  echo "$seed $p exit=$code :: $(echo "$out" | grep -c '^VIOLATION') violations; $(echo "$out" | grep '^VIOLATION' | head -3 | sed 's/replay=[^ ]* //' | tr '\n' ';')"
  echo "$out" | grep -E "^(UNDECIDED|CHECKER-ERROR)" | head -3
  [ "$code" = 1 ] && break
done
rm -rf "$scratch"
