#!/bin/bash
# run every seeded change against the check(s) of its property (and extra properties given in meta 'also'); print a table
cd /verif
for d in seeded/*/; do
  s=$(basename $d)
  pids=$(python3 -c "import json;m=json.load(open('$d/meta.json'));print(' '.join([m['property']]+m.get('also_checks',[])))")
  tools/try_seed.sh $s $pids 2>&1 | grep -E "^$s|does not apply" | cut -c1-400
done
