#!/bin/bash
# confirm_seed.sh <PID> <worktree> : confirm every SEED/k of a seeding agent in its scratch worktree and
# copy the confirmed ones to /verif/seeded/<PID>-<k>/ (patch.diff, demo.py, notes.md, meta.json).
# The worktree is left clean; remove it afterwards with: git -C /repo worktree remove --force <worktree>
set -u
PID=$1; WT=$2
cd "$WT" || exit 2
for d in SEED/*/; do
  k=$(basename "$d")
  [ -f "$d/patch.diff" ] || continue
  git checkout -q -- bardolph web 2>/dev/null
  /venv/bin/python "$d/demo.py" >/tmp/seed_demo_clean.$$ 2>&1; clean=$?
  if ! git apply --check "$d/patch.diff" 2>/dev/null; then echo "$PID-$k: patch does not apply"; continue; fi
  git apply "$d/patch.diff"
  /venv/bin/python -m pytest -q -p no:cacheprovider --timeout=900 -x -q 2>&1 | tail -3 > /tmp/seed_tests.$$
  passed=$(grep -o '[0-9]* passed' /tmp/seed_tests.$$ | grep -o '[0-9]*')
  # full run without -x to count
  /venv/bin/python -m pytest -q -p no:cacheprovider --timeout=900 2>&1 | tail -1 > /tmp/seed_tests.$$
  passed=$(grep -o '[0-9]* passed' /tmp/seed_tests.$$ | grep -o '[0-9]*')
  /venv/bin/python "$d/demo.py" >/tmp/seed_demo_mut.$$ 2>&1; mut=$?
  git checkout -q -- bardolph web
  echo "$PID-$k: demo clean=$clean mutated=$mut tests_passed=$passed"
  if [ "$clean" = 0 ] && [ "$mut" != 0 ] && [ "${passed:-0}" -ge 186 ]; then
    out=/verif/seeded/$PID-$k; mkdir -p "$out"
    cp "$d/patch.diff" "$d/demo.py" "$out/"; [ -f "$d/notes.md" ] && cp "$d/notes.md" "$out/"
    python3 - "$PID" "$k" "$out" "$passed" "$clean" "$mut" <<'EOF'
import json,sys,subprocess
pid,k,out,passed,clean,mut=sys.argv[1:]
files=[l[6:].strip() for l in open(out+'/patch.diff') if l.startswith('+++ b/')]
notes=open(out+'/notes.md').read() if __import__('os').path.exists(out+'/notes.md') else ''
json.dump({"property":pid,"seed":k,"files":files,
 "needs_to_manifest":"see notes.md (written by the independent seeding agent)",
 "confirmed":{"tests_passed_with_change":int(passed),"demo_exit_unchanged":int(clean),"demo_exit_with_change":int(mut),
   "how":"tools/confirm_seed.sh in a scratch worktree: demo on clean tree, git apply, full pytest, demo, git checkout"},
 "base_commit":subprocess.check_output(['git','rev-parse','HEAD']).decode().strip()},open(out+'/meta.json','w'),indent=1)
EOF
  fi
done
rm -f /tmp/seed_demo_clean.$$ /tmp/seed_demo_mut.$$ /tmp/seed_tests.$$
