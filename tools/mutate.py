#!/usr/bin/env python3
"""Automated mutation campaign against the checks (a development aid; nothing registered in MANIFEST.json uses it).

  mutate.py gen  <outdir>                 : generate classic first-order mutants of the anchored source files (one JSON line each)
  mutate.py test <outdir> <workers>       : keep the mutants that still pass the repository's pinned test suite ("survivors")
  mutate.py check <outdir> <workers> [N]  : run the quick check of every property anchored in the mutated file on each survivor
                                             (on a scratch copy: PYVC_REPO / PYVC_OUT), record which survive the checks too

Mutation operators: comparison swaps (< <= > >= == != is/is not in/not in), arithmetic swaps (+ - * / // %), and/or, negated
conditions, integer constants +-1, True/False, a deleted expression statement or assignment (pass), `return x` -> `return None`,
swapped first two positional arguments.  Scratch copies live under the system temp directory and are removed at the end.
"""
import ast
import copy
import json
import os
import random
import shutil
import subprocess
import sys
import tempfile
from concurrent.futures import ProcessPoolExecutor

REPO = '/repo'
VERIF = '/verif'


def anchored_files():
    files = {}
    for l in open(os.path.join(VERIF, 'properties.jsonl')):
        p = json.loads(l)
        for f in p['anchors']['files']:
            if f.endswith('.py'):
                files.setdefault(f, []).append(p['id'])
    return files


CMP = {ast.Lt: [ast.LtE, ast.Gt], ast.LtE: [ast.Lt, ast.GtE], ast.Gt: [ast.GtE, ast.Lt], ast.GtE: [ast.Gt, ast.LtE], ast.Eq: [ast.NotEq], ast.NotEq: [ast.Eq],
       ast.Is: [ast.IsNot], ast.IsNot: [ast.Is], ast.In: [ast.NotIn], ast.NotIn: [ast.In]}
BIN = {ast.Add: [ast.Sub], ast.Sub: [ast.Add], ast.Mult: [ast.Div, ast.Add], ast.Div: [ast.Mult, ast.FloorDiv], ast.FloorDiv: [ast.Div], ast.Mod: [ast.Mult]}


def mutants_of(path):
    src = subprocess.run(['git', '-C', REPO, 'show', 'HEAD:' + path], capture_output=True, text=True, check=True).stdout
    tree = ast.parse(src)
    out = []
    nodes = list(ast.walk(tree))

    def emit(desc, mutate, node):
        t2 = copy.deepcopy(tree)
        # locate the same node in the copy by position and type
        for n2 in ast.walk(t2):
            if type(n2) is type(node) and getattr(n2, 'lineno', None) == getattr(node, 'lineno', None) and \
                    getattr(n2, 'col_offset', None) == getattr(node, 'col_offset', None) and \
                    getattr(n2, 'end_col_offset', None) == getattr(node, 'end_col_offset', None):
                if mutate(n2) is False:
                    return
                break
        else:
            return
        try:
            new = ast.unparse(ast.fix_missing_locations(t2))
            compile(new, path, 'exec')
        except Exception:
            return
        out.append({'file': path, 'line': getattr(node, 'lineno', 0), 'op': desc, 'source': new})

    for node in nodes:
        if isinstance(node, ast.Compare) and len(node.ops) == 1:
            for alt in CMP.get(type(node.ops[0]), []):
                emit('%s -> %s' % (type(node.ops[0]).__name__, alt.__name__), lambda n, alt=alt: n.ops.__setitem__(0, alt()), node)
        elif isinstance(node, ast.BinOp):
            if isinstance(node.op, ast.Mod) and isinstance(node.left, ast.Constant) and isinstance(node.left.value, str):
                continue
            for alt in BIN.get(type(node.op), []):
                emit('%s -> %s' % (type(node.op).__name__, alt.__name__), lambda n, alt=alt: setattr(n, 'op', alt()), node)
        elif isinstance(node, ast.BoolOp):
            alt = ast.Or if isinstance(node.op, ast.And) else ast.And
            emit('%s -> %s' % (type(node.op).__name__, alt.__name__), lambda n, alt=alt: setattr(n, 'op', alt()), node)
        elif isinstance(node, (ast.If, ast.While)) and not (isinstance(node.test, ast.Constant)):
            emit('negate condition', lambda n: setattr(n, 'test', ast.UnaryOp(ast.Not(), n.test)), node)
        elif isinstance(node, ast.Constant) and not isinstance(node.value, (str, bytes)) and node.value is not None and node.value is not Ellipsis:
            if isinstance(node.value, bool):
                emit('%s -> %s' % (node.value, not node.value), lambda n: setattr(n, 'value', not n.value), node)
            elif isinstance(node.value, int):
                for d in (1, -1):
                    emit('%d -> %d' % (node.value, node.value + d), lambda n, d=d: setattr(n, 'value', n.value + d), node)
            elif isinstance(node.value, float):
                emit('%r -> %r' % (node.value, node.value + 1.0), lambda n: setattr(n, 'value', n.value + 1.0), node)
        elif isinstance(node, ast.Return) and node.value is not None and not (isinstance(node.value, ast.Constant) and node.value.value is None):
            emit('return None', lambda n: setattr(n, 'value', ast.Constant(None)), node)
        elif isinstance(node, ast.Call) and len(node.args) >= 2 and not node.keywords and not any(isinstance(a, ast.Starred) for a in node.args):
            emit('swap first two arguments', lambda n: n.args.__setitem__(slice(0, 2), [n.args[1], n.args[0]]), node)
    # statement deletion
    for node in nodes:
        body_lists = [getattr(node, f) for f in ('body', 'orelse', 'finalbody') if isinstance(getattr(node, f, None), list)]
        for bl in body_lists:
            for st in bl:
                if isinstance(st, (ast.Expr, ast.Assign, ast.AugAssign)) and not (isinstance(st, ast.Expr) and isinstance(st.value, ast.Constant)):
                    def delete(n, st=st):
                        for f in ('body', 'orelse', 'finalbody'):
                            l = getattr(n, f, None)
                            if isinstance(l, list):
                                for i, s in enumerate(l):
                                    if type(s) is type(st) and s.lineno == st.lineno and s.col_offset == st.col_offset:
                                        l[i] = ast.Pass()
                                        return True
                        return False
                    if hasattr(node, 'lineno'):
                        emit('delete statement at line %d' % st.lineno, delete, node)
    # de-duplicate identical sources
    seen, uniq = set(), []
    for m in out:
        if m['source'] != ast.unparse(tree) and m['source'] not in seen:
            seen.add(m['source'])
            uniq.append(m)
    return uniq


def gen(outdir):
    os.makedirs(outdir, exist_ok=True)
    files = anchored_files()
    n = 0
    with open(os.path.join(outdir, 'mutants.jsonl'), 'w') as f:
        for path in sorted(files):
            if subprocess.run(['git', '-C', REPO, 'cat-file', '-e', 'HEAD:' + path], capture_output=True).returncode != 0:
                continue
            for i, m in enumerate(mutants_of(path)):
                m['id'] = '%s:%d' % (path, i)
                m['properties'] = files[path]
                f.write(json.dumps(m) + '\n')
                n += 1
    print(n, 'mutants')


def _scratch():
    d = tempfile.mkdtemp(prefix='pyvc_mut_')
    tree = os.path.join(d, 'tree')
    os.makedirs(tree)
    # the committed tree (HEAD), not the working tree: a seed matrix may be patching /repo at the same time
    a = subprocess.Popen(['git', '-C', REPO, 'archive', 'HEAD'], stdout=subprocess.PIPE)
    subprocess.run(['tar', '-x', '-C', tree], stdin=a.stdout, check=True)
    a.wait()
    return d, tree


def _test_chunk(chunk):
    d, tree = _scratch()
    res = []
    try:
        for m in chunk:
            p = os.path.join(tree, m['file'])
            orig = open(p).read()
            open(p, 'w').write(m['source'])
            try:
                r = subprocess.run(['/venv/bin/python', '-m', 'pytest', '-q', '-x', '-p', 'no:cacheprovider', '--timeout=120',
                                    # the two tests that fail on the pinned tree as well (BASELINE.json always_fail)
                                    '--deselect', 'tests/script_test.py::ScriptTest::test_script', '--deselect', 'tests/trace_test.py::test_callback'],
                                   cwd=tree, capture_output=True, text=True, timeout=600)
                tail = r.stdout.strip().splitlines()[-1] if r.stdout.strip() else ''
                ok = r.returncode == 0 and ' passed' in tail and 'failed' not in tail and 'error' not in tail
            except subprocess.TimeoutExpired:
                ok, tail = False, 'timeout'
            open(p, 'w').write(orig)
            res.append((m['id'], ok, tail))
    finally:
        shutil.rmtree(d, ignore_errors=True)
    return res


def test(outdir, workers):
    ms = [json.loads(l) for l in open(os.path.join(outdir, 'mutants.jsonl'))]
    random.Random(1).shuffle(ms)
    done = {}
    sp = os.path.join(outdir, 'tested.jsonl')
    if os.path.exists(sp):
        for l in open(sp):
            r = json.loads(l)
            done[r['id']] = r
    todo = [m for m in ms if m['id'] not in done]
    chunks = [todo[i:i + 6] for i in range(0, len(todo), 6)]
    with ProcessPoolExecutor(workers) as ex, open(sp, 'a') as f:
        for res in ex.map(_test_chunk, chunks):
            for mid, ok, tail in res:
                f.write(json.dumps({'id': mid, 'survives_tests': ok, 'tail': tail}) + '\n')
            f.flush()
    t = [json.loads(l) for l in open(sp)]
    print(sum(1 for x in t if x['survives_tests']), 'of', len(t), 'survive the test suite')


def _sources_of_properties():
    src = {}
    for pid in ['C%02d' % i for i in range(1, 21)]:
        try:
            c = json.load(open(os.path.join(VERIF, 'evidence', pid + '.json')))['coverage']
            src[pid] = set(c.get('source_sha256', {}).keys())
        except Exception:
            src[pid] = set()
    return src


def _check_one(args):
    m, pids, jobs = args
    d, tree = _scratch()
    out = {'id': m['id'], 'file': m['file'], 'line': m['line'], 'op': m['op'], 'checks': {}}
    try:
        open(os.path.join(tree, m['file']), 'w').write(m['source'])
        env = dict(os.environ, PYVC_REPO=tree, PYVC_OUT=os.path.join(d, 'out'), PYVC_XCHECK='0', PYVC_SELFTEST='0',
                   PYTHONPATH=VERIF)
        for pid in pids:
            try:
                p = subprocess.run(['python3-vt', '-m', 'pyvc.runner', pid, '--tier', 'quick', '--jobs', str(jobs)], cwd=VERIF, env=env,
                                   capture_output=True, text=True, timeout=1800)
                first = [l for l in p.stdout.splitlines() if l.startswith(('VIOLATION', 'UNDECIDED', 'CHECKER-ERROR'))][:1]
                out['checks'][pid] = {'exit': p.returncode, 'first': first[0][:200] if first else ''}
                if p.returncode == 1:
                    break           # detected: no need to run the remaining properties
            except subprocess.TimeoutExpired:
                out['checks'][pid] = {'exit': -1, 'first': 'timeout'}
    finally:
        shutil.rmtree(d, ignore_errors=True)
    return out


def check(outdir, workers, limit=None):
    ms = {m['id']: m for m in (json.loads(l) for l in open(os.path.join(outdir, 'mutants.jsonl')))}
    surv = [json.loads(l)['id'] for l in open(os.path.join(outdir, 'tested.jsonl')) if json.loads(l)['survives_tests']]
    src = _sources_of_properties()
    cp = os.path.join(outdir, 'checked.jsonl')
    done = set(json.loads(l)['id'] for l in open(cp)) if os.path.exists(cp) else set()
    random.Random(2).shuffle(surv)
    todo = []
    for mid in surv:
        if mid in done:
            continue
        m = ms[mid]
        # the properties anchored in the file (C01, which every handler, template and control contract serves, when there is none)
        pids = [p for p in m['properties'] if m['file'] in src.get(p, ())]
        if not pids and m['file'] in src.get('C01', ()):
            pids.append('C01')
        todo.append((m, pids, max(2, 16 // workers)))
    if limit:
        todo = todo[:int(limit)]
    with ProcessPoolExecutor(workers) as ex, open(cp, 'a') as f:
        for r in ex.map(_check_one, todo):
            f.write(json.dumps(r) + '\n')
            f.flush()
    rs = [json.loads(l) for l in open(cp)]
    det = sum(1 for r in rs if any(c['exit'] == 1 for c in r['checks'].values()))
    print(det, 'of', len(rs), 'surviving mutants are detected by the checks')


if __name__ == '__main__':
    cmd = sys.argv[1]
    if cmd == 'gen':
        gen(sys.argv[2])
    elif cmd == 'test':
        test(sys.argv[2], int(sys.argv[3]))
    elif cmd == 'check':
        check(sys.argv[2], int(sys.argv[3]), sys.argv[4] if len(sys.argv) > 4 else None)
