#!/bin/bash
# regenerate every evidence file from the clean /repo working tree (run before committing evidence)
cd /verif
if [ -n "$(git -C /repo status --porcelain -- bardolph web tests)" ]; then echo "/repo working tree is not clean"; exit 2; fi
for p in $(python3 -c "import json;print(' '.join(c['property_id'] for c in json.load(open('MANIFEST.json'))['checks']))"); do
  out=$(./check $p --tier ${1:-quick} 2>&1 | tail -1); echo "$out" | cut -c1-170
done
