"""pyvc symbolic interpreter: executes the *real* source text of /repo functions over
symbolic values, forking per path (re-execution with a decision trace), cutting loops at
invariants, replacing calls by contracts where a contract is marked modular, and emitting
named proof obligations that are discharged by z3.
"""
import ast
import os
import sys
import z3

sys.setrecursionlimit(40000)

from .values import (SymVal, CharStr, PyObj, PyList, SymSeq, PyDict, SymMap, PySet, SymSet,
                     ClassObj, BuiltinClass, EnumMember, FuncObj, BoundMethod, StaticMethod,
                     PropertyObj, ModuleObj, Builtin, ExcObj, Opaque, Computed, SymMat, SymRowRef, Struct, Segment,
                     SymEnumVal, SymNameOf, enum_index, _MISSING)
from . import ops
from .ops import to_term, mk, kind_of, is_num


class PathEnd(Exception):
    """current path is finished (infeasible, or cut after a loop-body check)."""


class Unsupported(Exception):
    """construct outside the supported subset: the function is UNDECIDED, never proved/refuted."""


class ReturnEx(Exception):
    def __init__(self, value):
        self.value = value


class BreakEx(Exception):
    pass


class ContinueEx(Exception):
    pass


class PyRaise(Exception):
    """An interpreted Python exception in flight."""

    def __init__(self, exc):
        self.exc = exc


class Env:
    __slots__ = ('vars', 'parent', 'glob', 'func', 'yielded')

    def __init__(self, vars_, parent, glob, func=None):
        self.vars = vars_
        self.parent = parent
        self.glob = glob
        self.func = func

    def lookup(self, name, interp):
        e = self
        while e is not None:
            if name in e.vars:
                return e.vars[name]
            e = e.parent
        if name in self.glob:
            return self.glob[name]
        if name in interp.builtins:
            return interp.builtins[name]
        interp.raise_builtin('NameError', name)


class SuperObj:
    def __init__(self, cls, obj):
        self.cls, self.obj = cls, obj


ATOM_NONEMPTY = z3.Function('atom_nonempty', z3.IntSort(), z3.BoolSort())


class Obligation:

    def __init__(self, name, goal, pc, kind, path, info=None):
        self.name, self.goal, self.pc, self.kind, self.path = name, goal, pc, kind, path
        self.status = None
        self.model = None
        self.time = 0.0
        self.solver = None
        self.info = info


class Interp:
    MAX_CONCRETE_ITERS = 100000

    def __init__(self, repo_root, stdlib_paths=None, timeout_ms=10000):
        self.repo_root = repo_root
        self.stdlib_paths = stdlib_paths or {}
        self.timeout_ms = timeout_ms
        self.modules = {}
        self.sources = {}           # path -> source text (for sha256 in evidence)
        self.builtins = {}
        self.ext_modules = {}       # dotted name -> ModuleObj factory
        self.contracts = {}         # (relpath, qualname) -> Contract
        self.loopspecs = {}         # (relpath, qualname, ordinal) -> LoopSpec
        self.spec_fns = {}
        self.spec_mode = 0
        self.old_snapshot = None
        self.old_mode = 0
        # per-path state
        self.pc = []
        self.trace = []
        self.dec_idx = 0
        self.worklist = None
        self.fresh_n = 0
        self.log = []
        self.ghost = {}
        self.obligations = []
        self.path_id = 0
        self.call_depth = 0
        self.inlined = set()
        self.used_contracts = set()
        self.solver_time = 0.0
        self.feas_checks = 0
        self.cur_func = []
        self.volatile = {}          # (id(obj), field) -> reader: fields written by other threads (rely)
        self.write_hooks = {}       # (id(obj), field) -> hook called at every assignment in the code under contract
        self.loop_entry_stack = []
        self.undo_log = []
        from . import models
        models.install(self)

    # ------------------------------------------------------------------ paths
    def explore(self, thunk, max_paths=4000):
        """Run thunk() once per feasible path. Returns list of (path_id, outcome)."""
        self.worklist = [[]]
        outcomes = []
        n = 0
        while self.worklist:
            trace = self.worklist.pop()
            n += 1
            if n > max_paths:
                raise Unsupported('more than %d paths' % max_paths)
            self.pc = []
            self.trace = list(trace)
            self.dec_idx = 0
            self.fresh_n = 0
            self.log = []
            self.ghost = {}
            self.path_id = n
            self.call_depth = 0
            self.old_snapshot = None
            self.spec_mode = 0
            self.old_mode = 0
            self.cur_func = []
            self.volatile = {}
            self.write_hooks = {}
            self.loop_entry_stack = []
            for d_, k_, old_ in reversed(self.undo_log):
                d_[k_] = old_
            self.undo_log = []
            try:
                out = thunk()
                outcomes.append((n, out))
            except PathEnd:
                outcomes.append((n, 'cut'))
        return outcomes

    def feasible(self, extra=None):
        s = z3.Solver()
        s.set('timeout', 2000)
        for c in self.pc:
            s.add(c)
        if extra is not None:
            s.add(extra)
        self.feas_checks += 1
        r = s.check()
        return r != z3.unsat        # unknown counts as feasible (sound: explores more)

    def branch(self, cond, why=''):
        """Decide a symbolic boolean; returns a Python bool and records the path condition."""
        if isinstance(cond, bool):
            return cond
        if isinstance(cond, SymVal):
            cond = cond.t
        cond = z3.simplify(cond)
        if z3.is_true(cond):
            return True
        if z3.is_false(cond):
            return False
        if self.spec_mode:
            raise Unsupported('branch on symbolic condition inside a specification: %s' % cond)
        i = self.dec_idx
        self.dec_idx += 1
        if i < len(self.trace):
            d = self.trace[i]
        else:
            ft = self.feasible(cond)
            ff = self.feasible(z3.Not(cond))
            if ft and ff:
                d = True
                self.worklist.append(self.trace[:i] + [False])
            elif ft:
                d = True
            elif ff:
                d = False
            else:
                raise PathEnd()
            self.trace.append(d)
        self.pc.append(cond if d else z3.Not(cond))
        return d

    def assume(self, cond):
        if isinstance(cond, bool):
            if not cond:
                raise PathEnd()
            return
        if isinstance(cond, SymVal):
            cond = cond.t
        cond = z3.simplify(cond)
        if z3.is_false(cond):
            raise PathEnd()
        if not z3.is_true(cond):
            self.pc.append(cond)

    def fresh(self, kind, name='v'):
        self.fresh_n += 1
        if getattr(self, '_in_body', False):
            self.abstracted = getattr(self, 'abstracted', 0) + 1     # a value the real run would compute, not choose
        nm = '%s#%d' % (name, self.fresh_n)
        if kind in ('int', 'atom'):
            return SymVal(z3.Int(nm), kind)
        if kind == 'real':
            return SymVal(z3.Real(nm), 'real')
        if kind == 'bool':
            return SymVal(z3.Bool(nm), 'bool')
        if kind == 'str':
            return SymVal(z3.String(nm), 'str')
        raise ValueError(kind)

    def oblige(self, name, goal, kind='post', info=None):
        """Emit a proof obligation: under the current path condition `goal` must hold."""
        if isinstance(goal, bool):
            goal = z3.BoolVal(goal)
        elif isinstance(goal, SymVal):
            goal = goal.t
        ob = Obligation(name, goal, list(self.pc), kind, self.path_id, info)
        self.obligations.append(ob)
        return ob

    # ------------------------------------------------------------------ exceptions
    def raise_builtin(self, clsname, *args):
        raise PyRaise(ExcObj(self.builtins[clsname], args))

    def exc_class_of(self, exc):
        return exc.cls

    def exc_matches(self, exc, target):
        """isinstance(exc, target) for exception classes."""
        if isinstance(target, tuple):
            return any(self.exc_matches(exc, t) for t in target)
        if not isinstance(target, (ClassObj, BuiltinClass)):
            # `except X` where X is not a class (a list of classes...): Python raises TypeError when an exception arrives
            self.raise_builtin('TypeError', 'catching classes that do not inherit from BaseException is not allowed')
        return self.isinstance_(exc, target)

    # ------------------------------------------------------------------ modules
    def load_module(self, dotted):
        if dotted in self.modules:
            return self.modules[dotted]
        if dotted in self.ext_modules:
            m = self.ext_modules[dotted]
            if callable(m):
                m = m(self)
            self.modules[dotted] = m
            if not hasattr(self, 'ext_loaded'):
                self.ext_loaded = set()
            self.ext_loaded.add(dotted)
            return m
        path = self.find_source(dotted)
        if path is None:
            raise Unsupported('no model for module %s' % dotted)
        mod = ModuleObj(dotted, path)
        self.modules[dotted] = mod
        src = open(path).read()
        self.sources[path] = src
        tree = ast.parse(src, path)
        mod.ns['__name__'] = dotted
        mod.tree = tree
        env = Env(mod.ns, None, mod.ns)
        self._mod_stack = getattr(self, '_mod_stack', [])
        self._mod_stack.append(mod)
        try:
            self.exec_block(tree.body, env)
        finally:
            self._mod_stack.pop()
        return mod

    def find_source(self, dotted):
        if dotted in self.stdlib_paths:
            return self.stdlib_paths[dotted]
        rel = dotted.replace('.', '/')
        for cand in (rel + '.py', rel + '/__init__.py'):
            p = os.path.join(self.repo_root, cand)
            if os.path.exists(p):
                return p
        return None

    def relpath(self, mod):
        if mod.name in self.stdlib_paths:
            return 'stdlib:' + mod.name
        if mod.path and mod.path.startswith(self.repo_root):
            return os.path.relpath(mod.path, self.repo_root)
        return mod.path or mod.name

    # ------------------------------------------------------------------ statements
    def exec_block(self, stmts, env):
        for st in stmts:
            self.exec_stmt(st, env)

    def exec_stmt(self, st, env):
        m = getattr(self, 'st_' + type(st).__name__, None)
        if m is None:
            raise Unsupported('statement %s' % type(st).__name__)
        return m(st, env)

    def st_Expr(self, st, env):
        self.eval(st.value, env)

    def st_Pass(self, st, env):
        pass

    def st_Global(self, st, env):
        pass

    def st_Nonlocal(self, st, env):
        env.vars.setdefault('__nonlocals__', set()).update(st.names)

    def st_Assign(self, st, env):
        v = self.eval(st.value, env)
        for t in st.targets:
            self.assign(t, v, env)

    def st_AnnAssign(self, st, env):
        if st.value is not None:
            self.assign(st.target, self.eval(st.value, env), env)

    def set_op(self, opname, a, b, inplace=False):
        """a | b, a & b, a - b on sets of integers (concrete or symbolic); inplace: a is updated and returned (s |= t)"""
        from .models import to_symset, promote_set
        if isinstance(a, PySet) and isinstance(b, PySet):
            r = {'BitOr': a.s | b.s, 'BitAnd': a.s & b.s, 'Sub': a.s - b.s}[opname]
            if inplace:
                a.s = set(r)
                return a
            return PySet(r)
        ma, mb = to_symset(a), to_symset(b)
        self.fresh_n += 1
        i = z3.Int('i!set%d' % self.fresh_n)
        body = {'BitOr': z3.Or(z3.Select(ma, i), z3.Select(mb, i)), 'BitAnd': z3.And(z3.Select(ma, i), z3.Select(mb, i)),
                'Sub': z3.And(z3.Select(ma, i), z3.Not(z3.Select(mb, i)))}[opname]
        m = z3.Lambda([i], body)
        if inplace:
            promote_set(a)
            a.m = m
            return a
        return SymSet(m)

    def st_AugAssign(self, st, env):
        opname = type(st.op).__name__
        t = st.target
        # in-place operators on mutable containers update the object itself (every alias sees the change)
        if opname in ('BitOr', 'BitAnd', 'Sub', 'Add'):
            cur = self.eval(t, env) if isinstance(t, (ast.Name, ast.Attribute, ast.Subscript)) else None
            if isinstance(cur, (PySet, SymSet)) and opname != 'Add':
                other = self.eval(st.value, env)
                if isinstance(other, (PySet, SymSet)):
                    self.set_op(opname, cur, other, inplace=True)
                    return
            if isinstance(cur, PyList) and opname == 'Add' and cur.cls is None:
                other = self.eval(st.value, env)
                if isinstance(other, (PyList, tuple)):
                    cur.items.extend(self.iterate(other))
                    return
        if isinstance(t, ast.Name):
            cur = env.lookup(t.id, self)
            self.assign(t, self.binop(opname, cur, self.eval(st.value, env)), env)
        elif isinstance(t, ast.Attribute):
            obj = self.eval(t.value, env)
            cur = self.getattr_(obj, t.attr)
            self.setattr_(obj, t.attr, self.binop(opname, cur, self.eval(st.value, env)))
        elif isinstance(t, ast.Subscript):
            obj = self.eval(t.value, env)
            idx = self.eval_index(t.slice, env)
            cur = self.getitem(obj, idx)
            self.setitem(obj, idx, self.binop(opname, cur, self.eval(st.value, env)))
        else:
            raise Unsupported('augassign target')

    def assign(self, t, v, env):
        if isinstance(t, ast.Name):
            if t.id in env.vars.get('__nonlocals__', ()):
                e = env.parent
                while e is not None and t.id not in e.vars:
                    e = e.parent
                if e is None:
                    raise Unsupported('nonlocal %s not found' % t.id)
                # closure cells outlive a path: remember the old value and restore it when the next path starts
                self.undo_log.append((e.vars, t.id, e.vars[t.id]))
                e.vars[t.id] = v
                return
            env.vars[t.id] = v
        elif isinstance(t, ast.Attribute):
            self.setattr_(self.eval(t.value, env), t.attr, v)
        elif isinstance(t, ast.Subscript):
            self.setitem(self.eval(t.value, env), self.eval_index(t.slice, env), v)
        elif isinstance(t, (ast.Tuple, ast.List)):
            items = self.iterate(v)
            star = [i for i, e in enumerate(t.elts) if isinstance(e, ast.Starred)]
            if star:
                si = star[0]
                after = len(t.elts) - si - 1
                if len(items) < len(t.elts) - 1:
                    self.raise_builtin('ValueError', 'not enough values to unpack')
                for e, x in zip(t.elts[:si], items[:si]):
                    self.assign(e, x, env)
                self.assign(t.elts[si].value, PyList(items[si:len(items) - after]), env)
                for e, x in zip(t.elts[si + 1:], items[len(items) - after:]):
                    self.assign(e, x, env)
            else:
                if len(items) != len(t.elts):
                    self.raise_builtin('ValueError', 'unpack length mismatch')
                for e, x in zip(t.elts, items):
                    self.assign(e, x, env)
        else:
            raise Unsupported('assign target %s' % type(t).__name__)

    def st_Delete(self, st, env):
        for t in st.targets:
            if isinstance(t, ast.Subscript):
                self.delitem(self.eval(t.value, env), self.eval_index(t.slice, env))
            elif isinstance(t, ast.Name):
                env.vars.pop(t.id, None)
            else:
                raise Unsupported('del target')

    def st_Return(self, st, env):
        raise ReturnEx(self.eval(st.value, env) if st.value is not None else None)

    def st_Break(self, st, env):
        raise BreakEx()

    def st_Continue(self, st, env):
        raise ContinueEx()

    def st_If(self, st, env):
        if self.truth(self.eval(st.test, env)):
            self.exec_block(st.body, env)
        else:
            self.exec_block(st.orelse, env)

    def st_Assert(self, st, env):
        if not self.truth(self.eval(st.test, env)):
            self.raise_builtin('AssertionError', 'assert')

    def st_Raise(self, st, env):
        if st.exc is None:
            if getattr(self, '_handling', None):
                raise PyRaise(self._handling[-1])
            self.raise_builtin('RuntimeError', 'no active exception')
        e = self.eval(st.exc, env)
        if isinstance(e, (ClassObj, BuiltinClass)):
            e = self.call(e, [], {})
        raise PyRaise(e)

    def st_Try(self, st, env):
        try:
            try:
                self.exec_block(st.body, env)
            except PyRaise as pr:
                for h in st.handlers:
                    if h.type is None or self.exc_matches(pr.exc, self.eval(h.type, env)):
                        if h.name:
                            env.vars[h.name] = pr.exc
                        self._handling = getattr(self, '_handling', [])
                        self._handling.append(pr.exc)
                        try:
                            self.exec_block(h.body, env)
                        finally:
                            self._handling.pop()
                        break
                else:
                    raise
            else:
                self.exec_block(st.orelse, env)
        finally:
            if st.finalbody:
                # runs on normal exit, return, break, and interpreted exceptions; not on PathEnd/Unsupported
                import sys
                et = sys.exc_info()[0]
                if et is None or not issubclass(et, (PathEnd, Unsupported)):
                    self.exec_block(st.finalbody, env)

    def st_FunctionDef(self, st, env):
        fn = self.make_function(st, env)
        for d in reversed(st.decorator_list):
            dv = self.eval(d, env)
            fn = self.call(dv, [fn], {})
        env.vars[st.name] = fn

    def make_function(self, node, env, qualprefix=None):
        args = node.args
        defaults = [self.eval(d, env) for d in args.defaults]
        kwdefaults = {a.arg: self.eval(d, env) for a, d in zip(args.kwonlyargs, args.kw_defaults)
                      if d is not None}
        mod = self.module_of_env(env)
        if qualprefix is None:
            qualprefix = ''
            if env.func is not None:
                qualprefix = env.func.qualname + '.<locals>.'
            elif self._class_stack:
                qualprefix = '.'.join(c.name for c in self._class_stack) + '.'
        name = getattr(node, 'name', '<lambda>')
        closure = env if env.func is not None else None
        f = FuncObj(node, mod, closure, qualprefix + name, defaults, kwdefaults,
                    cls=self._class_stack[-1] if self._class_stack and env.func is None else None)
        return f

    _class_stack = []

    def module_of_env(self, env):
        if env.func is not None:
            return env.func.module
        return self._mod_stack[-1]

    def st_ClassDef(self, st, env):
        bases = [self.eval(b, env) for b in st.bases]
        cls = ClassObj(st.name, bases, self.module_of_env(env), st)
        self._class_stack = self._class_stack + [cls]
        cenv = Env(cls.attrs, env if env.func is not None else None, env.glob, env.func)
        try:
            if cls.is_enum:
                self._enum_counter = 0
                self._enum_cls = cls
            self.exec_block(st.body, cenv)
            if cls.is_enum:
                for k, v in list(cls.attrs.items()):
                    if isinstance(v, _AutoVal) or (not k.startswith('_') and not isinstance(
                            v, (FuncObj, StaticMethod, PropertyObj))):
                        val = v.n if isinstance(v, _AutoVal) else v
                        mem = EnumMember(cls, k, val)
                        cls.members[k] = mem
                        cls.attrs[k] = mem
        finally:
            self._class_stack = self._class_stack[:-1]
        env.vars[st.name] = cls

    def st_Import(self, st, env):
        for a in st.names:
            mod = self.load_module(a.name)
            if a.asname:
                env.vars[a.asname] = mod
            else:
                top = a.name.split('.')[0]
                env.vars[top] = self.load_package(top)
                # bind submodule chain
                cur = env.vars[top]
                parts = a.name.split('.')
                for i in range(1, len(parts)):
                    sub = self.load_module('.'.join(parts[:i + 1]))
                    cur.ns[parts[i]] = sub
                    cur = sub

    def load_package(self, name):
        try:
            return self.load_module(name)
        except Unsupported:
            m = ModuleObj(name)
            self.modules[name] = m
            return m

    def st_ImportFrom(self, st, env):
        modname = st.module or ''
        if st.level:
            cur = self.module_of_env(env).name.split('.')
            base = cur[:len(cur) - st.level]
            modname = '.'.join(base + ([st.module] if st.module else []))
        for a in st.names:
            bound = a.asname or a.name
            sub = modname + '.' + a.name
            try:
                mod = self.load_module(modname)
            except Unsupported:
                mod = None
            if mod is not None and a.name in mod.ns:
                env.vars[bound] = mod.ns[a.name]
            else:
                if self.find_source(sub) is not None or sub in self.ext_modules:
                    env.vars[bound] = self.load_module(sub)
                else:
                    if mod is None or mod.path is None:
                        # a name of a module this verifier has no model of: importing it is harmless, USING it is outside
                        # the supported subset (reported where it is used, as undecided - never as a fault of the program)
                        def unmodelled(I_, a_, k_, what='%s.%s' % (modname, a.name)):
                            raise Unsupported('%s is not modelled' % what)
                        env.vars[bound] = Builtin('%s.%s (unmodelled)' % (modname, a.name), unmodelled)
                        continue
                    raise Unsupported('cannot import %s from %s' % (a.name, modname))

    MAX_SYMBOLIC_UNROLL = 6

    def st_While(self, st, env):
        spec = self.loopspec_for(st, env)
        if spec is not None:
            return self.loop_cut_while(st, env, spec)
        n = 0
        nsym = 0
        while True:
            d0 = self.dec_idx
            c = self.truth(self.eval(st.test, env))
            if self.dec_idx != d0:
                # the condition depended on symbolic data (it forked): every path is explored completely, which is a
                # complete case analysis as long as all paths leave the loop within a few iterations
                nsym += 1
                if nsym > self.MAX_SYMBOLIC_UNROLL:
                    raise Unsupported('while loop with symbolic condition needs an invariant: %s line %d'
                                      % (self.cur_func_name(), st.lineno))
            if not c:
                break
            n += 1
            if n > self.MAX_CONCRETE_ITERS:
                raise Unsupported('concrete loop too long')
            try:
                self.exec_block(st.body, env)
            except BreakEx:
                return
            except ContinueEx:
                continue
        self.exec_block(st.orelse, env)

    def truth_concrete_or_none(self, v):
        try:
            self.spec_mode += 1
            try:
                t = self.truth_term(v)
            finally:
                self.spec_mode -= 1
        except Unsupported:
            return None
        if isinstance(t, bool):
            return t
        t = z3.simplify(t)
        if z3.is_true(t):
            return True
        if z3.is_false(t):
            return False
        return None

    def st_For(self, st, env):
        spec = self.loopspec_for(st, env)
        it = self.eval(st.iter, env)
        if spec is not None and (isinstance(it, (SymSeq, _SymRange)) or spec.cut_concrete
                                 or (isinstance(it, PyList) and any(isinstance(x, Segment) for x in it.items))):
            return self.loop_cut_for(st, env, spec, it)
        items = self.iterate(it, allow_symbolic=False, where=st)
        for x in items:
            self.assign(st.target, x, env)
            try:
                self.exec_block(st.body, env)
            except BreakEx:
                return
            except ContinueEx:
                continue
        self.exec_block(st.orelse, env)

    def st_Match(self, st, env):
        subj = self.eval(st.subject, env)
        for case in st.cases:
            if self.match_pattern(case.pattern, subj, env):
                if case.guard is not None and not self.truth(self.eval(case.guard, env)):
                    continue
                self.exec_block(case.body, env)
                return

    def match_pattern(self, pat, v, env):
        if isinstance(pat, ast.MatchValue):
            return self.truth(self.compare('Eq', v, self.eval(pat.value, env)))
        if isinstance(pat, ast.MatchSingleton):
            return self.truth(self.compare('Is', v, pat.value))
        if isinstance(pat, ast.MatchAs):
            if pat.pattern is not None and not self.match_pattern(pat.pattern, v, env):
                return False
            if pat.name:
                env.vars[pat.name] = v
            return True
        if isinstance(pat, ast.MatchSequence):
            if not isinstance(v, (tuple, PyList)):
                return False
            items = list(v) if isinstance(v, tuple) else v.items
            if len(items) != len(pat.patterns):
                return False
            return all(self.match_pattern(p, x, env) for p, x in zip(pat.patterns, items))
        if isinstance(pat, ast.MatchOr):
            return any(self.match_pattern(p, v, env) for p in pat.patterns)
        raise Unsupported('match pattern %s' % type(pat).__name__)

    # ------------------------------------------------------------------ loops cut at invariants
    def cur_func_name(self):
        return self.cur_func[-1].qualname if self.cur_func else '<module>'

    def loopspec_for(self, st, env):
        if not self.cur_func or not self.loopspecs:
            return None
        f = self.cur_func[-1]
        key = (self.relpath(f.module), f.qualname)
        specs = self.loopspecs.get(key)
        if not specs:
            return None
        loops = [n for n in ast.walk(f.node) if isinstance(n, (ast.While, ast.For))]
        loops.sort(key=lambda n: (n.lineno, n.col_offset))
        ordinal = loops.index(st)
        return specs.get(ordinal)

    def _assigned_names(self, body):
        names = []
        for n in body:
            for x in ast.walk(n):
                if isinstance(x, ast.Name) and isinstance(x.ctx, ast.Store) and x.id not in names:
                    names.append(x.id)
        return names

    def havoc_value(self, cur, name, spec):
        k = (spec.havoc_kinds or {}).get(name)
        if k is None:
            k = kind_of(cur)
        if k in ('int', 'real', 'bool', 'atom', 'str'):
            return self.fresh(k, name)
        raise Unsupported('cannot havoc %s (%r) in loop of %s; give havoc_kinds' % (name, cur, self.cur_func_name()))

    def loop_havoc(self, st, env, spec, extra_names=()):
        for nm in self._assigned_names(st.body) + list(extra_names):
            if nm in env.vars and nm not in (spec.keep or ()):
                env.vars[nm] = self.havoc_value(env.vars[nm], nm, spec)
        for target in (spec.modifies or ()):
            hw = getattr(spec, 'havoc_with', None) or {}
            if target in hw:
                hw[target](self, env)
            else:
                self.havoc_target(target, env, spec)

    def havoc_target(self, target, env, spec):
        """target: spec expression naming a heap location: 'self.x' (attribute) or a container;
        'ghost:<name>' names a ghost scalar."""
        if target.startswith('ghost:'):
            gname = target[6:]
            cur = self.ghost.get(gname)
            if isinstance(cur, SymSeq):
                cur.arr = z3.Array(self._fname('arr'), z3.IntSort(), cur.arr.sort().range())
                cur.n = self.fresh('int', 'len').t
                self.assume(cur.n >= 0)
                return
            self.ghost[gname] = self.havoc_value(cur, gname, spec)
            return
        node = ast.parse(target, mode='eval').body
        if isinstance(node, ast.Attribute):
            obj = self.eval(node.value, env)
            cur = self.getattr_(obj, node.attr)
            if isinstance(cur, SymSeq):
                cur.arr = z3.Array(self._fname('arr'), z3.IntSort(), cur.arr.sort().range())
                cur.n = self.fresh('int', 'len').t
                self.assume(cur.n >= 0)
            elif isinstance(cur, SymSet):
                cur.m = z3.Array(self._fname('set'), z3.IntSort(), z3.BoolSort())
            elif isinstance(cur, PySet):
                from .models import promote_set
                promote_set(cur)
                cur.m = z3.Array(self._fname('set'), z3.IntSort(), z3.BoolSort())
            elif isinstance(cur, SymMat):
                cur.arr = z3.Array(self._fname('mat'), z3.IntSort(), z3.ArraySort(z3.IntSort(), z3.IntSort()))
            else:
                self.setattr_(obj, node.attr, self.havoc_value(cur, node.attr, spec))
        elif isinstance(node, ast.Name):
            cur = env.lookup(node.id, self)
            if isinstance(cur, SymSeq):
                cur.arr = z3.Array(self._fname('arr'), z3.IntSort(), cur.arr.sort().range())
                cur.n = self.fresh('int', 'len').t
                self.assume(cur.n >= 0)
            elif isinstance(cur, SymSet):
                cur.m = z3.Array(self._fname('set'), z3.IntSort(), z3.BoolSort())
            else:
                env.vars[node.id] = self.havoc_value(cur, node.id, spec)
        else:
            raise Unsupported('loop modifies target %s' % target)

    def _fname(self, base):
        self.fresh_n += 1
        return '%s#%d' % (base, self.fresh_n)

    def check_invariants(self, spec, env, when, extra=None):
        fq = self.cur_func_name()
        for iid, text in spec.invariants:
            t = self.eval_spec(text, env, extra)
            self.oblige('%s::loop%s.inv.%s@%s' % (fq, spec.ordinal, iid, when), t, kind='inv',
                        info={'clause': text})

    def assume_invariants(self, spec, env, extra=None):
        for iid, text in spec.invariants:
            self.assume(self.eval_spec(text, env, extra))

    def entry_snapshot(self, env):
        roots = [v for v in self.ghost.values() if not callable(v)]
        e = env
        while e is not None:
            roots.extend(e.vars.values())
            e = e.parent
        snap = self.snapshot(roots)
        snap['__ghost__'] = dict(self.ghost)
        return snap

    def loop_cut_while(self, st, env, spec):
        self.abstracted = getattr(self, 'abstracted', 0) + 1
        self.loop_entry_stack.append(self.entry_snapshot(env))
        try:
            return self._loop_cut_while(st, env, spec)
        finally:
            self.loop_entry_stack.pop()

    def _loop_cut_while(self, st, env, spec):
        self.check_invariants(spec, env, 'entry')
        self.loop_havoc(st, env, spec)
        self.assume_invariants(spec, env)
        dec0 = self.eval_spec_value(spec.decreases, env) if spec.decreases else None
        prog0 = self.eval_spec_value(spec.progress, env) if getattr(spec, 'progress', None) else None
        if self.truth(self.eval(st.test, env)):
            try:
                self.exec_block(st.body, env)
            except BreakEx:
                return
            except ContinueEx:
                pass
            self.check_invariants(spec, env, 'preserved')
            if prog0 is not None:
                prog1 = self.eval_spec_value(spec.progress, env)
                self.oblige('%s::loop%s.every-pass-makes-progress' % (self.cur_func_name(), spec.ordinal),
                            to_term(prog1, 'int') > to_term(prog0, 'int'), kind='decreases')
            if dec0 is not None:
                dec1 = self.eval_spec_value(spec.decreases, env)
                self.oblige('%s::loop%s.decreases' % (self.cur_func_name(), spec.ordinal),
                            z3.And(to_term(dec1, 'int') < to_term(dec0, 'int'), to_term(dec0, 'int') >= 0),
                            kind='decreases')
            raise PathEnd()
        self.exec_block(st.orelse, env)

    def loop_cut_for(self, st, env, spec, it):
        self.abstracted = getattr(self, 'abstracted', 0) + 1
        self.loop_entry_stack.append(self.entry_snapshot(env))
        try:
            return self._loop_cut_for(st, env, spec, it)
        finally:
            self.loop_entry_stack.pop()

    def _loop_cut_for(self, st, env, spec, it):
        # index-based iteration over a sequence of symbolic or concrete length
        if isinstance(it, SymSeq):
            n = it.n
            getter = lambda i: SymVal(z3.Select(it.arr, i), it.ek)
        elif isinstance(it, _SymRange):
            n = it.count()
            getter = lambda i: mk(it.start_t + i, 'int')
        elif isinstance(it, range) and it.step == 1:
            n = z3.IntVal(max(0, it.stop - it.start))
            getter = lambda i: mk(it.start + i, 'int')
        elif isinstance(it, PyList) and len(it.items) == 1 and isinstance(it.items[0], Segment):
            sg = it.items[0]
            n = sg.n
            getter = lambda i: self.seg_elem(sg, sg.off + i)
        else:
            raise Unsupported('loop invariant on non-symbolic for loop in %s' % self.cur_func_name())
        idx_name = spec.index or '_i'
        env.vars[idx_name] = 0
        self.check_invariants(spec, env, 'entry')
        self.loop_havoc(st, env, spec)
        i = self.fresh('int', idx_name)
        env.vars[idx_name] = i
        self.assume(z3.And(i.t >= 0, i.t <= n))
        self.assume_invariants(spec, env)
        if self.branch(i.t < n):
            self.assign(st.target, getter(i.t), env)
            try:
                self.exec_block(st.body, env)
            except BreakEx:
                env.vars.pop(idx_name, None)
                return
            except ContinueEx:
                pass
            env.vars[idx_name] = mk(i.t + 1, 'int')
            self.check_invariants(spec, env, 'preserved')
            raise PathEnd()
        env.vars.pop(idx_name, None) if not spec.keep_index else None
        self.exec_block(st.orelse, env)

    # ------------------------------------------------------------------ expressions
    def eval(self, node, env):
        m = getattr(self, 'ex_' + type(node).__name__, None)
        if m is None:
            raise Unsupported('expression %s' % type(node).__name__)
        return m(node, env)

    def ex_Constant(self, node, env):
        return node.value

    def ex_Name(self, node, env):
        return env.lookup(node.id, self)

    def ex_Attribute(self, node, env):
        return self.getattr_(self.eval(node.value, env), node.attr)

    def ex_Subscript(self, node, env):
        return self.getitem(self.eval(node.value, env), self.eval_index(node.slice, env))

    def eval_index(self, sl, env):
        if isinstance(sl, ast.Slice):
            return slice(self.eval(sl.lower, env) if sl.lower else None,
                         self.eval(sl.upper, env) if sl.upper else None,
                         self.eval(sl.step, env) if sl.step else None)
        return self.eval(sl, env)

    def ex_Tuple(self, node, env):
        return tuple(self.eval_elts(node.elts, env))

    def ex_List(self, node, env):
        return PyList(self.eval_elts(node.elts, env))

    def ex_Set(self, node, env):
        return PySet(self.eval_elts(node.elts, env))

    def eval_elts(self, elts, env):
        out = []
        for e in elts:
            if isinstance(e, ast.Starred):
                out.extend(self.iterate(self.eval(e.value, env)))
            else:
                out.append(self.eval(e, env))
        return out

    def ex_Dict(self, node, env):
        d = PyDict()
        for k, v in zip(node.keys, node.values):
            if k is None:
                src = self.eval(v, env)
                for kk in list(src.d):
                    d.d[kk] = src.d[kk]
            else:
                kk = self.eval(k, env)
                self.dict_set(d, kk, self.eval(v, env))
        return d

    def ex_Lambda(self, node, env):
        return self.make_function(node, env)

    def ex_IfExp(self, node, env):
        c = self.eval(node.test, env)
        if self.spec_mode:
            ct = self.truth_term(c)
            if isinstance(ct, bool):
                return self.eval(node.body if ct else node.orelse, env)
            a = self.eval(node.body, env)
            b = self.eval(node.orelse, env)
            return self.ite(ct, a, b)
        if self.truth(c):
            return self.eval(node.body, env)
        return self.eval(node.orelse, env)

    def ite(self, ct, a, b):
        if a is None and b is None:
            return None
        k = ops.num_kind(a, b) if is_num(a) and is_num(b) else kind_of(a)
        if kind_of(a) == 'bool' and kind_of(b) == 'bool':
            k = 'bool'
        return mk(z3.If(ct, to_term(a, k), to_term(b, k)), k)

    def ex_BoolOp(self, node, env):
        is_and = isinstance(node.op, ast.And)
        if self.spec_mode:
            terms = []
            for v in node.values:
                x = self.eval(v, env)
                t = self.truth_term(x)
                if isinstance(t, bool):
                    if is_and and not t:
                        return False
                    if not is_and and t:
                        return True
                    continue
                terms.append(t)
            if not terms:
                return is_and
            return mk(z3.And(*terms) if is_and else z3.Or(*terms), 'bool')
        val = None
        for i, v in enumerate(node.values):
            val = self.eval(v, env)
            if i == len(node.values) - 1:
                return val
            t = self.truth(val)
            if is_and and not t:
                return val
            if not is_and and t:
                return val
        return val

    def ex_UnaryOp(self, node, env):
        v = self.eval(node.operand, env)
        if isinstance(node.op, ast.Not):
            if self.spec_mode:
                t = self.truth_term(v)
                return (not t) if isinstance(t, bool) else mk(z3.Not(t), 'bool')
            return not self.truth(v)
        if isinstance(node.op, ast.USub):
            if isinstance(v, SymVal):
                if v.k == 'bool':
                    return mk(-to_term(v, 'int'), 'int')
                if v.k in ('int', 'real'):
                    return mk(-v.t, v.k)
                raise Unsupported('negation of %r' % (v,))
            if isinstance(v, (int, float)):
                return -v
            self.raise_builtin('TypeError', 'bad operand type for unary -')
        if isinstance(node.op, ast.UAdd):
            return v
        raise Unsupported('unary op')

    def ex_BinOp(self, node, env):
        return self.binop(type(node.op).__name__, self.eval(node.left, env), self.eval(node.right, env))

    _OPS = {'Add': '+', 'Sub': '-', 'Mult': '*', 'Div': '/', 'FloorDiv': '//', 'Mod': '%', 'Pow': '**'}

    def binop(self, opname, a, b):
        if opname in ('BitOr', 'BitAnd', 'Sub') and isinstance(a, (PySet, SymSet)) and isinstance(b, (PySet, SymSet)):
            return self.set_op(opname, a, b)
        op = self._OPS.get(opname)
        if op is None:
            raise Unsupported('binary operator %s' % opname)
        na = isinstance(a, (int, float, str, tuple, bool))
        nb = isinstance(b, (int, float, str, tuple, bool))
        if na and nb:
            try:
                if op == '+':
                    return a + b
                if op == '-':
                    return a - b
                if op == '*':
                    return a * b
                if op == '/':
                    return a / b
                if op == '//':
                    return a // b
                if op == '%':
                    return a % b
                if op == '**':
                    return a ** b
            except ZeroDivisionError as e:
                self.raise_builtin('ZeroDivisionError', str(e))
            except TypeError as e:
                self.raise_builtin('TypeError', str(e))
            except OverflowError as e:
                self.raise_builtin('OverflowError', str(e))
        if is_num(a) and is_num(b):
            return ops.arith(self, op, a, b)
        if op == '+' and isinstance(a, PyList) and isinstance(b, PyList):
            return PyList(a.items + b.items)
        if op == '*' and isinstance(a, PyList) and isinstance(b, int):
            return PyList(a.items * b)
        if op == '*' and isinstance(a, int) and isinstance(b, PyList):
            return PyList(b.items * a)
        if op == '%' and isinstance(a, str):
            return self.opaque_str('fmt')
        if op == '+' and (isinstance(a, Struct) or isinstance(b, Struct)) and \
                all(isinstance(x, (str, Struct)) or kind_of(x) == 'str' for x in (a, b)):
            # concatenation is associative: keep a flat, normalised list of pieces
            pieces = []
            for x in (a, b):
                for y in (x.fields if isinstance(x, Struct) and x.tag == 'str.concat' else (x,)):
                    if isinstance(y, str) and y == '':
                        continue
                    if pieces and isinstance(y, str) and isinstance(pieces[-1], str):
                        pieces[-1] = pieces[-1] + y
                    else:
                        pieces.append(y)
            return Struct('str.concat', tuple(pieces))
        if op == '+' and (kind_of(a) == 'str' and kind_of(b) == 'str'):
            return mk(z3.Concat(to_term(a), to_term(b)), 'str')
        if a is None or b is None or isinstance(a, (PyObj, EnumMember)) or isinstance(b, (PyObj, EnumMember)):
            self.raise_builtin('TypeError', 'unsupported operand type(s) for %s' % op)
        if op == '*' and ((kind_of(a) == 'str' and kind_of(b) in ('int', 'bool')) or (kind_of(b) == 'str' and kind_of(a) in ('int', 'bool'))):
            return self.opaque_str('repeated')
        if (is_num(a) and kind_of(b) == 'str') or (is_num(b) and kind_of(a) == 'str'):
            self.raise_builtin('TypeError', 'unsupported operand type(s) for %s' % op)
        raise Unsupported('binop %s on %r, %r' % (op, a, b))

    def opaque_str(self, name='s'):
        return self.fresh('str', name)

    def ex_Compare(self, node, env):
        left = self.eval(node.left, env)
        result = None
        terms = []
        for op, rn in zip(node.ops, node.comparators):
            right = self.eval(rn, env)
            r = self.compare(type(op).__name__, left, right)
            if self.spec_mode:
                terms.append(r)
            else:
                if len(node.ops) == 1:
                    return r
                if not self.truth(r):
                    return False
                result = True
            left = right
        if self.spec_mode:
            if len(terms) == 1:
                return terms[0]
            ts = [self.truth_term(t) for t in terms]
            if any(t is False for t in ts):
                return False
            ts = [t for t in ts if t is not True]
            return mk(z3.And(*ts), 'bool') if ts else True
        return result

    def compare(self, op, a, b):
        if op == 'Is':
            return self.identical(a, b)
        if op == 'IsNot':
            return self.negate(self.identical(a, b))
        if op == 'In':
            return self.contains(b, a)
        if op == 'NotIn':
            return self.negate(self.contains(b, a))
        if op == 'Eq':
            return self.equals(a, b)
        if op == 'NotEq':
            return self.negate(self.equals(a, b))
        sym = {'Lt': '<', 'LtE': '<=', 'Gt': '>', 'GtE': '>='}[op]
        if isinstance(a, (PySet, SymSet)) and isinstance(b, (PySet, SymSet)):
            # subset / superset tests between sets of integers
            if isinstance(a, PySet) and isinstance(b, PySet):
                return {'<': a.s < b.s, '<=': a.s <= b.s, '>': a.s > b.s, '>=': a.s >= b.s}[sym]
            from .models import to_symset
            ma, mb = to_symset(a), to_symset(b)
            if sym in ('>', '>='):
                ma, mb = mb, ma
            self.fresh_n += 1
            q = z3.Int('q!sub%d' % self.fresh_n)
            sub = z3.ForAll([q], z3.Implies(z3.Select(ma, q), z3.Select(mb, q)))
            if sym in ('<=', '>='):
                return mk(sub, 'bool')
            q2 = z3.Int('q!ne%d' % self.fresh_n)
            return mk(z3.And(sub, z3.Exists([q2], z3.And(z3.Select(mb, q2), z3.Not(z3.Select(ma, q2))))), 'bool')
        if isinstance(a, (int, float, str, tuple)) and isinstance(b, type(a)) or \
                (isinstance(a, (int, float)) and isinstance(b, (int, float))):
            return {'<': a < b, '<=': a <= b, '>': a > b, '>=': a >= b}[sym]
        if is_num(a) and is_num(b):
            return ops.compare_num(sym, a, b)
        if kind_of(a) == 'atom' and kind_of(b) == 'atom':
            return ops.compare_num(sym, SymVal(a.t, 'int'), SymVal(b.t, 'int'))
        if a is None or b is None or (is_num(a) != is_num(b) and not isinstance(a, PyObj)
                                      and not isinstance(b, PyObj)):
            self.raise_builtin('TypeError', "'%s' not supported between %s and %s" % (sym, self.typename(a), self.typename(b)))
        raise Unsupported('compare %s on %r, %r' % (op, a, b))

    def typename(self, v):
        if isinstance(v, SymVal):
            return {'real': 'float', 'atom': 'str'}.get(v.k, v.k)
        if isinstance(v, PyObj):
            return v.cls.name
        return type(v).__name__

    def negate(self, v):
        if isinstance(v, bool):
            return not v
        return mk(z3.Not(v.t), 'bool')

    def identical(self, a, b):
        a = getattr(a, 'orig', None) or a
        b = getattr(b, 'orig', None) or b
        if isinstance(a, SymEnumVal) or isinstance(b, SymEnumVal):
            return self.enum_eq(a, b)
        if isinstance(a, SymVal) and isinstance(b, SymVal):
            if a.k != b.k:
                return False
            if a.k in ('atom', 'str'):      # identity of equal strings is unspecified; treat as equality
                return mk(a.t == b.t, 'bool')
            if a.t.eq(b.t):
                return True
            raise Unsupported('`is` between symbolic scalars')
        if isinstance(a, SymVal) or isinstance(b, SymVal):
            s, o = (a, b) if isinstance(a, SymVal) else (b, a)
            if o is None or isinstance(o, (EnumMember, PyObj, ClassObj, PyList, PyDict, Opaque)):
                return False
            if isinstance(o, bool) and s.k == 'bool':
                return mk(s.t == o, 'bool')
            if isinstance(o, bool) or s.k == 'bool':
                return False
            if s.k == 'str' and isinstance(o, str):     # identity of equal strings is unspecified: equality
                return mk(s.t == z3.StringVal(o), 'bool')
            raise Unsupported('`is` between symbolic scalar and %r' % (o,))
        return a is b

    def enum_eq(self, a, b):
        if isinstance(a, SymEnumVal) and isinstance(b, SymEnumVal):
            return mk(a.t == b.t, 'bool') if a.cls is b.cls else False
        s_, o = (a, b) if isinstance(a, SymEnumVal) else (b, a)
        if isinstance(o, EnumMember) and o.cls is s_.cls:
            return mk(s_.t == enum_index(o), 'bool')
        return False

    def enum_members_feasible(self, v):
        """fork over the members a symbolic enum value can still be; returns the concrete member"""
        ms = list(v.cls.members.values())
        for i, m in enumerate(ms):
            if self.branch(v.t == i, 'enum-member'):
                return m
        raise PathEnd()

    def equals(self, a, b):
        if isinstance(a, SymEnumVal) or isinstance(b, SymEnumVal):
            return self.enum_eq(a, b)
        if isinstance(a, SymVal) or isinstance(b, SymVal):
            ka, kb = kind_of(a), kind_of(b)
            if ka in ops.NUMK and kb in ops.NUMK:
                if ka == 'bool' and kb == 'bool':
                    return mk(to_term(a) == to_term(b), 'bool')
                return ops.compare_num('==', a, b)
            if ka == kb and ka in ('atom', 'str'):
                return mk(to_term(a) == to_term(b), 'bool')
            if ka == 'str' and isinstance(b, CharStr) or kb == 'str' and isinstance(a, CharStr):
                raise Unsupported('abstract string vs char string')
            if ka == 'atom' or kb == 'atom':
                o = b if ka == 'atom' else a
                if isinstance(o, str):
                    raise Unsupported('atom compared with literal string')
                return False
            return False
        if isinstance(a, Struct) or isinstance(b, Struct):
            if not (isinstance(a, Struct) and isinstance(b, Struct)) or a.tag != b.tag or len(a.fields) != len(b.fields):
                # differently BUILT strings: unequal as terms, which does not show their values differ
                if not self.spec_mode and (isinstance(a, (str, Struct)) and isinstance(b, (str, Struct))):
                    raise Unsupported('comparison of differently built strings')
                self.struct_mismatch = True
                return False
            return self.seq_eq(a.fields, b.fields)
        if isinstance(a, CharStr) or isinstance(b, CharStr):
            return self.charstr_eq(a, b)
        if isinstance(a, PyList) and isinstance(b, PyList):
            return self.seq_eq(a.items, b.items)
        if isinstance(a, tuple) and isinstance(b, tuple):
            return self.seq_eq(a, b)
        if isinstance(a, PyObj):
            eq = a.cls.lookup('__eq__')
            if eq is not _MISSING:
                return self.call(eq, [a, b], {})
            return a is b
        if isinstance(b, PyObj):
            eq = b.cls.lookup('__eq__')
            if eq is not _MISSING:
                return self.call(eq, [b, a], {})
            return a is b
        if isinstance(a, (PyList, PyDict, PySet, EnumMember, ClassObj, FuncObj, Opaque)) or \
                isinstance(b, (PyList, PyDict, PySet, EnumMember, ClassObj, FuncObj, Opaque)):
            if isinstance(a, PySet) and isinstance(b, PySet):
                return a.s == b.s
            if isinstance(a, PyDict) and isinstance(b, PyDict):
                if set(a.d) != set(b.d):
                    return False
                return self.seq_eq([a.d[k] for k in a.d], [b.d[k] for k in a.d])
            return a is b
        try:
            return a == b
        except TypeError:
            return False

    def seq_eq(self, xs, ys):
        xs, ys = list(xs), list(ys)
        if any(isinstance(x, Segment) for x in xs + ys):
            return self.seg_seq_eq(xs, ys)
        if len(xs) != len(ys):
            return False
        terms = []
        for x, y in zip(xs, ys):
            r = self.equals(x, y)
            if isinstance(r, bool):
                if not r:
                    return False
            else:
                terms.append(r.t)
        if not terms:
            return True
        return mk(z3.And(*terms), 'bool')

    def seg_seq_eq(self, xs, ys):
        """sequences with segments: equal when they are the same after dropping empty segments, item by item,
        segment by segment (same base, offset and length).  Sufficient condition only (sound for proving ==)."""
        def norm(zs):
            out = []
            for z_ in zs:
                if isinstance(z_, Segment):
                    if not self.feasible(z_.n > 0):
                        continue
                    if out and isinstance(out[-1], Segment) and out[-1].base == z_.base and \
                            z3.is_true(z3.simplify(out[-1].off + out[-1].n == z_.off)):
                        p_ = out.pop()
                        z_ = Segment(p_.base, p_.off, z3.simplify(p_.n + z_.n), p_.elem, p_.tag)
                out.append(z_)
            return out
        xs, ys = norm(xs), norm(ys)
        # a concrete element next to a segment of the same base may be that segment's neighbour: compare lengths first
        if len(xs) != len(ys):
            xs, ys = self.seg_align(xs, ys)
            if xs is None:
                return False
        terms = []
        for x, y in zip(xs, ys):
            if isinstance(x, Segment) or isinstance(y, Segment):
                if not (isinstance(x, Segment) and isinstance(y, Segment)) or x.base != y.base:
                    return False
                terms.append(z3.And(x.off == y.off, x.n == y.n))
            else:
                r = self.identical_or_equal(x, y)
                if isinstance(r, bool):
                    if not r:
                        return False
                else:
                    terms.append(r.t)
        if not terms:
            return True
        return mk(z3.And(*terms), 'bool')

    def seg_align(self, xs, ys):
        """expand the first element of segments known to be non-empty so that both lists have the same shape"""
        def expand(zs, other):
            out = []
            for i, z_ in enumerate(zs):
                if isinstance(z_, Segment) and i < len(other) and not isinstance(other[i], Segment) and z_.elem is not None \
                        and not self.feasible(z3.Not(z_.n > 0)):
                    out.append(self.seg_elem(z_, z_.off))
                    rest = Segment(z_.base, z3.simplify(z_.off + 1), z3.simplify(z_.n - 1), z_.elem, z_.tag)
                    if self.feasible(rest.n > 0):
                        out.append(rest)
                else:
                    out.append(z_)
            return out
        for _ in range(4):
            if len(xs) == len(ys):
                return xs, ys
            xs2, ys2 = expand(xs, ys), expand(ys, xs)
            if len(xs2) == len(xs) and len(ys2) == len(ys):
                break
            xs, ys = xs2, ys2
        return (xs, ys) if len(xs) == len(ys) else (None, None)

    def charstr_eq(self, a, b):
        ca = a.chars if isinstance(a, CharStr) else ([ord(c) for c in a] if isinstance(a, str) else None)
        cb = b.chars if isinstance(b, CharStr) else ([ord(c) for c in b] if isinstance(b, str) else None)
        if ca is None or cb is None or len(ca) != len(cb):
            return False
        ts = []
        for x, y in zip(ca, cb):
            if isinstance(x, int) and isinstance(y, int):
                if x != y:
                    return False
            else:
                ts.append(to_term(x, 'int') == to_term(y, 'int') if not z3.is_expr(x) and not z3.is_expr(y)
                          else (x if z3.is_expr(x) else z3.IntVal(x)) == (y if z3.is_expr(y) else z3.IntVal(y)))
        return mk(z3.And(*ts), 'bool') if ts else True

    def contains(self, container, x):
        if isinstance(container, (tuple, PyList)):
            items = container if isinstance(container, tuple) else container.items
            return self.any_eq(items, x)
        if isinstance(container, PyDict):
            keys = list(self.read_dict(container).keys())
            if not self.is_symkey(x):
                try:
                    if x in self.read_dict(container):
                        return True
                except TypeError:
                    self.raise_builtin('TypeError', 'unhashable')
                keys = [k for k in keys if self.is_symkey(k)]      # only a symbolic key can still equal it
            keys = [k for k in keys if isinstance(k, tuple) == isinstance(x, tuple)]
            return self.any_eq(keys, x)
        if isinstance(container, PySet):
            if not isinstance(x, SymVal):
                return x in container.s
            return self.any_eq(sorted(container.s, key=repr), x)
        if isinstance(container, SymSet):
            return mk(z3.Select(container.m, to_term(x, 'int')), 'bool')
        if isinstance(container, SymMap):
            return mk(z3.Select(container.dom, to_term(x)), 'bool')
        if isinstance(container, str):
            if isinstance(x, str):
                return x in container
            if isinstance(x, CharStr):
                if len(x.chars) == 0:
                    return True
                if len(x.chars) == 1:
                    c = x.chars[0]
                    if isinstance(c, int):
                        return chr(c) in container
                    return mk(z3.Or(*[c == ord(ch) for ch in container]) if container else z3.BoolVal(False), 'bool')
                raise Unsupported('multi-char symbolic substring test')
            if isinstance(x, SymVal) and x.k == 'str':
                return mk(z3.Contains(z3.StringVal(container), x.t), 'bool')
            self.raise_builtin('TypeError', "'in <string>' requires string as left operand")
        if isinstance(container, SymSeq):
            k = z3.Int(self._fname('k'))
            return mk(z3.Exists([k], z3.And(k >= 0, k < container.n,
                                            z3.Select(container.arr, k) == to_term(x))), 'bool')
        if isinstance(container, PyObj):
            c = container.cls.lookup('__contains__')
            if c is not _MISSING:
                return self.call(c, [container, x], {})
        if isinstance(container, _DictView):
            if container.kind == 'values':
                return self.any_eq(list(container.d.d.values()), x)
            return self.contains(container.d, x)
        if container is None:
            self.raise_builtin('TypeError', "argument of type 'NoneType' is not iterable")
        raise Unsupported('in on %r' % (container,))

    def any_eq(self, items, x):
        terms = []
        for it in items:
            r = self.identical_or_equal(it, x)
            if isinstance(r, bool):
                if r:
                    return True
            else:
                terms.append(r.t)
        if not terms:
            return False
        return mk(z3.Or(*terms), 'bool')

    def identical_or_equal(self, a, b):
        if a is b:
            return True
        return self.equals(a, b)

    # truthiness ---------------------------------------------------------
    def truth_term(self, v):
        """bool or z3 Bool term for the truth value of v (no branching)."""
        if isinstance(v, bool):
            return v
        if isinstance(v, SymVal):
            if v.k == 'bool':
                return v.t
            if v.k == 'int':
                return v.t != 0
            if v.k == 'real':
                return v.t != 0
            if v.k == 'str':
                return z3.Length(v.t) > 0
            if v.k == 'atom':       # an atom stands for a string: falsy iff it is the empty one
                return ATOM_NONEMPTY(v.t)
        if v is None:
            return False
        if isinstance(v, (int, float, str, tuple, frozenset)):
            return bool(v)
        if isinstance(v, PyList):
            items = self.read_items(v)
            if any(isinstance(x, Segment) for x in items):
                if any(not isinstance(x, Segment) for x in items):
                    return True
                return z3.simplify(z3.Sum([x.n for x in items]) > 0)
            return len(items) > 0
        if isinstance(v, PyDict):
            return len(v.d) > 0
        if isinstance(v, PySet):
            return len(v.s) > 0
        if isinstance(v, CharStr):
            return len(v.chars) > 0
        if isinstance(v, SymSeq):
            return v.n > 0
        if isinstance(v, PyObj):
            for nm in ('__bool__', '__len__'):
                f = v.cls.lookup(nm)
                if f is not _MISSING:
                    r = self.call(f, [v], {})
                    return self.truth_term(r)
            return True
        if isinstance(v, _DictView):
            return len(v.d.d) > 0
        return True

    def truth(self, v):
        t = self.truth_term(v)
        if isinstance(t, bool):
            return t
        return self.branch(t)

    # attribute access -----------------------------------------------------
    def constructor_default(self, obj, name):
        """A pre-state object laid out field by field by a contract lacks attribute `name`, but the class's real
        __init__ (current source) assigns self.<name>: the constructor's value is used when it does not depend on the
        constructor's arguments (a fresh cache, counter, flag...), so that state ADDED to a class starts the way the
        real constructor starts it.  Depends on arguments -> the contract's builder has to be told: Unsupported."""
        init = obj.cls.lookup('__init__')
        if not isinstance(init, FuncObj) or isinstance(init.node, ast.Lambda) or not init.node.args.args:
            return _MISSING
        selfname = init.node.args.args[0].arg
        found = None
        for n in ast.walk(init.node):
            tgts = n.targets if isinstance(n, ast.Assign) else [n.target] if isinstance(n, ast.AnnAssign) and n.value is not None else []
            for t in tgts:
                if isinstance(t, ast.Attribute) and t.attr == name and isinstance(t.value, ast.Name) and t.value.id == selfname:
                    found = n.value
        if found is None:
            return _MISSING
        local = {a.arg for a in init.node.args.args + init.node.args.kwonlyargs}
        for n in ast.walk(init.node):
            if isinstance(n, ast.Name) and isinstance(n.ctx, ast.Store):
                local.add(n.id)
        if any(isinstance(n, ast.Name) and n.id in local for n in ast.walk(found)):
            raise Unsupported("the contract's pre-state of %s lacks attribute %r, which the constructor sets from its arguments" % (obj.cls.name, name))
        saved = self.spec_mode, self.old_mode
        self.spec_mode, self.old_mode = 0, False
        try:
            v = self.eval(found, Env({}, None, init.module.ns, init))
        finally:
            self.spec_mode, self.old_mode = saved
        obj.attrs[name] = v
        return v

    def getattr_(self, obj, name):
        r = self.getattr_or_missing(obj, name)
        if r is _MISSING and isinstance(obj, PyObj) and not name.startswith('__'):
            r = self.constructor_default(obj, name)
        if r is _MISSING:
            self.raise_builtin('AttributeError', "'%s' object has no attribute '%s'" % (self.typename(obj), name))
        return r

    def read_attrs(self, obj):
        if self.old_mode and self.old_snapshot is not None:
            snap = self.old_snapshot.get(id(obj))
            if snap is not None:
                return snap
        return obj.attrs

    def getattr_or_missing(self, obj, name):
        if isinstance(obj, PyObj):
            attrs = self.read_attrs(obj)
            if self.volatile and not self.spec_mode and (id(obj), name) in self.volatile:
                return self.volatile[(id(obj), name)](self, obj, name)
            if name in attrs:
                v = attrs[name]
                if isinstance(v, Computed):         # lazily materialised field (abstract pre-states)
                    v = v.fn(self, obj)
                    obj.attrs[name] = v
                return v
            if name == '__class__':
                return obj.cls
            v = obj.cls.lookup(name)
            if v is _MISSING:
                if obj.cls.builtin_base and name == 'args':
                    return tuple(obj.attrs.get('__args__', ()))
                ga = obj.cls.lookup('__getattr__')
                if ga is not _MISSING:
                    return self.call(ga, [obj, name], {})
                return _MISSING
            return self.bind(v, obj)
        if isinstance(obj, ModuleObj):
            if name in obj.ns:
                return obj.ns[name]
            sub = obj.name + '.' + name
            if self.find_source(sub) is not None or sub in self.ext_modules:
                return self.load_module(sub)
            if obj.path is None and not name.startswith('__'):
                # a member of a MODELLED (external / standard-library) module that the model does not cover: the real module
                # may well have it - that is a limit of this verifier, never an AttributeError of the program
                raise Unsupported('%s.%s is not modelled' % (obj.name, name))
            return _MISSING
        if isinstance(obj, ClassObj):
            if name == '__members__' and obj.is_enum:
                return PyDict(obj.members)
            if name == '__name__':
                return obj.name
            v = obj.lookup(name)
            if v is _MISSING:
                return _MISSING
            if isinstance(v, StaticMethod):
                return v.func
            if isinstance(v, PropertyObj):
                return v
            return v
        if isinstance(obj, SymEnumVal):
            if name == 'name':
                fnm = z3.Function('enum_name_' + obj.cls.name, z3.IntSort(), z3.StringSort())
                return SymNameOf(fnm(obj.t), obj)
            if name == 'value':
                return mk(obj.t + 1, 'int')
            v = obj.cls.lookup(name)
            if v is _MISSING:
                return _MISSING
            return self.bind(v, obj)
        if isinstance(obj, EnumMember):
            if name == 'name':
                return obj.name
            if name == 'value':
                return obj.value
            v = obj.cls.lookup(name)
            if v is _MISSING:
                return _MISSING
            return self.bind(v, obj)
        if isinstance(obj, SuperObj):
            mro = obj.obj.cls.mro() if isinstance(obj.obj, (PyObj, PyList)) and obj.obj.cls else []
            if obj.cls in mro:
                for c in mro[mro.index(obj.cls) + 1:]:
                    if name in c.attrs:
                        return self.bind(c.attrs[name], obj.obj)
            # fall to builtin base
            if name == '__init__':
                return Builtin('object.__init__', lambda it, a, k: self._builtin_base_init(obj.obj, a, k))
            return _MISSING
        if isinstance(obj, FuncObj):
            if name in obj.attrs:
                return obj.attrs[name]
            if name == '__name__':
                return obj.name
            if name == '__dict__':
                return PyDict(obj.attrs)
            return _MISSING
        if isinstance(obj, BoundMethod):
            if name == '__self__':
                return obj.self
            if name == '__func__':
                return obj.func
            return self.getattr_or_missing(obj.func, name)
        if isinstance(obj, Opaque):
            if name in obj.attrs:
                v = obj.attrs[name]
                if isinstance(v, Computed):
                    return v.fn(self, obj)
                return v
            if name in obj.methods:
                m = obj.methods[name]
                return Builtin('%s.%s' % (obj.name, name), lambda it, a, k, m=m: m(it, obj, a, k))
            return _MISSING
        if isinstance(obj, ExcObj):
            if name == 'args':
                return tuple(obj.args)
            return _MISSING
        if isinstance(obj, PropertyObj):
            if name == 'setter':
                return Builtin('property.setter', lambda I_, a, k: PropertyObj(obj.fget, a[0]))
            return _MISSING
        from . import models
        return models.builtin_attr(self, obj, name)

    def _builtin_base_init(self, obj, a, k):
        if isinstance(obj, PyObj) and obj.cls.builtin_base:
            obj.attrs['__args__'] = tuple(a)
        return None

    def bind(self, v, obj):
        if isinstance(v, FuncObj):
            return BoundMethod(obj, v)
        if isinstance(v, StaticMethod):
            return v.func
        if isinstance(v, PropertyObj):
            return self.call(v.fget, [obj], {})
        if isinstance(v, Builtin) and getattr(v, 'is_method', False):
            return BoundMethod(obj, v)
        return v

    def setattr_(self, obj, name, value):
        if isinstance(obj, PyObj):
            v = obj.cls.lookup(name)
            if isinstance(v, PropertyObj):
                if v.fset is None:
                    self.raise_builtin('AttributeError', "can't set attribute '%s'" % name)
                self.call(v.fset, [obj, value], {})
                return
            wh = getattr(self, 'write_hooks', None)
            if wh and not self.spec_mode and (id(obj), name) in wh:
                wh[(id(obj), name)](self, obj, name, value)
            obj.attrs[name] = value
        elif isinstance(obj, FuncObj):
            obj.attrs[name] = value
        elif isinstance(obj, ClassObj):
            obj.attrs[name] = value
        elif isinstance(obj, ModuleObj):
            obj.ns[name] = value
        elif isinstance(obj, Opaque):
            obj.attrs[name] = value
        elif isinstance(obj, PyList) and obj.cls is not None:
            raise Unsupported('attribute on list subclass instance')
        else:
            self.raise_builtin('AttributeError', "'%s' object has no attribute '%s'" % (self.typename(obj), name))

    def hasattr_(self, obj, name):
        if isinstance(obj, ModuleObj) and obj.path is None and name not in obj.ns:
            # a standard-library / external module known to this verifier only through a partial model: ask the real one
            try:
                import importlib as _il
                return hasattr(_il.import_module(obj.name), name)
            except Exception:
                raise Unsupported('hasattr(%s, %r): module not available to the verifier' % (obj.name, name))
        try:
            return self.getattr_or_missing(obj, name) is not _MISSING
        except PyRaise:
            return False

    # subscripts -------------------------------------------------------------
    def read_items(self, lst):
        if self.old_mode and self.old_snapshot is not None:
            snap = self.old_snapshot.get(id(lst))
            if snap is not None:
                return snap
        return lst.items

    def norm_index(self, i, n):
        """concrete or symbolic index into a sequence of concrete length n -> list of candidate ints."""
        if isinstance(i, bool):
            i = int(i)
        if isinstance(i, int):
            j = i + n if i < 0 else i
            if not 0 <= j < n:
                self.raise_builtin('IndexError', 'index out of range')
            return j
        if isinstance(i, SymVal) and i.k in ('int', 'bool'):
            t = to_term(i, 'int')
            for j in range(-n, n):
                if self.branch(t == j, 'index'):
                    return j + n if j < 0 else j
            self.raise_builtin('IndexError', 'index out of range')
        self.raise_builtin('TypeError', 'indices must be integers')

    def getitem(self, obj, idx):
        if isinstance(obj, PyList):
            items = self.read_items(obj)
            if any(isinstance(x, Segment) for x in items):
                return self.seg_getitem(obj, items, idx)
            if isinstance(idx, slice):
                return PyList(items[self.concrete_slice(idx)])
            return items[self.norm_index(idx, len(items))]
        if isinstance(obj, tuple):
            if isinstance(idx, slice):
                return obj[self.concrete_slice(idx)]
            return obj[self.norm_index(idx, len(obj))]
        if isinstance(obj, PyDict):
            if self.spec_mode and isinstance(idx, (SymVal, CharStr)):
                # specification-level lookup with a symbolic key: if-then-else chain over the entries
                res = None
                for k_, v_ in reversed(list(self.read_dict(obj).items())):
                    c_ = self.truth_term(self.equals(k_, idx))
                    if c_ is True:
                        res = v_
                    elif c_ is False:
                        continue
                    else:
                        res = v_ if res is None else self.ite(c_, v_, res)
                if res is None and not self.read_dict(obj):
                    self.raise_builtin('KeyError', 'key')
                return res
            return self.dict_get(obj, idx, raise_missing=True)
        if isinstance(obj, str):
            if isinstance(idx, slice):
                return obj[self.concrete_slice(idx)]
            if isinstance(idx, int):
                try:
                    return obj[idx]
                except IndexError:
                    self.raise_builtin('IndexError', 'string index out of range')
            j = self.norm_index(idx, len(obj))
            return obj[j]
        if isinstance(obj, SymVal) and obj.k == 'str':
            n = z3.Length(obj.t)
            def pos(x, default):
                if x is None:
                    return default
                t_ = to_term(x, 'int')
                return z3.If(t_ < 0, z3.If(n + t_ < 0, z3.IntVal(0), n + t_), z3.If(t_ > n, n, t_))
            if isinstance(idx, slice):
                if idx.step is not None:
                    raise Unsupported('stepped slice of a symbolic string')
                lo, hi = pos(idx.start, z3.IntVal(0)), pos(idx.stop, n)
                return mk(z3.SubString(obj.t, lo, z3.If(hi > lo, hi - lo, z3.IntVal(0))), 'str')
            raise Unsupported('index into a symbolic string')
        if isinstance(obj, CharStr):
            if isinstance(idx, slice):
                return CharStr(obj.chars[self.concrete_slice(idx)])
            j = self.norm_index(idx, len(obj.chars))
            return CharStr([obj.chars[j]])
        if isinstance(obj, SymSeq):
            arr, n = self.read_seq(obj)
            if isinstance(idx, slice):
                raise Unsupported('slice of symbolic sequence')
            t = to_term(idx, 'int')
            if isinstance(idx, int) and idx < 0:
                t = n + idx
            elif isinstance(idx, SymVal):
                if self.branch(t < 0, 'negindex'):
                    t = n + t
            if not self.branch(z3.And(t >= 0, t < n), 'index'):
                self.raise_builtin('IndexError', 'list index out of range')
            return mk_elem(z3.Select(arr, t), obj.ek)
        if isinstance(obj, SymMap):
            kt = to_term(idx)
            if not self.branch(z3.Select(obj.dom, kt), 'key'):
                self.raise_builtin('KeyError', 'key')
            return mk_elem(z3.Select(obj.val, kt), obj.vk)
        if isinstance(obj, SymMat):
            t = to_term(idx, 'int')
            if not self.spec_mode and not self.branch(z3.And(t >= 0, t < obj.h), 'row-index'):
                self.raise_builtin('IndexError', 'list index out of range')
            return SymRowRef(obj, t)
        if isinstance(obj, SymRowRef):
            t = to_term(idx, 'int')
            if not self.spec_mode and not self.branch(z3.And(t >= 0, t < obj.mat.w), 'column-index'):
                self.raise_builtin('IndexError', 'list index out of range')
            arr = obj.mat.arr
            if self.old_mode and self.old_snapshot is not None and id(obj.mat) in self.old_snapshot:
                arr = self.old_snapshot[id(obj.mat)]
            return mk_elem(z3.Select(z3.Select(arr, obj.r), t), 'atom')
        if isinstance(obj, ClassObj) and obj.is_enum:
            if isinstance(idx, SymNameOf) and not idx.lowered:
                m = self.enum_members_feasible(idx.src)
                if m.name in obj.members:
                    return obj.members[m.name]
                self.raise_builtin('KeyError', m.name)
            if isinstance(idx, str):
                if idx in obj.members:
                    return obj.members[idx]
                self.raise_builtin('KeyError', idx)
            raise Unsupported('enum lookup by symbolic name')
        if isinstance(obj, PyObj):
            gi = obj.cls.lookup('__getitem__')
            if gi is not _MISSING:
                return self.call(gi, [obj, idx], {})
        if obj is None or is_num(obj):
            self.raise_builtin('TypeError', "'%s' object is not subscriptable" % self.typename(obj))
        raise Unsupported('subscript of %r' % (obj,))

    # lists containing Segments: only the two ends are addressable -------------------------------------
    def seg_elem(self, seg, index_term):
        if seg.elem is None:
            raise Unsupported('element of an opaque segment %r' % (seg,))
        key = (seg.base, str(z3.simplify(index_term)))
        cache = self.ghost.setdefault('__seg_elems__', {})
        if key not in cache:
            cache[key] = seg.elem(self, seg.base, z3.simplify(index_term))
        return cache[key]

    def seg_getitem(self, lst, items, idx):
        if isinstance(idx, slice) or not isinstance(idx, int) or idx not in (0, -1):
            raise Unsupported('index %r into a list with abstract segments' % (idx,))
        seq = items if idx == 0 else list(reversed(items))
        for x in seq:
            if not isinstance(x, Segment):
                return x
            nonempty = x.n > 0
            if self.spec_mode:
                # specifications index only where the clause guarantees an element: take this segment if it is
                # the first non-empty one under the path condition
                if self.feasible(nonempty) and not self.feasible(z3.Not(nonempty)):
                    return self.seg_elem(x, x.off if idx == 0 else x.off + x.n - 1)
                if not self.feasible(nonempty):
                    continue
                raise Unsupported('spec indexes a list whose first segment may or may not be empty')
            if self.branch(nonempty, 'segment-nonempty'):
                return self.seg_elem(x, x.off if idx == 0 else x.off + x.n - 1)
        self.raise_builtin('IndexError', 'list index out of range')

    def seg_pop(self, lst, left):
        """pop from the left / right end of a list that may contain segments"""
        items = lst.items
        while items:
            i = 0 if left else len(items) - 1
            x = items[i]
            if not isinstance(x, Segment):
                return items.pop(i)
            if self.branch(x.n > 0, 'segment-nonempty'):
                if left:
                    el = self.seg_elem(x, x.off)
                    items[i] = Segment(x.base, z3.simplify(x.off + 1), z3.simplify(x.n - 1), x.elem, x.tag)
                else:
                    el = self.seg_elem(x, x.off + x.n - 1)
                    items[i] = Segment(x.base, x.off, z3.simplify(x.n - 1), x.elem, x.tag)
                return el
            items.pop(i)
        self.raise_builtin('IndexError', 'pop from an empty list')

    def read_seq(self, s):
        if self.old_mode and self.old_snapshot is not None:
            snap = self.old_snapshot.get(id(s))
            if snap is not None:
                return snap
        return s.arr, s.n

    def concrete_slice(self, sl):
        def c(x):
            if x is None or isinstance(x, int):
                return x
            raise Unsupported('symbolic slice bound')
        return slice(c(sl.start), c(sl.stop), c(sl.step))

    def setitem(self, obj, idx, value):
        if isinstance(obj, PyList):
            if isinstance(idx, slice):
                raise Unsupported('slice assignment')
            obj.items[self.norm_index(idx, len(obj.items))] = value
        elif isinstance(obj, PyDict):
            self.dict_set(obj, idx, value)
        elif isinstance(obj, SymSeq):
            t = to_term(idx, 'int')
            if isinstance(idx, int) and idx < 0:
                t = obj.n + idx
            if not self.branch(z3.And(t >= 0, t < obj.n), 'index'):
                self.raise_builtin('IndexError', 'list assignment index out of range')
            obj.arr = z3.Store(obj.arr, t, to_term(value))
        elif isinstance(obj, SymMap):
            kt = to_term(idx)
            obj.dom = z3.Store(obj.dom, kt, True)
            obj.val = z3.Store(obj.val, kt, to_term(value))
        elif isinstance(obj, SymRowRef):
            t = to_term(idx, 'int')
            if not self.branch(z3.And(t >= 0, t < obj.mat.w), 'column-index'):
                self.raise_builtin('IndexError', 'list assignment index out of range')
            m = obj.mat
            m.arr = z3.Store(m.arr, obj.r, z3.Store(z3.Select(m.arr, obj.r), t, to_term(value, 'int')))
        elif isinstance(obj, PyObj):
            si = obj.cls.lookup('__setitem__')
            if si is _MISSING:
                self.raise_builtin('TypeError', 'object does not support item assignment')
            self.call(si, [obj, idx, value], {})
        elif obj is None or isinstance(obj, (tuple, str)) or is_num(obj):
            self.raise_builtin('TypeError', "'%s' object does not support item assignment" % self.typename(obj))
        else:
            raise Unsupported('setitem on %r' % (obj,))

    def delitem(self, obj, idx):
        if isinstance(obj, PyList):
            del obj.items[self.norm_index(idx, len(obj.items))]
        elif isinstance(obj, PyDict):
            k = self.dict_find(obj, idx)
            if k is _MISSING:
                self.raise_builtin('KeyError', idx)
            del obj.d[k]
        elif isinstance(obj, SymSeq):
            t = to_term(idx, 'int')
            if not self.branch(z3.And(t >= 0, t < obj.n), 'index'):
                self.raise_builtin('IndexError', 'list assignment index out of range')
            k = z3.Int('k!del')
            obj.arr = z3.Lambda([k], z3.If(k < t, z3.Select(obj.arr, k), z3.Select(obj.arr, k + 1)))
            obj.n = z3.simplify(obj.n - 1)
        elif isinstance(obj, SymMap):
            kt = to_term(idx)
            if not self.branch(z3.Select(obj.dom, kt), 'key'):
                self.raise_builtin('KeyError', 'key')
            obj.dom = z3.Store(obj.dom, kt, False)
        else:
            raise Unsupported('del item on %r' % (obj,))

    # dicts with concrete keys; symbolic probes compare against each key ----------
    def read_dict(self, d):
        if self.old_mode and self.old_snapshot is not None:
            snap = self.old_snapshot.get(id(d))
            if snap is not None:
                return snap
        return d.d

    @staticmethod
    def is_symkey(key):
        """a dictionary key whose equality with another key is a formula, not a fact: a symbolic scalar or a tuple
        holding one"""
        if isinstance(key, (SymVal, CharStr)):
            return True
        return isinstance(key, tuple) and any(Interp.is_symkey(x) for x in key)

    def dict_find(self, d, key):
        dd = self.read_dict(d)
        if self.is_symkey(key):
            for k in list(dd.keys()):
                if isinstance(k, tuple) != isinstance(key, tuple):
                    continue
                r = self.equals(k, key)
                if self.truth(r):
                    return k
            return _MISSING
        if isinstance(key, (PyList, PyDict, PySet)):
            self.raise_builtin('TypeError', 'unhashable type')
        try:
            if key in dd:
                return key
        except TypeError:
            self.raise_builtin('TypeError', 'unhashable type')
        for k in list(dd.keys()):          # a concrete key may equal a symbolic key that is present
            if self.is_symkey(k) and isinstance(k, tuple) == isinstance(key, tuple):
                if self.truth(self.equals(k, key)):
                    return k
        return _MISSING

    def dict_get(self, d, key, default=None, raise_missing=False):
        if self.spec_mode and self.is_symkey(key) and not raise_missing and not isinstance(key, tuple):
            # inside a specification nothing may fork: d.get(key) over scalar values is an if-then-else chain over the keys present
            dd = self.read_dict(d)
            conds = []
            for k in dd:
                if isinstance(k, tuple):
                    conds = None
                    break
                r = self.equals(k, key)
                conds.append((k, r))
            if conds is not None and any(not isinstance(r, bool) for _, r in conds):
                vals = [dd[k] for k, _ in conds] + [default]
                kinds = {kind_of(v) for v in vals if v is not None}
                if len(kinds) == 1 and all(v is not None for v in vals) and next(iter(kinds)) in ('int', 'real', 'bool', 'str', 'atom'):
                    kd = next(iter(kinds))
                    out = to_term(default, kd)
                    for k, r in reversed(conds):
                        rt = r if not isinstance(r, SymVal) else r.t
                        rt = z3.BoolVal(rt) if isinstance(rt, bool) else rt
                        out = z3.If(rt, to_term(dd[k], kd), out)
                    return mk(out, kd)
        k = self.dict_find(d, key)
        if k is _MISSING:
            if raise_missing:
                self.raise_builtin('KeyError', key if not isinstance(key, SymVal) else 'key')
            return default
        return self.read_dict(d)[k]

    def dict_set(self, d, key, value):
        if self.is_symkey(key):
            k = self.dict_find(d, key)
            if k is _MISSING:
                # symbolic key distinct from all present keys: keep it as an identity-keyed entry
                d.d[key] = value
            else:
                d.d[k] = value
            return
        if isinstance(key, (PyList, PyDict, PySet)):
            self.raise_builtin('TypeError', 'unhashable type')
        # a concrete key may equal an existing symbolic key
        for k in list(d.d.keys()):
            if self.is_symkey(k) and isinstance(k, tuple) == isinstance(key, tuple):
                if self.truth(self.equals(k, key)):
                    d.d[k] = value
                    return
        d.d[key] = value

    # iteration ---------------------------------------------------------------
    def iterate(self, v, allow_symbolic=False, where=None):
        if isinstance(v, PyList):
            if any(isinstance(x, Segment) for x in self.read_items(v)):
                raise Unsupported('iteration over a list with abstract segments needs a loop invariant (%s)' % self.cur_func_name())
            return list(self.read_items(v))
        if isinstance(v, tuple):
            return list(v)
        if isinstance(v, PyDict):
            return list(self.read_dict(v).keys())
        if isinstance(v, PySet):
            try:
                return sorted(v.s)
            except TypeError:
                return sorted(v.s, key=repr)
        if isinstance(v, str):
            return list(v)
        if isinstance(v, CharStr):
            return [CharStr([c]) for c in v.chars]
        if isinstance(v, range):
            return list(v)
        if isinstance(v, _DictView):
            dd = self.read_dict(v.d)
            if v.kind == 'keys':
                return list(dd.keys())
            if v.kind == 'values':
                return list(dd.values())
            return [(k, x) for k, x in dd.items()]
        if isinstance(v, _Iter):
            rest = v.items[v.pos:]
            v.pos = len(v.items)
            return rest
        if isinstance(v, ClassObj) and v.is_enum:
            return list(v.members.values())
        if isinstance(v, (SymSeq, _SymRange)):
            raise Unsupported('iteration over a sequence of symbolic length needs a loop invariant (%s%s)'
                              % (self.cur_func_name(), ' line %d' % where.lineno if where is not None else ''))
        if v is None or is_num(v):
            self.raise_builtin('TypeError', "'%s' object is not iterable" % self.typename(v))
        if isinstance(v, PyObj):
            it = v.cls.lookup('__iter__')
            if it is not _MISSING:
                return self.iterate(self.call(it, [v], {}))
        if type(v).__name__ in ('callable_iterator', 'list_iterator', 'tuple_iterator', 'str_iterator', 'map', 'filter', 'zip'):
            # a native iterator over native values (re.finditer on a concrete string, ...): its items, natively
            return list(v)
        raise Unsupported('iteration over %r' % (v,))

    # comprehensions ------------------------------------------------------------
    def comp(self, node, env, emit):
        cenv = Env({}, env, env.glob, env.func)
        cenv.vars = _ChainVars(env)

        def rec(gi):
            if gi == len(node.generators):
                emit(cenv)
                return
            g = node.generators[gi]
            for x in self.iterate(self.eval(g.iter, cenv)):
                self.assign(g.target, x, cenv)
                if all(self.truth(self.eval(c, cenv)) for c in g.ifs):
                    rec(gi + 1)
        rec(0)

    def ex_ListComp(self, node, env):
        out = []
        self.comp(node, env, lambda e: out.append(self.eval(node.elt, e)))
        return PyList(out)

    def ex_GeneratorExp(self, node, env):
        out = []
        self.comp(node, env, lambda e: out.append(self.eval(node.elt, e)))
        return _Iter(out)

    def ex_SetComp(self, node, env):
        out = []
        self.comp(node, env, lambda e: out.append(self.eval(node.elt, e)))
        return PySet(out)

    def ex_DictComp(self, node, env):
        d = PyDict()
        self.comp(node, env, lambda e: self.dict_set(d, self.eval(node.key, e), self.eval(node.value, e)))
        return d

    def ex_JoinedStr(self, node, env):
        parts = []
        for v in node.values:
            if isinstance(v, ast.Constant):
                parts.append(v.value)
            else:
                x = self.eval(v.value, env)
                if isinstance(x, (int, float, str)) and v.format_spec is None and v.conversion == -1:
                    parts.append(str(x))
                else:
                    return self.opaque_str('fstr')
        return ''.join(parts)

    # calls -----------------------------------------------------------------------
    def ex_Call(self, node, env):
        # spec-level special forms
        if self.spec_mode and isinstance(node.func, ast.Name):
            nm = node.func.id
            if nm == 'old':
                self.old_mode += 1
                try:
                    v = self.eval(node.args[0], env)
                    return self.frozen_old(v)
                finally:
                    self.old_mode -= 1
            if nm in ('forall', 'exists'):
                return self.quantifier(nm, node, env)
            if nm == 'at_entry':        # value at the entry of the innermost enclosing cut loop
                if not self.loop_entry_stack:
                    raise Unsupported('at_entry() outside a loop invariant')
                saved = self.old_snapshot
                self.old_snapshot = self.loop_entry_stack[-1]
                self.old_mode += 1
                try:
                    return self.frozen_old(self.eval(node.args[0], env))
                finally:
                    self.old_mode -= 1
                    self.old_snapshot = saved
            if nm == 'unchanged' and len(node.args) == 1:
                new = self.eval(node.args[0], env)
                self.old_mode += 1
                try:
                    old = self.eval(node.args[0], env)
                finally:
                    self.old_mode -= 1
                if isinstance(new, SymVal) and isinstance(old, SymVal):
                    return new.k == old.k and (new.t.eq(old.t) or mk(new.t == old.t, 'bool') is True)
                if isinstance(new, SymVal) or isinstance(old, SymVal):
                    return False
                if isinstance(new, (int, float, str, bool, type(None))):
                    return type(new) is type(old) and new == old
                return new is old
            if nm == 'implies' and len(node.args) == 2:
                a = self.truth_term(self.eval(node.args[0], env))
                if isinstance(a, bool):
                    if not a:
                        return True
                    b = self.truth_term(self.eval(node.args[1], env))
                    return b if isinstance(b, bool) else mk(b, 'bool')
                try:
                    b = self.truth_term(self.eval(node.args[1], env))
                except (PyRaise, TypeError):
                    b = False       # consequent undefined: the implication holds only where the antecedent is false
                return mk(z3.Implies(a, z3.BoolVal(b) if isinstance(b, bool) else b), 'bool')
        fn = self.eval(node.func, env)
        # round(e) / int(e) / float(e) do not depend on whether e is an int or a float of the same value, so a
        # min/max directly inside may merge an int and a float operand into one real-valued term (no fork)
        kf = getattr(self, 'kindfree', None)
        if kf is None:
            kf = self.kindfree = set()
        fname = getattr(fn, 'name', None)
        if len(node.args) == 1 and not node.keywords and (
                (isinstance(fn, Builtin) and fname == 'round') or (isinstance(fn, BuiltinClass) and fname in ('int', 'float'))):
            kf.add(id(node.args[0]))
        merge_here = False
        if id(node) in kf and isinstance(fn, Builtin) and fname in ('min', 'max'):
            merge_here = True
            for a in node.args:
                kf.add(id(a))
        args = []
        for a in node.args:
            if isinstance(a, ast.Starred):
                args.extend(self.iterate(self.eval(a.value, env)))
            else:
                args.append(self.eval(a, env))
        if merge_here:
            self.minmax_merge = True
            try:
                return self.call(fn, args, {})
            finally:
                self.minmax_merge = False
        kwargs = {}
        for kw in node.keywords:
            if kw.arg is None:
                d = self.eval(kw.value, env)
                for k in d.d:
                    kwargs[k] = d.d[k]
            else:
                kwargs[kw.arg] = self.eval(kw.value, env)
        # zero-argument super()
        if isinstance(fn, BuiltinClass) and fn.name == 'super' and not args:
            f = env.func
            e = env
            while f is not None and f.cls is None and e.parent is not None:
                e = e.parent
                f = e.func
            first = f.node.args.args[0].arg
            return SuperObj(f.cls, e.lookup(first, self))
        return self.call(fn, args, kwargs)

    def quantifier(self, which, node, env):
        lam = node.args[-1]
        if not isinstance(lam, ast.Lambda):
            raise Unsupported('%s needs a lambda' % which)
        names = [a.arg for a in lam.args.args]
        kinds = [self.eval(a, env) for a in node.args[:-1]] or ['int'] * len(names)
        if len(kinds) == 1 and len(names) > 1:
            kinds = kinds * len(names)
        vs = []
        for nm, k in zip(names, kinds):
            self.fresh_n += 1
            nmq = '%s!q%d' % (nm, self.fresh_n)
            vs.append(SymVal({'int': z3.Int, 'atom': z3.Int, 'real': z3.Real, 'bool': z3.Bool}[k](nmq), k))
        qenv = Env(dict(zip(names, vs)), env, env.glob, env.func)
        body = self.truth_term(self.eval(lam.body, qenv))
        if isinstance(body, bool):
            return body
        q = z3.ForAll if which == 'forall' else z3.Exists
        return mk(q([v.t for v in vs], body), 'bool')

    def call(self, fn, args, kwargs):
        if isinstance(fn, BoundMethod):
            return self.call(fn.func, [fn.self] + list(args), kwargs)
        if isinstance(fn, FuncObj):
            return self.call_func(fn, args, kwargs)
        if isinstance(fn, Builtin):
            return fn.fn(self, list(args), kwargs)
        if isinstance(fn, ClassObj):
            return self.instantiate(fn, args, kwargs)
        if isinstance(fn, BuiltinClass):
            from . import models
            return models.call_builtin_class(self, fn, list(args), kwargs)
        if isinstance(fn, StaticMethod):
            return self.call(fn.func, args, kwargs)
        if isinstance(fn, PyObj):
            c = fn.cls.lookup('__call__')
            if c is not _MISSING:
                return self.call(c, [fn] + list(args), kwargs)
        if isinstance(fn, Opaque) and '__call__' in fn.methods:
            return fn.methods['__call__'](self, fn, list(args), kwargs)
        if fn is None or is_num(fn) or isinstance(fn, (str, PyList, PyDict, EnumMember)):
            self.raise_builtin('TypeError', "'%s' object is not callable" % self.typename(fn))
        if callable(fn) and all(_native(a) for a in args) and all(_native(v) for v in kwargs.values()):
            return self.native_call(fn, args, kwargs)
        raise Unsupported('call of %r' % (fn,))

    def wrap_native(self, v):
        if isinstance(v, list):
            return PyList([self.wrap_native(x) for x in v])
        if isinstance(v, dict):
            return PyDict({k: self.wrap_native(x) for k, x in v.items()})
        if isinstance(v, set):
            return PySet(v)
        return v

    def native_call(self, fn, args, kwargs):
        try:
            return self.wrap_native(fn(*args, **kwargs))
        except (ValueError, TypeError, KeyError, IndexError, ZeroDivisionError, AttributeError, OverflowError) as e:
            self.raise_builtin(type(e).__name__, *e.args)

    def instantiate(self, cls, args, kwargs):
        if cls.is_enum:
            for m in cls.members.values():
                if len(args) == 1 and self.truth(self.equals(m.value, args[0])):
                    return m
            self.raise_builtin('ValueError', 'not a valid enum value')
        if cls.builtin_base == 'list':
            obj = PyList([], cls)
        else:
            obj = PyObj(cls)
        init = cls.lookup('__init__')
        if init is not _MISSING:
            self.call(init, [obj] + list(args), kwargs)
        else:
            if cls.builtin_base:
                obj.attrs['__args__'] = tuple(args)
            elif args or kwargs:
                self.raise_builtin('TypeError', '%s() takes no arguments' % cls.name)
        return obj

    def bind_args(self, fn, args, kwargs):
        a = fn.node.args
        params = [p.arg for p in a.posonlyargs + a.args]
        local = {}
        args = list(args)
        kwargs = dict(kwargs)
        n = len(params)
        if len(args) > n and a.vararg is None:
            self.raise_builtin('TypeError', '%s() takes %d positional arguments but %d were given'
                               % (fn.name, n, len(args)))
        for p, v in zip(params, args):
            local[p] = v
        if a.vararg is not None:
            local[a.vararg.arg] = tuple(args[n:])
        ndef = len(fn.defaults)
        for i, p in enumerate(params):
            if p in local:
                if p in kwargs:
                    self.raise_builtin('TypeError', '%s() got multiple values for argument %r' % (fn.name, p))
                continue
            if p in kwargs:
                local[p] = kwargs.pop(p)
            elif i >= n - ndef:
                local[p] = fn.defaults[i - (n - ndef)]
            else:
                self.raise_builtin('TypeError', '%s() missing required positional argument: %r' % (fn.name, p))
        for ko in a.kwonlyargs:
            if ko.arg in kwargs:
                local[ko.arg] = kwargs.pop(ko.arg)
            elif ko.arg in fn.kwdefaults:
                local[ko.arg] = fn.kwdefaults[ko.arg]
            else:
                self.raise_builtin('TypeError', '%s() missing keyword-only argument %r' % (fn.name, ko.arg))
        if a.kwarg is not None:
            local[a.kwarg.arg] = PyDict(kwargs)
        elif kwargs:
            self.raise_builtin('TypeError', '%s() got an unexpected keyword argument %r'
                               % (fn.name, next(iter(kwargs))))
        return local

    MAX_DEPTH = 150

    def call_func(self, fn, args, kwargs):
        if not self.spec_mode:
            c = self.modular_contract(fn)
            if c is not None:
                return self.call_via_contract(fn, c, args, kwargs)
        local = self.bind_args(fn, args, kwargs)
        env = Env(local, fn.closure, fn.module.ns, fn)
        if isinstance(fn.node, ast.Lambda):
            return self.eval(fn.node.body, env)
        self.call_depth += 1
        if self.call_depth > self.MAX_DEPTH:
            self.call_depth -= 1
            raise Unsupported('call depth > %d (recursion needs a modular contract): %s' % (self.MAX_DEPTH, fn.qualname))
        self.cur_func.append(fn)
        if self.cur_func and len(self.cur_func) > 1:
            self.inlined.add((self.relpath(fn.module), fn.qualname))
        gen = self._is_generator(fn)
        if gen:
            env.yielded = []
        try:
            self.exec_block(fn.node.body, env)
            return _Iter(env.yielded) if gen else None
        except ReturnEx as r:
            return _Iter(env.yielded) if gen else r.value
        finally:
            self.cur_func.pop()
            self.call_depth -= 1

    def _is_generator(self, fn):
        """a generator function is run to its end at the call and its values handed out as a finished sequence (eager): exact
        for a generator that terminates and whose consumer does not interleave effects with it"""
        g = getattr(fn, '_is_gen', None)
        if g is None:
            def walk(n):
                for ch in ast.iter_child_nodes(n):
                    if isinstance(ch, (ast.FunctionDef, ast.AsyncFunctionDef, ast.Lambda, ast.ClassDef)):
                        continue
                    if isinstance(ch, (ast.Yield, ast.YieldFrom)):
                        return True
                    if walk(ch):
                        return True
                return False
            g = fn._is_gen = (not isinstance(fn.node, ast.Lambda)) and walk(fn.node)
        return g

    def ex_Yield(self, node, env):
        e = env
        while e is not None and not hasattr(e, 'yielded'):
            e = getattr(e, 'parent', None)
        if e is None:
            raise Unsupported('yield outside a generator function called directly')
        e.yielded.append(self.eval(node.value, env) if node.value is not None else None)
        return None

    def modular_contract(self, fn):
        if not self.contracts:
            return None
        cs = self.contracts.get((self.relpath(fn.module), fn.qualname))
        if not cs:
            return None
        active = getattr(self, 'active_groups', ())
        for c in cs:            # a contract of an active group first, then one that applies everywhere
            if c.modular and c.group is not None and c.group in active:
                return c
        for c in cs:
            if c.modular and c.group is None:
                return c
        return None

    _verifying = None
    _in_body = False

    def call_func_body(self, fn, args, kwargs=None):
        """execute fn's own body (never its contract): used for the function under verification."""
        local = self.bind_args(fn, args, kwargs or {})
        env = Env(local, fn.closure, fn.module.ns, fn)
        if isinstance(fn.node, ast.Lambda):
            return self.eval(fn.node.body, env)
        self.cur_func.append(fn)
        try:
            self.exec_block(fn.node.body, env)
            return None
        except ReturnEx as r:
            return r.value
        finally:
            self.cur_func.pop()

    def call_via_contract(self, fn, c, args, kwargs):
        from .spec import apply_contract_at_call
        return apply_contract_at_call(self, fn, c, args, kwargs)

    # spec expression evaluation ------------------------------------------------
    def eval_spec(self, text, env, extra=None):
        from .spec import parse_spec
        node = parse_spec(text)
        ex = dict(getattr(self, 'spec_extra', None) or {})
        ex.update(extra or {})
        senv = Env(ex, env, env.glob if env is not None else {}, env.func if env is not None else None)
        senv.glob = _SpecGlobals(self, env.glob if env is not None else {})
        self.spec_mode += 1
        try:
            v = self.eval(node, senv)
            return self.truth_term(v) if not isinstance(v, (bool,)) else v
        finally:
            self.spec_mode -= 1

    def eval_spec_value(self, text, env, extra=None):
        from .spec import parse_spec
        node = parse_spec(text)
        senv = Env(dict(extra or {}), env, None, env.func if env is not None else None)
        senv.glob = _SpecGlobals(self, env.glob if env is not None else {})
        self.spec_mode += 1
        try:
            return self.eval(node, senv)
        finally:
            self.spec_mode -= 1

    def frozen_old(self, v):
        """value of a mutable container as it was in the pre-state (an immutable copy)."""
        snap = self.old_snapshot
        if snap is None or id(v) not in snap:
            return v
        sv = snap[id(v)]
        if isinstance(v, SymSeq):
            n = SymSeq(sv[0], sv[1], v.ek, v.cls)
            n.orig = v
            return n
        if isinstance(v, PyList):
            n = PyList(list(sv), v.cls)
            n.is_deque = v.is_deque
            n.orig = v
            return n
        if isinstance(v, PyDict):
            n = PyDict(dict(sv))
            n.orig = v
            return n
        if isinstance(v, SymMat):
            n = SymMat(sv, v.h, v.w)
            n.orig = v
            return n
        if isinstance(v, SymSet):
            return SymSet(sv) if z3.is_expr(sv) else PySet(sv)
        if isinstance(v, PySet):
            return PySet(set(sv)) if not z3.is_expr(sv) else SymSet(sv)
        return v

    # isinstance ---------------------------------------------------------------
    def isinstance_(self, v, cls):
        if isinstance(cls, tuple):
            return any(self.isinstance_(v, c) for c in cls)
        from . import models
        return models.isinstance_(self, v, cls)

    # snapshot of the mutable heap reachable from roots (for old()) --------------
    def snapshot(self, roots):
        snap = {}
        keep = []
        seen = set()
        stack = list(roots)
        while stack:
            o = stack.pop()
            if id(o) in seen:
                continue
            seen.add(id(o))
            keep.append(o)
            if isinstance(o, PyObj):
                snap[id(o)] = dict(o.attrs)
                stack.extend(o.attrs.values())
            elif isinstance(o, PyList):
                snap[id(o)] = list(o.items)
                stack.extend(o.items)
            elif isinstance(o, PyDict):
                snap[id(o)] = dict(o.d)
                stack.extend(o.d.values())
                stack.extend(o.d.keys())
            elif isinstance(o, PySet):
                snap[id(o)] = set(o.s)
            elif isinstance(o, SymSeq):
                snap[id(o)] = (o.arr, o.n)
            elif isinstance(o, SymSet):
                snap[id(o)] = o.m
            elif isinstance(o, SymMap):
                snap[id(o)] = (o.dom, o.val)
            elif isinstance(o, SymMat):
                snap[id(o)] = o.arr
            elif isinstance(o, tuple):
                stack.extend(o)
            elif isinstance(o, Opaque):
                snap[id(o)] = dict(o.attrs)
                stack.extend(o.attrs.values())
            elif isinstance(o, BoundMethod):
                stack.append(o.self)
        snap['__keep__'] = keep
        snap['__ghost__'] = dict(self.ghost)
        return snap

    def ghost_read(self, name):
        """ghost value; inside old(...) / at_entry(...) the value recorded in that snapshot"""
        if self.old_mode and self.old_snapshot is not None and '__ghost__' in self.old_snapshot:
            return self.old_snapshot['__ghost__'].get(name)
        return self.ghost.get(name)


def mk_elem(t, k):
    return mk(t, k)


def _native(v):
    if isinstance(v, (int, float, str, bool, type(None), bytes, frozenset, range)):
        return True
    if isinstance(v, tuple):
        return all(_native(x) for x in v)
    import re
    return isinstance(v, (re.Pattern, re.Match))


class _AutoVal:
    def __init__(self, n):
        self.n = n


class _Iter:
    """iterator over an eagerly computed list (iter(), generator expressions)."""

    def __init__(self, items):
        self.items = list(items)
        self.pos = 0


class _DictView:
    def __init__(self, d, kind):
        self.d, self.kind = d, kind


class _SymRange:
    def __init__(self, start_t, stop_t):
        self.start_t, self.stop_t = start_t, stop_t

    def count(self):
        return z3.If(self.stop_t > self.start_t, self.stop_t - self.start_t, 0)


class _ChainVars(dict):
    """comprehension scope: writes stay local, reads fall through (handled by Env.parent)."""

    def __init__(self, env):
        super().__init__()


class _SpecGlobals(dict):
    """globals seen by specification expressions: spec functions first, then the module globals."""

    def __init__(self, interp, glob):
        super().__init__()
        self.interp = interp
        self.glob = glob

    def __contains__(self, k):
        return k in self.interp.spec_fns or k in self.glob

    def __getitem__(self, k):
        if k in self.interp.spec_fns:
            return self.interp.spec_fns[k]
        return self.glob[k]
