"""Replaying a refuted obligation against the real code under the repo's own interpreter.

The solver model is turned into concrete inputs by re-running the contract's pre-state
construction with the model values, the object graph is shipped as JSON to a driver process
running /venv/bin/python on the real /repo, the real function is called, and the failed
clause is re-evaluated (by pyvc in concrete mode) on the real result / post-state.
"""
import json
import os
import subprocess
import sys
import tempfile
from fractions import Fraction

from .values import (SymVal, CharStr, PyObj, PyList, SymSeq, PyDict, PySet, ClassObj, BuiltinClass,
                     EnumMember, FuncObj, BoundMethod, Opaque, ExcObj)

VERIF = os.path.dirname(os.path.dirname(os.path.abspath(__file__)))
OUT = os.environ.get('PYVC_OUT', VERIF)
PY_REAL = os.environ.get('PYVC_PYTHON', '/venv/bin/python')

DRIVER = r'''
import sys, json, importlib, traceback
repo = sys.argv[1]
sys.path.insert(0, repo)
job = json.load(open(sys.argv[2]))
memo = {}
def dec(j):
    if isinstance(j, dict):
        t = j.get('t')
        if t == 'ref': return memo[j['id']]
        if t == 'float': return float(j['v'])
        if t == 'frac': return j['n'] / j['d']
        if t == 'tuple': return tuple(dec(x) for x in j['v'])
        if t == 'list':
            l = []; memo[j['id']] = l; l.extend(dec(x) for x in j['v']); return l
        if t == 'dict':
            d = {}; memo[j['id']] = d
            for k, v in j['v']: d[dec(k)] = dec(v)
            return d
        if t == 'set': return set(dec(x) for x in j['v'])
        if t == 'enum':
            return getattr(getattr(importlib.import_module(j['m']), j['c']), j['n'])
        if t == 'class':
            return getattr(importlib.import_module(j['m']), j['c'])
        if t == 'builtin':
            import builtins
            return getattr(builtins, j['n'])
        if t == 'func':
            o = importlib.import_module(j['m'])
            for p in j['q'].split('.'): o = getattr(o, p)
            return o
        if t == 'stub':
            o = _Stub(j['kind'], j['id']); memo[j['id']] = o
            o._returns = {k: dec(v) for k, v in j.get('returns', {}).items()}
            o._raises = {k: dec(v) for k, v in j.get('raises', {}).items()}
            return o
        if t == 'deque':
            import collections
            d = collections.deque(); memo[j['id']] = d; d.extend(dec(x) for x in j['v']); return d
        if t == 'bound':
            return getattr(dec(j['self']), j['name'])
        if t == 'obj':
            cls = getattr(importlib.import_module(j['m']), j['c'])
            if issubclass(cls, list):
                o = cls.__new__(cls); memo[j['id']] = o; list.extend(o, [dec(x) for x in j.get('items', [])])
            else:
                o = cls.__new__(cls); memo[j['id']] = o
            for k, v in j['a'].items(): object.__setattr__(o, k, dec(v))
            return o
        raise ValueError(j)
    return j
DEV = []
CLK = []
CALLS = []
GHOST = {}
class _Stub:
    def __init__(self, kind, sid): self._kind, self._sid = kind, sid; self._returns = {}; self._raises = {}
    def __getattr__(self, name):
        if name.startswith('__'): raise AttributeError(name)
        if name in self.__dict__.get('_raises', {}):
            exc = self._raises[name]
            def f(*a, **k): raise exc('replay fault')
            return f
        if name in self.__dict__.get('_returns', {}):
            val = self._returns[name]
            return lambda *a, **k: val
        if self.__dict__.get('_kind') == 'generic':
            def rec(*a, **k):
                CALLS.append((self, name, a))
                return True if name in ('acquire', 'is_alive') else None
            return rec
        raise AttributeError(name)
    # device
    def _chk(self, name):
        exc = self.__dict__.get('_raises', {}).get(name) or self.__dict__.get('_raises', {}).get('*')
        if exc is not None: raise exc('replay fault')
    def set_color(self, color, duration, rapid=False): self._chk('set_color'); DEV.append((self, 'set_color', color, duration))
    def set_power(self, power, duration, rapid=False): self._chk('set_power'); DEV.append((self, 'set_power', power, duration))
    def set_zone_color(self, start, end, color, duration=0, rapid=False, apply=1): self._chk('set_zone_color'); DEV.append((self, 'set_zone_color', start, end, color, duration))
    def fire_and_forget(self, msg, payload, **kw): self._chk('fire_and_forget'); DEV.append((self, 'set_matrix', payload['colors'], payload['duration']))
    def get_color(self): self._chk('get_color'); DEV.append((self, 'get_color')); return self.__dict__.get('_returns', {}).get('device_color', [0, 0, 0, 0])
    def get_power(self): self._chk('get_power'); DEV.append((self, 'get_power')); return self.__dict__.get('_returns', {}).get('device_power', 0)
    def set_color_all_lights(self, color, duration, rapid=False): self._chk('set_color_all_lights'); DEV.append((self, 'set_color_all_lights', color, duration))
    def set_power_all_lights(self, power, duration, rapid=False): self._chk('set_power_all_lights'); DEV.append((self, 'set_power_all_lights', power, duration))
    # clock
    def start(self): CLK.append(('start',))
    def stop(self): CLK.append(('stop',))
    def reset(self): CLK.append(('reset',))
    def pause_for(self, t): CLK.append(('pause_for', t))
    def wait_until(self, p): CLK.append(('wait_until', p))
ids = {}
def enc(v, depth=0):
    if v is None or isinstance(v, (bool, int, str)): return v
    if isinstance(v, float): return {'t': 'float', 'v': repr(v)}
    if isinstance(v, tuple): return {'t': 'tuple', 'v': [enc(x, depth+1) for x in v]}
    if isinstance(v, _Stub): return {'t': 'stub', 'id': v._sid}
    if id(v) in ids and depth > 0: return {'t': 'ref', 'id': ids[id(v)]}
    import types, collections
    if isinstance(v, (types.MethodType, types.FunctionType, types.BuiltinFunctionType)): return {'t': 'opaque', 'r': 'callable'}
    if isinstance(v, collections.deque):
        ids[id(v)] = len(ids) + 1000000
        return {'t': 'list', 'id': ids[id(v)], 'v': [enc(x, depth+1) for x in v]}
    import enum
    if isinstance(v, enum.Enum): return {'t': 'enum', 'm': type(v).__module__, 'c': type(v).__name__, 'n': v.name}
    ids[id(v)] = len(ids) + 1000000
    if isinstance(v, list) and type(v) is list: return {'t': 'list', 'id': ids[id(v)], 'v': [enc(x, depth+1) for x in v]}
    if isinstance(v, dict): return {'t': 'dict', 'id': ids[id(v)], 'v': [[enc(k, depth+1), enc(x, depth+1)] for k, x in v.items()]}
    if isinstance(v, (set, frozenset)): return {'t': 'set', 'id': ids[id(v)], 'v': [enc(x, depth+1) for x in sorted(v, key=repr)]}
    if depth > 12: return {'t': 'opaque', 'r': repr(v)[:80]}
    if hasattr(v, '__dict__') and not callable(v) and not isinstance(v, type):
        j = {'t': 'obj', 'id': ids[id(v)], 'm': type(v).__module__, 'c': type(v).__name__,
             'a': {k: enc(x, depth+1) for k, x in vars(v).items()}}
        if isinstance(v, list): j['items'] = [enc(x, depth+1) for x in v]
        return j
    return {'t': 'opaque', 'r': repr(v)[:80]}
for pre in job.get('pre_exec', []):
    exec(pre, {'__name__': 'replay_pre', 'GHOST': GHOST, 'CALLS': CALLS})
mod = importlib.import_module(job['module'])
fn = mod
if job.get('lemma_src'):
    import textwrap
    ns = dict(vars(mod))
    exec(textwrap.dedent(job['lemma_src']), ns)
    fn = ns[job['qualname']]
else:
  for p in job['qualname'].split('.'):
    fn = fn.__dict__[p] if isinstance(fn, type) else getattr(fn, p)
if isinstance(fn, staticmethod): fn = fn.__func__
if isinstance(fn, property): fn = fn.fget
for _ in range(job.get('unwrap', 0)): fn = fn.__wrapped__
args = [dec(a) for a in job['args']]
if job.get('providers') is not None:
    from bardolph.lib import injection
    injection._providers.clear()
    for iface, obj in job['providers']:
        injection._providers[dec(iface)] = (lambda o: (lambda: o))(dec(obj))
out = {}
import io, contextlib
_buf = io.StringIO()
try:
    with contextlib.redirect_stdout(_buf):
        res = fn(*args)
    out['result'] = enc(res)
    out['raised'] = None
except BaseException as e:
    out['raised'] = type(e).__name__
    out['message'] = str(e)[:300]
    out['result'] = None
ids.clear()
out['args_after'] = [enc(a) for a in args]
out['stdout'] = _buf.getvalue()
out['calls'] = [enc(e) for e in CALLS]
out['ghost'] = {k: enc(v) for k, v in GHOST.items()}
out['dev'] = [enc(e) for e in DEV]
out['clk'] = [enc(e) for e in CLK]
json.dump(out, open(sys.argv[3], 'w'))
'''


def atom_str(v):
    """order-preserving native string for an atom (atoms are names; modelled as integers)"""
    return 'a%08d' % (int(v) + 50000000)


def atom_int(s):
    return int(s[1:]) - 50000000


class ConcreteBuilder:
    """Builder whose symbols are the concrete values of a solver model."""

    def __init__(self, interp, case, inputs):
        from .spec import Builder
        self._b = Builder(interp, case)
        self.I = interp
        self.case = case
        self.inputs = {}
        self.model = inputs

    def sym(self, kind, name):
        v = self.model.get(name)
        if isinstance(v, dict) and 'frac' in v:
            v = v['frac'][0] / v['frac'][1]
        if v is None:
            v = {'int': 0, 'atom': 0, 'real': 0.0, 'bool': False, 'str': ''}[kind]
        if kind == 'real':
            v = float(v)
        if kind == 'atom':
            v = atom_str(v)
        self.inputs[name] = v
        return v

    def seq(self, ek, name, cls=None):
        items = self.model.get(name) or []
        items = [x['frac'][0] / x['frac'][1] if isinstance(x, dict) else x for x in items]
        n = self.model.get(name + '_len')
        if isinstance(n, int):
            items = (items + [0] * n)[:n]
        if ek == 'atom':
            items = [atom_str(x) for x in items]
        l = PyList(items, cls)
        self.inputs[name] = l
        return l

    def assume(self, cond):
        pass

    def __getattr__(self, name):
        return getattr(self._b, name)


class NotEncodable(Exception):
    pass


def encode(I, v, memo):
    if v is None or isinstance(v, (bool, int, str)):
        return v
    if isinstance(v, float):
        return {'t': 'float', 'v': repr(v)}
    if isinstance(v, Fraction):
        return {'t': 'frac', 'n': v.numerator, 'd': v.denominator}
    if isinstance(v, tuple):
        return {'t': 'tuple', 'v': [encode(I, x, memo) for x in v]}
    if isinstance(v, CharStr):
        return ''.join(chr(c) for c in v.chars)
    if id(v) in memo:
        return {'t': 'ref', 'id': memo[id(v)]}
    if isinstance(v, EnumMember):
        return {'t': 'enum', 'm': v.cls.module.name, 'c': v.cls.name, 'n': v.name}
    if isinstance(v, ClassObj):
        return {'t': 'class', 'm': v.module.name, 'c': v.name}
    if isinstance(v, BuiltinClass):
        return {'t': 'builtin', 'n': v.name}
    if isinstance(v, FuncObj):
        return {'t': 'func', 'm': v.module.name, 'q': v.qualname}
    if isinstance(v, BoundMethod):
        if isinstance(v.func, FuncObj):
            nm = v.func.name
            cls = getattr(v.self, 'cls', None)
            if cls is not None:
                for c in cls.mro():
                    for k, x in c.attrs.items():
                        if x is v.func:
                            nm = k
            return {'t': 'bound', 'self': encode(I, v.self, memo), 'name': nm}
        raise NotEncodable(repr(v))
    memo[id(v)] = len(memo) + 1
    if isinstance(v, Opaque):
        nat = getattr(v, 'native', None)
        if nat is None:
            raise NotEncodable('external stub %s' % v.name)
        memo.setdefault('__stubs__', {})[memo[id(v)]] = v
        j = {'t': 'stub', 'kind': nat['kind'], 'id': memo[id(v)]}
        if nat.get('returns'):
            j['returns'] = {k: encode(I, x() if callable(x) else x, memo) for k, x in nat['returns'].items()}
        if nat.get('raises'):
            j['raises'] = {k: encode(I, x, memo) for k, x in nat['raises'].items()}
        return j
    if isinstance(v, PyList) and v.is_deque:
        return {'t': 'deque', 'id': memo[id(v)], 'v': [encode(I, x, memo) for x in v.items]}
    if isinstance(v, PyList):
        if v.cls is not None:
            return {'t': 'obj', 'id': memo[id(v)], 'm': v.cls.module.name, 'c': v.cls.name, 'a': {},
                    'items': [encode(I, x, memo) for x in v.items]}
        return {'t': 'list', 'id': memo[id(v)], 'v': [encode(I, x, memo) for x in v.items]}
    if isinstance(v, PyDict):
        return {'t': 'dict', 'id': memo[id(v)], 'v': [[encode(I, k, memo), encode(I, x, memo)] for k, x in v.d.items()]}
    if isinstance(v, PySet):
        return {'t': 'set', 'id': memo[id(v)], 'v': [encode(I, x, memo) for x in v.s]}
    if isinstance(v, PyObj):
        if v.cls.module is None:
            raise NotEncodable('anonymous class')
        return {'t': 'obj', 'id': memo[id(v)], 'm': v.cls.module.name, 'c': v.cls.name,
                'a': {k: encode(I, x, memo) for k, x in v.attrs.items()}}
    raise NotEncodable(repr(v))


def decode(I, j, memo):
    if isinstance(j, dict):
        t = j.get('t')
        if t == 'ref':
            return memo.get(j['id'])
        if t == 'float':
            return float(j['v'])
        if t == 'tuple':
            return tuple(decode(I, x, memo) for x in j['v'])
        if t == 'list':
            l = PyList()
            memo[j['id']] = l
            l.items.extend(decode(I, x, memo) for x in j['v'])
            return l
        if t == 'dict':
            d = PyDict()
            memo[j['id']] = d
            for k, v in j['v']:
                d.d[decode(I, k, memo)] = decode(I, v, memo)
            return d
        if t == 'set':
            return PySet(decode(I, x, memo) for x in j['v'])
        if t == 'enum':
            return I.load_module(j['m']).ns[j['c']].members[j['n']]
        if t == 'obj':
            try:
                cls = I.load_module(j['m']).ns[j['c']]
            except Exception:
                cls = None
            if not isinstance(cls, ClassObj):
                o = Opaque('native:%s.%s' % (j['m'], j['c']))
                memo[j['id']] = o
                return o
            if cls.builtin_base == 'list':
                o = PyList([], cls)
                memo[j['id']] = o
                o.items.extend(decode(I, x, memo) for x in j.get('items', []))
                return o
            o = PyObj(cls)
            memo[j['id']] = o
            for k, v in j['a'].items():
                o.attrs[k] = decode(I, v, memo)
            return o
        if t == 'opaque':
            return Opaque('native:' + j['r'])
        if t == 'stub':
            return memo.get('__stubs__', {}).get(j['id']) or Opaque('stub%s' % j['id'])
        raise ValueError(j)
    return j


def native_replay(pid, contract, ob, repo, more_clauses=None):
    """returns dict describing the replay; key 'reproduced' True/False.
    more_clauses: [(id, text)] evaluated on the same native run (witness cross-check); values in info['values']."""
    from .runner import make_interp
    from .interp import Env, PyRaise, Unsupported
    from . import spec as S
    info = {'reproduced': False}
    I = make_interp(10000)
    fn = S.resolve(I, contract)
    case = None
    for cs in S.case_list(contract):
        label = ','.join('%s=%s' % (n, S._alt_label(contract, n, ix)) for n, ix in cs.items())
        if label == ob.get('case', ''):
            case = cs
    if case is None:
        info['why'] = 'case not found'
        return info
    inputs = ob.get('inputs') or {}
    holder = {}

    def build():
        b = ConcreteBuilder(I, case, inputs)
        if contract.setup_fn is not None:
            args = contract.setup_fn(b, case)
        else:
            args = {n: alts[case[n]].build(b, n) for n, alts in contract.arg_specs}
        holder['args'] = args
        holder['pre_exec'] = list(getattr(b._b, 'pre_exec', []))
        holder['provided'] = list(getattr(b._b, 'provided', []))
        return 'ok'
    saved_loops, saved_contracts = I.loopspecs, I.contracts
    I.loopspecs = {}            # concrete pre-state: loops simply run, callees run their own bodies
    I.contracts = {}
    try:
        I.explore(build)
    except Exception as e:
        info['why'] = 'pre-state construction failed: %r' % (e,)
        return info
    I.loopspecs, I.contracts = saved_loops, saved_contracts
    args = holder['args']
    arg_names = S.arg_order(fn, args)
    call_args = [args[k] for k in arg_names]
    try:
        memo = {}
        enc_args = [encode(I, a, memo) for a in call_args]
    except NotEncodable as e:
        info['why'] = 'pre-state contains an external stub that cannot be rebuilt natively: %s' % e
        return info
    try:
        providers = [[encode(I, iface, memo), encode(I, obj, memo)] for iface, obj in holder.get('provided', [])]
    except NotEncodable as e:
        info['why'] = 'injected provider cannot be rebuilt natively: %s' % e
        return info
    job = {'module': S.module_name_of(contract.path), 'qualname': contract.qualname, 'unwrap': contract.unwrap,
           'lemma_src': contract.src, 'args': enc_args, 'providers': providers if holder.get('provided') else None, 'pre_exec': holder.get('pre_exec', []) + list(getattr(contract, 'replay_pre_exec', []))}
    info['call'] = {'module': job['module'], 'function': job['qualname'], 'args': enc_args}
    with tempfile.TemporaryDirectory() as td:
        jp, op, dp = os.path.join(td, 'job.json'), os.path.join(td, 'out.json'), os.path.join(td, 'driver.py')
        json.dump(job, open(jp, 'w'))
        open(dp, 'w').write(DRIVER)
        try:
            p = subprocess.run([PY_REAL, dp, repo, jp, op], capture_output=True, text=True, timeout=120, cwd=repo)
        except subprocess.TimeoutExpired:
            info['why'] = 'native call timed out'
            return info
        if not os.path.exists(op):
            info['why'] = 'driver failed: ' + (p.stderr or '')[-500:]
            return info
        out = json.load(open(op))
    info['raw'] = out
    info['names'] = arg_names
    info['observed'] = {'raised': out.get('raised'), 'message': out.get('message'), 'result': out.get('result'),
                        'device_requests': out.get('dev'), 'clock_requests': out.get('clk'), 'stdout': out.get('stdout')}
    kind = ob.get('kind')
    if kind == 'xcheck':
        return info
    if kind == 'noexc':
        info['reproduced'] = out.get('raised') is not None
        info['required'] = 'no exception escapes'
        return info
    if kind != 'post' or out.get('raised') is not None:
        if out.get('raised') is not None and not any(
                e == out['raised'] for e, _ in contract.raises_):
            info['reproduced'] = True
            info['required'] = 'no exception escapes (observed %s)' % out['raised']
        else:
            info['why'] = 'obligation kind %s is internal to the proof (no native oracle)' % kind
        return info
    # evaluate the failed clause on the real result / post-state
    clause = (ob.get('info') or {}).get('clause')
    memo = {'__stubs__': memo.get('__stubs__', {})}
    post_args = [decode(I, a, memo) for a in out['args_after']]
    result = decode(I, out['result'], memo)
    names = arg_names
    verdict = {}

    def evalclause():
        env_vars = dict(args)
        pre_roots = list(args.values())
        I.old_snapshot = I.snapshot(pre_roots)
        # post-state: rebind parameters to the objects returned by the native run
        for n, v in zip(names, post_args):
            env_vars[n] = v
        # old(...) must see the pre-state objects: map post objects to pre snapshots by parameter position
        for n, v in zip(names, post_args):
            pre = args[n]
            _link_old(I, pre, v)
        env_vars['result'] = result
        I.ghost['Dev'] = PyList([decode(I, e, memo) for e in out.get('dev', [])])
        I.ghost['Clk'] = PyList([decode(I, e, memo) for e in out.get('clk', [])])
        I.ghost['OutText'] = out.get('stdout', '')
        I.ghost['Calls'] = PyList([decode(I, e, memo) for e in out.get('calls', [])])
        for gk, gv in (out.get('ghost') or {}).items():
            I.ghost[gk] = decode(I, gv, memo)
        hook2 = getattr(contract, 'replay_ghost', None)
        if hook2 is not None:
            hook2(I)
        penv = Env(env_vars, None, fn.module.ns, None)
        for dname, dtext in contract.defines_:
            penv.vars[dname] = I.eval_spec_value(dtext, penv)
        if clause and 'ghost_bisect' in clause:
            # the clause names an existential witness supplied by ghost state that a native run does not have:
            # the clause holds natively iff it holds for some candidate witness
            vals = []
            for w in range(-1, 66):
                I.ghost['bisect'] = w
                try:
                    vals.append(_decide(I.eval_spec(clause, penv)))
                except Exception:
                    vals.append(None)
            verdict['value'] = True if any(v is True for v in vals) else (False if all(v is False for v in vals) else None)
            return 'ok'
        for cid_, ctext_ in (more_clauses or []):
            try:
                if 'ghost_bisect' in ctext_:
                    raise Unsupported('witness clause')
                verdict.setdefault('more', {})[cid_] = _decide(I.eval_spec(ctext_, penv))
            except (PyRaise, Unsupported, Exception) as e_:
                verdict.setdefault('more', {})[cid_] = 'not evaluable: %r' % (e_,)
        if clause is None:
            verdict['value'] = True
            return 'ok'
        t = I.eval_spec(clause, penv)
        verdict['value'] = t
        return 'ok'
    try:
        I.explore(evalclause)
    except (PyRaise, Unsupported, Exception) as e:
        info['why'] = 'clause could not be evaluated natively: %r' % (e,)
        return info
    val = verdict.get('value')
    info['values'] = verdict.get('more', {})
    import z3
    if not isinstance(val, bool):
        val = z3.simplify(val)
        if z3.is_true(val) or z3.is_false(val):
            val = z3.is_true(val)
        else:       # closed formula (e.g. quantified over a concrete set): decide it
            sv = z3.Solver()
            sv.set('timeout', 20000)
            sv.add(z3.Not(val))
            r = sv.check()
            val = True if r == z3.unsat else False if r == z3.sat else None
    info['clause'] = clause
    info['clause_value_on_real_result'] = val
    info['reproduced'] = (val is False)
    return info


def _decide(val):
    import z3
    if isinstance(val, bool):
        return val
    val = z3.simplify(val)
    if z3.is_true(val) or z3.is_false(val):
        return z3.is_true(val)
    sv = z3.Solver()
    sv.set('timeout', 5000)
    sv.add(z3.Not(val))
    r = sv.check()
    return True if r == z3.unsat else False if r == z3.sat else None


def _link_old(I, pre, post, seen=None):
    """make old(x) on a post-state object read the pre-state snapshot of the corresponding pre object."""
    seen = seen if seen is not None else set()
    if id(post) in seen:
        return
    seen.add(id(post))
    snap = I.old_snapshot
    if isinstance(pre, PyObj) and isinstance(post, PyObj):
        snap[id(post)] = dict(pre.attrs)
        for k, v in post.attrs.items():
            if k in pre.attrs:
                _link_old(I, pre.attrs[k], v, seen)
    elif isinstance(pre, PyList) and isinstance(post, PyList):
        snap[id(post)] = list(pre.items)
    elif isinstance(pre, PyDict) and isinstance(post, PyDict):
        snap[id(post)] = dict(pre.d)


HOSTILE_STRINGS = ['a\\nb', 'x{0}y', '{', 'a"b', "it's <b>&amp;", 'two words', '\\', '0', ' ']


REPLAY_BUDGET_S = float(os.environ.get('PYVC_REPLAY_BUDGET_S', '240'))
_replay_spent = [0.0]


def write_replay(pid, r, ob, contracts, repo):
    d = os.path.join(OUT, 'replays', pid)
    os.makedirs(d, exist_ok=True)
    safe = ''.join(ch if ch.isalnum() or ch in '._-' else '_' for ch in ob['name'])[:120]
    path = os.path.join(d, safe + '.json')
    rec = {'property': pid, 'obligation': ob['name'], 'case': ob.get('case'), 'function': '%s:%s' % (r.get('path'), r.get('qualname')),
           'clause': (ob.get('info') or {}).get('clause'), 'solver': ob.get('solver'), 'solver_verdict': 'sat (negated goal satisfiable)',
           'model_inputs': ob.get('inputs'), 'info': ob.get('info')}
    reproduced = False
    if r.get('bounded'):
        rec['bounded'] = True
        rec.update(ob.get('replay', {}))
        reproduced = bool(ob.get('reproduced', True))
    else:
        c = contracts[r['idx']]
        hook = getattr(c, 'replay_hook', None)
        import time as _time
        _t0 = _time.time()
        try:
            if _replay_spent[0] > REPLAY_BUDGET_S:
                # a change that breaks hundreds of obligations: the first ones were replayed natively, the rest are reported with the
                # solver's model only (the time budget for native replays of one run is spent)
                res = {'reproduced': False, 'why': 'native replay skipped: the replay budget of this run (%.0f s) is spent' % REPLAY_BUDGET_S}
                hook = 'skip'
            elif hook is not None:
                res = hook(ob, repo)
            else:
                res = native_replay(pid, c, ob, repo)
        except Exception as e:
            import traceback
            res = {'reproduced': False, 'why': 'replay machinery failed: %s' % traceback.format_exc()[-600:]}
        if not res.get('reproduced') and hook is None and any(isinstance(v, str) for v in (ob.get('inputs') or {}).values()):
            # the solver's strings are arbitrary (often empty); where string VALUES matter (escapes, braces, quotes)
            # look for a failing input among hostile texts before giving up
            for cand in HOSTILE_STRINGS:
                ob2 = dict(ob, inputs={k: (cand if isinstance(v, str) and not v.startswith('unrepresentable') else v)
                                       for k, v in ob['inputs'].items()})
                try:
                    res2 = native_replay(pid, c, ob2, repo)
                except Exception:
                    continue
                if res2.get('reproduced'):
                    res = dict(res2, witness_search='string inputs replaced by the hostile text %r' % cand)
                    rec['model_inputs'] = ob2['inputs']
                    break
        _replay_spent[0] += _time.time() - _t0
        rec['replay'] = res
        reproduced = bool(res.get('reproduced'))
    rec['reproduced'] = reproduced
    if not reproduced:
        rec['note'] = 'no-failing-input-found: the obligation failed in the verifier; solver model above'
    rec['rerun'] = './check %s --replay %s' % (pid, os.path.relpath(path, OUT))
    json.dump(rec, open(path, 'w'), indent=1, default=str)
    return os.path.relpath(path, OUT), reproduced


def rerun(path):
    """re-run a stored replay against the current /repo."""
    p = path if os.path.isabs(path) else os.path.join(VERIF, path)
    rec = json.load(open(p))
    from .runner import load_contracts, REPO
    cs = load_contracts()
    fnpath, qual = rec['function'].split(':', 1)
    cands = [c for c in cs if c.path == fnpath and c.qualname == qual and rec['obligation'].startswith(c.name + '::')]
    if not cands:
        print('no contract for', rec['function'])
        return 3
    ob = {'name': rec['obligation'], 'case': rec.get('case'), 'inputs': rec.get('model_inputs'), 'info': rec.get('info'),
          'kind': 'noexc' if rec['obligation'].endswith('no-exception-escapes') else 'post'}
    c = cands[0]
    hook = getattr(c, 'replay_hook', None)
    res = hook(ob, REPO) if hook else native_replay(rec['property'], c, ob, REPO)
    print(json.dumps(res, indent=1, default=str))
    if res.get('reproduced'):
        print('VIOLATION property=%s replay=%s' % (rec['property'], path))
        return 1
    print('not reproduced on the current tree')
    return 0


def run_scripts(repo, scripts, vars_=(), small_set=False, timeout=300):
    """compile + run scripts on the real code of `repo` (fake lights, fake clock); see tools/run_script.py"""
    with tempfile.TemporaryDirectory() as td:
        jp, op = os.path.join(td, 'job.json'), os.path.join(td, 'out.json')
        json.dump({'scripts': list(scripts), 'vars': list(vars_), 'small_set': small_set}, open(jp, 'w'))
        p = subprocess.run([PY_REAL, os.path.join(VERIF, 'tools', 'run_script.py'), repo, jp, op],
                           capture_output=True, text=True, timeout=timeout, cwd=repo)  # noqa
        if not os.path.exists(op):
            raise RuntimeError('run_script failed: ' + (p.stderr or '')[-800:])
        return json.load(open(op))
