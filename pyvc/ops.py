"""Arithmetic / comparison encodings (the 'R' model: Python float = exact real).

Python semantics encoded here and assumed elsewhere:
  * int is mathematical Int; float is an exact Real (no rounding, no inf/nan) in symbolic positions;
    concrete floats stay CPython floats until they meet a symbolic value, then become their exact rational.
  * bool is a subtype of int (True == 1).
  * a // b, a % b use floor semantics (sign of the divisor); round() is round-half-even;
    int(x) truncates toward zero; min/max keep Python's argument-order semantics.
"""
from fractions import Fraction
import z3
from .values import SymVal, CharStr

NUMK = ('int', 'real', 'bool')


def is_num(v):
    if isinstance(v, SymVal):
        return v.k in NUMK
    return isinstance(v, (int, float)) and not isinstance(v, complex)


def kind_of(v):
    if isinstance(v, SymVal):
        return v.k
    if isinstance(v, bool):
        return 'bool'
    if isinstance(v, int):
        return 'int'
    if isinstance(v, float):
        return 'real'
    if isinstance(v, str):
        return 'str'
    return None


def to_term(v, kind=None):
    """z3 term of a scalar value (native or SymVal). kind: desired numeric sort 'int'/'real'."""
    if isinstance(v, SymVal):
        t, k = v.t, v.k
    elif z3.is_expr(v):
        t = v
        k = 'int' if z3.is_int(v) else 'real' if z3.is_real(v) else 'bool' if z3.is_bool(v) else 'str'
    elif isinstance(v, bool):
        t, k = z3.BoolVal(v), 'bool'
    elif isinstance(v, int):
        t, k = z3.IntVal(v), 'int'
    elif isinstance(v, float):
        if v != v or v in (float('inf'), float('-inf')):
            raise ValueError('non-finite float in symbolic arithmetic')
        fr = Fraction(v)
        t, k = z3.RealVal(str(fr.numerator)) / z3.RealVal(str(fr.denominator)) if fr.denominator != 1 \
            else z3.RealVal(str(fr.numerator)), 'real'
        t = z3.simplify(t)
    elif isinstance(v, str):
        import re as _re
        if kind == 'int' and _re.fullmatch(r'a\d{8}', v):     # replayed atom (see replay.atom_str)
            return z3.IntVal(int(v[1:]) - 50000000)
        t, k = z3.StringVal(v), 'str'
    elif isinstance(v, Fraction):
        t, k = z3.simplify(z3.RealVal(str(v.numerator)) / z3.RealVal(str(v.denominator))), 'real'
    else:
        raise TypeError('no term for %r' % (v,))
    if kind is None or kind == k:
        return t
    if k == 'bool' and kind in ('int', 'real'):
        t = z3.If(t, z3.IntVal(1), z3.IntVal(0))
        k = 'int'
    if k == 'int' and kind == 'real':
        return z3.ToReal(t)
    if k == kind:
        return t
    if k == 'atom' and kind == 'int':
        return t
    raise TypeError('cannot convert %s term to %s' % (k, kind))


def num_kind(a, b=None):
    ka = kind_of(a)
    kb = kind_of(b) if b is not None else ka
    if 'real' in (ka, kb):
        return 'real'
    return 'int'


def floor_div_int(a, b):
    # floor division for z3 ints (z3 div is Euclidean: floor for positive divisor)
    return z3.If(b > 0, a / b, (-a) / (-b))


def floor_real(x):
    return z3.ToInt(x)     # z3 to_int is floor


def round_half_even(x):
    """Python round() of a real term -> int term."""
    f = z3.ToInt(x)
    d = x - z3.ToReal(f)
    half = z3.RealVal(1) / 2
    return z3.If(d < half, f, z3.If(d > half, f + 1, z3.If(f % 2 == 0, f, f + 1)))


def trunc_real(x):
    f = z3.ToInt(x)
    return z3.If(z3.Or(x >= 0, z3.ToReal(f) == x), f, f + 1)


def ceil_real(x):
    f = z3.ToInt(x)
    return z3.If(z3.ToReal(f) == x, f, f + 1)


_pow_fn = z3.Function('py_pow', z3.RealSort(), z3.RealSort(), z3.RealSort())


def mk(t, k):
    t = z3.simplify(t)
    if k == 'bool':
        if z3.is_true(t):
            return True
        if z3.is_false(t):
            return False
    elif k == 'int' and z3.is_int_value(t):
        return t.as_long()
    return SymVal(t, k)


def arith(interp, op, a, b):
    """op in + - * / // % ** on numbers, at least one symbolic."""
    k = num_kind(a, b)
    if op == '/':
        k = 'real'
    ta, tb = to_term(a, k), to_term(b, k)
    if op == '+':
        return mk(ta + tb, k)
    if op == '-':
        return mk(ta - tb, k)
    if op == '*':
        return mk(ta * tb, k)
    if op in ('/', '//', '%'):
        zero = tb == 0
        if not interp.spec_mode and interp.branch(zero, 'div-by-zero'):      # specs: total division (guard in the clause)
            interp.raise_builtin('ZeroDivisionError', 'division by zero')
        if op == '/':
            return mk(ta / tb, 'real')
        if k == 'int':
            q = floor_div_int(ta, tb)
            return mk(q if op == '//' else ta - tb * q, 'int')
        q = z3.ToReal(floor_real(ta / tb))
        return mk(q if op == '//' else ta - tb * q, 'real')
    if op == '**':
        if isinstance(b, int) and not isinstance(b, bool) and 0 <= b <= 8:
            r = to_term(1, k)
            for _ in range(b):
                r = r * ta
            return mk(r, k)
        return mk(_pow_fn(to_term(a, 'real'), to_term(b, 'real')), 'real')
    raise NotImplementedError(op)


def compare_num(op, a, b):
    k = num_kind(a, b)
    ta, tb = to_term(a, k), to_term(b, k)
    t = {'<': ta < tb, '<=': ta <= tb, '>': ta > tb, '>=': ta >= tb,
         '==': ta == tb, '!=': ta != tb}[op]
    return mk(t, 'bool')


def py_round(x):
    """round(x) with one argument."""
    if isinstance(x, SymVal):
        if x.k == 'real':
            return mk(round_half_even(x.t), 'int')
        if x.k == 'int':
            return x
        if x.k == 'bool':
            return mk(to_term(x, 'int'), 'int')
    raise TypeError('round of %r' % (x,))


def py_int(x):
    if isinstance(x, SymVal):
        if x.k == 'real':
            return mk(trunc_real(x.t), 'int')
        if x.k == 'int':
            return x
        if x.k == 'bool':
            return mk(to_term(x, 'int'), 'int')
    raise TypeError('int() of %r' % (x,))


def py_float(x):
    if isinstance(x, SymVal):
        if x.k == 'real':
            return x
        if x.k in ('int', 'bool'):
            return SymVal(z3.simplify(to_term(x, 'real')), 'real')
    raise TypeError('float() of %r' % (x,))


def model_value(model, v):
    """Concrete python value of a scalar under a z3 model (for replays / cross-check)."""
    if not isinstance(v, SymVal):
        return v
    r = model.eval(v.t, model_completion=True)
    return term_to_py(r, v.k)


def term_to_py(r, k):
    if k == 'bool':
        return z3.is_true(r)
    if k in ('int', 'atom'):
        return r.as_long()
    if k == 'real':
        if z3.is_int_value(r):
            return float(r.as_long())
        if z3.is_rational_value(r):
            return Fraction(r.numerator_as_long(), r.denominator_as_long())
        if z3.is_algebraic_value(r):
            a = r.approx(30)
            return Fraction(a.numerator_as_long(), a.denominator_as_long())
        raise ValueError('non-numeric model value %s' % r)
    if k == 'str':
        return r.as_string()
    raise ValueError(k)
