"""Models of Python builtins and of the stdlib / third-party modules the repo imports.

Everything here is part of the trusted base: it states how pyvc reads Python's built-in
semantics.  Pure-Python stdlib modules (colorsys) are NOT modelled: their source is read
and interpreted like repo code.
"""
import re
import z3

from .values import (SymVal, CharStr, PyObj, PyList, SymSeq, PyDict, SymMap, PySet, SymSet,
                     ClassObj, BuiltinClass, EnumMember, FuncObj, BoundMethod, StaticMethod,
                     PropertyObj, ModuleObj, Builtin, ExcObj, Opaque, Struct, _MISSING)
from . import ops
from .ops import to_term, mk, kind_of, is_num


def _interp_mod():
    from . import interp
    return interp


EXC_TREE = {
    'BaseException': None, 'Exception': 'BaseException', 'ArithmeticError': 'Exception',
    'ZeroDivisionError': 'ArithmeticError', 'OverflowError': 'ArithmeticError',
    'LookupError': 'Exception', 'KeyError': 'LookupError', 'IndexError': 'LookupError',
    'TypeError': 'Exception', 'ValueError': 'Exception', 'AttributeError': 'Exception',
    'NameError': 'Exception', 'AssertionError': 'Exception', 'StopIteration': 'Exception',
    'RuntimeError': 'Exception', 'OSError': 'Exception', 'FileNotFoundError': 'OSError',
    'NotImplementedError': 'RuntimeError', 'UnicodeError': 'ValueError',
    'SystemExit': 'BaseException', 'KeyboardInterrupt': 'BaseException', 'GeneratorExit': 'BaseException',
}


def exc_is_sub(name, base):
    while name is not None:
        if name == base:
            return True
        name = EXC_TREE.get(name)
    return False


def install(I):
    B = I.builtins
    for nm in ('int', 'float', 'str', 'bool', 'list', 'tuple', 'dict', 'set', 'object', 'super',
               'type', 'range', 'frozenset', 'bytes'):
        B[nm] = BuiltinClass(nm)
    for nm in EXC_TREE:
        B[nm] = BuiltinClass(nm)
    B['None'] = None
    B['True'] = True
    B['False'] = False

    def reg(name):
        def deco(f):
            B[name] = Builtin(name, f)
            return f
        return deco

    @reg('len')
    def _len(I, a, k):
        return py_len(I, a[0])

    @reg('round')
    def _round(I, a, k):
        x = a[0]
        if len(a) > 1 and a[1] is not None:
            if isinstance(x, (int, float)) and isinstance(a[1], int):
                return round(x, a[1])
            if a[1] == 0 and isinstance(a[1], int) and isinstance(x, SymVal) and x.k in ops.NUMK:
                # round(x, 0) keeps the type of x: a float stays a float (with an integral value)
                r = ops.py_round(x)
                return ops.py_float(r) if x.k == 'real' else r
            if isinstance(a[1], int) and not isinstance(a[1], bool) and 0 < a[1] <= 9 and isinstance(x, SymVal) and x.k == 'real':
                # round(x, n) = round-half-even(x * 10^n) / 10^n over the reals (floats treated as mathematical reals)
                scaled = I.binop('Mult', x, 10 ** a[1])
                return I.binop('Div', ops.py_float(ops.py_round(scaled)), 10 ** a[1])
            if isinstance(a[1], int) and not isinstance(a[1], bool) and a[1] > 0 and isinstance(x, SymVal) and x.k == 'int':
                return x
            raise _interp_mod().Unsupported('round with ndigits on symbolic value')
        if isinstance(x, (int, float)) and not isinstance(x, bool):
            try:
                return round(x)
            except (ValueError, OverflowError) as e:
                I.raise_builtin(type(e).__name__, str(e))
        if isinstance(x, bool):
            return int(x)
        if isinstance(x, SymVal) and x.k in ops.NUMK:
            return ops.py_round(x)
        I.raise_builtin('TypeError', "type %s doesn't define __round__ method" % I.typename(x))

    def minmax(is_min):
        def f(I, a, k):
            items = a if len(a) > 1 else I.iterate(a[0])
            if not items:
                I.raise_builtin('ValueError', 'empty sequence')
            best = items[0]
            for x in items[1:]:
                # python: min keeps first unless x < best; max keeps first unless x > best
                c = I.compare('Lt' if is_min else 'Gt', x, best)
                # scalar compared with a constant (a clamp): merge the two paths with ite;
                # two symbolic operands (max(r, g, b)): fork, which keeps each path's formula simple
                # (only when both have the same int/float kind: max(0, 0.0) is the int, and the kind shows when printed)
                if I.spec_mode or (is_num(x) and is_num(best) and not (isinstance(x, SymVal) and isinstance(best, SymVal))
                                   and (ops.num_kind(x) == ops.num_kind(best) or getattr(I, 'minmax_merge', False))):
                    ct = I.truth_term(c)
                    best = (x if ct else best) if isinstance(ct, bool) else I.ite(ct, x, best)
                elif I.truth(c):
                    best = x
            return best
        return f
    B['min'] = Builtin('min', minmax(True))
    B['max'] = Builtin('max', minmax(False))

    @reg('abs')
    def _abs(I, a, k):
        x = a[0]
        if isinstance(x, (int, float)):
            return abs(x)
        if isinstance(x, SymVal) and x.k in ('int', 'real'):
            return mk(z3.If(x.t >= 0, x.t, -x.t), x.k)
        I.raise_builtin('TypeError', 'bad operand type for abs()')

    @reg('isinstance')
    def _isinstance(I, a, k):
        return I.isinstance_(a[0], a[1])

    @reg('issubclass')
    def _issubclass(I, a, k):
        c, p = a
        if isinstance(p, tuple):
            return any(_issubclass(I, [c, x], {}) for x in p)
        if isinstance(c, ClassObj):
            return c.is_subclass(p)
        if isinstance(c, BuiltinClass) and isinstance(p, BuiltinClass):
            return c.name == p.name or exc_is_sub(c.name, p.name) or (c.name == 'bool' and p.name == 'int')
        return False

    @reg('hasattr')
    def _hasattr(I, a, k):
        if not isinstance(a[1], str):
            raise _interp_mod().Unsupported('hasattr with symbolic name')
        return I.hasattr_(a[0], a[1])

    @reg('getattr')
    def _getattr(I, a, k):
        if not isinstance(a[1], str):
            raise _interp_mod().Unsupported('getattr with symbolic name')
        r = I.getattr_or_missing(a[0], a[1])
        if r is _MISSING:
            if len(a) > 2:
                return a[2]
            I.raise_builtin('AttributeError', a[1])
        return r

    @reg('setattr')
    def _setattr(I, a, k):
        if not isinstance(a[1], str):
            raise _interp_mod().Unsupported('setattr with symbolic name')
        I.setattr_(a[0], a[1], a[2])

    @reg('id')
    def _id(I, a, k):
        return id(a[0])

    @reg('print')
    def _print(I, a, k):
        out = I.ghost.setdefault('Out', PyList()).items
        sep = k.get('sep', ' ')
        end = k.get('end', '\n')
        first = True
        for x in a:
            if not first and sep != '':
                out.append(sep)
            if isinstance(x, Struct) and x.tag == 'str.of':
                x = x.fields[0]     # the text of a value: recorded as the value
            out.append(x)           # stands for str(x)
            first = False
        if end != '':
            out.append(end)
        return None

    @reg('sorted')
    def _sorted(I, a, k):
        items = I.iterate(a[0])
        if all(isinstance(x, (int, float, str)) for x in items):
            return PyList(sorted(items))
        if len(items) <= 1:
            return PyList(items)
        if k.get('key') is not None or k.get('reverse'):
            raise _interp_mod().Unsupported('sorted() of symbolic items with key / reverse')
        if len(items) > 6:
            raise _interp_mod().Unsupported('sorted() of more than 6 symbolic items')
        out = []            # stable insertion sort, one fork per undecided comparison
        for x in items:
            pos = len(out)
            while pos > 0 and I.truth(I.compare('Lt', x, out[pos - 1])):
                pos -= 1
            out.insert(pos, x)
        return PyList(out)

    @reg('enumerate')
    def _enumerate(I, a, k):
        start = a[1] if len(a) > 1 else k.get('start', 0)
        return PyList([(i + start, x) for i, x in enumerate(I.iterate(a[0]))])

    @reg('zip')
    def _zip(I, a, k):
        return PyList(list(zip(*[I.iterate(x) for x in a])))

    @reg('iter')
    def _iter(I, a, k):
        M = _interp_mod()
        if isinstance(a[0], M._Iter):
            return a[0]
        return M._Iter(I.iterate(a[0]))

    @reg('next')
    def _next(I, a, k):
        M = _interp_mod()
        it = a[0]
        if isinstance(it, Opaque) and '__next__' in it.methods:
            return it.methods['__next__'](I, it, [], {})
        if not isinstance(it, M._Iter):
            I.raise_builtin('TypeError', 'object is not an iterator')
        if it.pos >= len(it.items):
            if len(a) > 1:
                return a[1]
            I.raise_builtin('StopIteration')
        it.pos += 1
        return it.items[it.pos - 1]

    @reg('sum')
    def _sum(I, a, k):
        tot = a[1] if len(a) > 1 else 0
        for x in I.iterate(a[0]):
            tot = I.binop('Add', tot, x)
        return tot

    @reg('any')
    def _any(I, a, k):
        if I.spec_mode:         # specifications never fork: a disjunction term
            ts = [I.truth_term(x) for x in I.iterate(a[0])]
            if any(t is True for t in ts):
                return True
            ts = [t for t in ts if t is not False]
            return mk(z3.Or(*ts), 'bool') if ts else False
        for x in I.iterate(a[0]):
            if I.truth(x):
                return True
        return False

    @reg('all')
    def _all(I, a, k):
        if I.spec_mode:
            ts = [I.truth_term(x) for x in I.iterate(a[0])]
            if any(t is False for t in ts):
                return False
            ts = [t for t in ts if t is not True]
            return mk(z3.And(*ts), 'bool') if ts else True
        for x in I.iterate(a[0]):
            if not I.truth(x):
                return False
        return True

    @reg('repr')
    def _repr(I, a, k):
        if isinstance(a[0], (int, float, str, type(None))):
            return repr(a[0])
        return I.opaque_str('repr')

    @reg('callable')
    def _callable(I, a, k):
        return isinstance(a[0], (FuncObj, BoundMethod, Builtin, ClassObj, BuiltinClass))

    @reg('open')
    def _open(I, a, k):
        f = I.ghost.get('open')
        if f is None:
            raise _interp_mod().Unsupported('open() without an external model')
        return f(I, a, k)

    def _property(I, a, k):
        return PropertyObj(a[0])
    B['property'] = Builtin('property', _property)
    B['staticmethod'] = Builtin('staticmethod', lambda I, a, k: StaticMethod(a[0]))
    B['classmethod'] = Builtin('classmethod', lambda I, a, k: (_ for _ in ()).throw(
        _interp_mod().Unsupported('classmethod')))
    B['__name__'] = '__pyvc__'

    install_modules(I)


# ---------------------------------------------------------------------------- len
def py_len(I, v):
    if isinstance(v, PyList):
        items = I.read_items(v)
        from .values import Segment
        segs = [x for x in items if isinstance(x, Segment)]
        if segs:
            return mk(z3.Sum([x.n for x in segs]) + (len(items) - len(segs)), 'int')
        return len(items)
    if isinstance(v, (tuple, str, range)):
        return len(v)
    if isinstance(v, PyDict):
        return len(I.read_dict(v))
    if isinstance(v, PySet):
        return len(v.s)
    if isinstance(v, CharStr):
        return len(v.chars)
    if isinstance(v, SymSeq):
        return mk(I.read_seq(v)[1], 'int')
    if isinstance(v, SymVal) and v.k == 'str':
        return mk(z3.Length(v.t), 'int')
    from .values import SymMat, SymRowRef
    if isinstance(v, SymMat):
        return mk(v.h, 'int')
    if isinstance(v, SymRowRef):
        return mk(v.mat.w, 'int')
    M = _interp_mod()
    if isinstance(v, M._DictView):
        return len(I.read_dict(v.d))
    if isinstance(v, PyObj):
        f = v.cls.lookup('__len__')
        if f is not _MISSING:
            return I.call(f, [v], {})
    if v is None or is_num(v) or isinstance(v, (PyObj, EnumMember)):
        I.raise_builtin('TypeError', "object of type '%s' has no len()" % I.typename(v))
    raise M.Unsupported('len of %r' % (v,))


# ---------------------------------------------------------------------------- isinstance
def isinstance_(I, v, cls):
    if isinstance(cls, BuiltinClass):
        n = cls.name
        if n == 'object':
            return True
        from .values import SymEnumVal as _SE
        if isinstance(v, _SE):
            return n == 'Enum'
        if isinstance(v, SymVal):
            return {'int': v.k in ('int', 'bool'), 'float': v.k == 'real', 'bool': v.k == 'bool',
                    'str': v.k in ('str', 'atom'), 'Number': v.k in ops.NUMK,
                    'Real': v.k in ops.NUMK, 'Integral': v.k in ('int', 'bool')}.get(n, False)
        if isinstance(v, CharStr):
            return n == 'str'
        if isinstance(v, bool):
            return n in ('bool', 'int', 'Number', 'Real', 'Integral')
        if isinstance(v, int):
            return n in ('int', 'Number', 'Real', 'Integral')
        if isinstance(v, float):
            return n in ('float', 'Number', 'Real')
        if isinstance(v, str):
            return n == 'str'
        if isinstance(v, tuple):
            return n == 'tuple'
        if isinstance(v, PyList):
            if n == 'list':
                return getattr(v, 'is_deque', False) is False
            if n == 'deque':
                return getattr(v, 'is_deque', False)
            return False
        if isinstance(v, SymSeq):
            return n == 'list'
        if isinstance(v, (PyDict, SymMap)):
            return n == 'dict'
        if isinstance(v, (PySet, SymSet)):
            return n == 'set'
        if isinstance(v, ExcObj):
            return exc_is_sub(v.cls.name, n)
        if isinstance(v, PyObj):
            if v.cls.builtin_base:
                return exc_is_sub(v.cls.builtin_base, n)
            return False
        if isinstance(v, EnumMember):
            return n == 'Enum'
        if isinstance(v, Opaque):
            return any(isinstance(c, BuiltinClass) and c.name == n for c in v.classes)
        if isinstance(v, (ClassObj, BuiltinClass)):
            return n == 'type'
        return False
    if isinstance(cls, ClassObj):
        from .values import SymEnumVal
        if isinstance(v, SymEnumVal):
            return v.cls.is_subclass(cls)
        if isinstance(v, PyObj):
            return v.cls.is_subclass(cls)
        if isinstance(v, PyList) and v.cls is not None:
            return v.cls.is_subclass(cls)
        if isinstance(v, EnumMember):
            return v.cls.is_subclass(cls)
        if isinstance(v, Opaque):
            return any(isinstance(c, ClassObj) and c.is_subclass(cls) for c in v.classes)
        return False
    raise _interp_mod().Unsupported('isinstance against %r' % (cls,))


# ---------------------------------------------------------------------------- builtin class calls
def call_builtin_class(I, cls, a, k):
    M = _interp_mod()
    n = cls.name
    if n in EXC_TREE:
        return ExcObj(cls, tuple(a))
    if n == 'int':
        if not a:
            return 0
        x = a[0]
        if isinstance(x, SymVal):
            if x.k in ops.NUMK:
                return ops.py_int(x)
            raise M.Unsupported('int() of abstract string')
        if isinstance(x, CharStr):
            return charstr_to_int(I, x)
        if x is None or isinstance(x, (PyObj, PyList, PyDict, EnumMember)):
            I.raise_builtin('TypeError', "int() argument must be a string or a number, not '%s'" % I.typename(x))
        try:
            return int(*a)
        except (ValueError, TypeError, OverflowError) as e:
            I.raise_builtin(type(e).__name__, str(e))
    if n == 'float':
        if not a:
            return 0.0
        x = a[0]
        if isinstance(x, SymVal):
            if x.k in ops.NUMK:
                return ops.py_float(x)
            raise M.Unsupported('float() of abstract string')
        if x is None or isinstance(x, (PyObj, PyList, PyDict, EnumMember)):
            I.raise_builtin('TypeError', "float() argument must be a string or a real number, not '%s'" % I.typename(x))
        try:
            return float(x)
        except (ValueError, TypeError, OverflowError) as e:
            I.raise_builtin(type(e).__name__, str(e))
    if n == 'bool':
        if not a:
            return False
        t = I.truth_term(a[0])
        return t if isinstance(t, bool) else mk(t, 'bool')
    if n == 'str':
        if not a:
            return ''
        x = a[0]
        if isinstance(x, str):
            return x
        if isinstance(x, (int, float, type(None))):
            return str(x)
        if isinstance(x, SymVal) and x.k in ('str', 'atom'):
            return x
        if isinstance(x, CharStr):
            return x
        if isinstance(x, PyObj):
            f = x.cls.lookup('__str__')
            if f is not _MISSING:
                return I.call(f, [x], {})
            f = x.cls.lookup('__repr__')
            if f is not _MISSING:
                return I.call(f, [x], {})
        if isinstance(x, EnumMember):
            return '%s.%s' % (x.cls.name, x.name)
        return str_of(I, x)
    if n == 'list':
        if not a:
            return PyList()
        if isinstance(a[0], SymSeq):
            return SymSeq(a[0].arr, a[0].n, a[0].ek)
        if isinstance(a[0], PyList):
            return PyList(list(I.read_items(a[0])))     # copy (abstract segments are immutable values)
        return PyList(I.iterate(a[0]))
    if n == 'tuple':
        return tuple(I.iterate(a[0])) if a else ()
    if n == 'dict':
        d = PyDict()
        if a:
            src = a[0]
            if isinstance(src, PyDict):
                for kk in src.d:
                    d.d[kk] = src.d[kk]
            else:
                for pair in I.iterate(src):
                    kk, vv = I.iterate(pair)
                    I.dict_set(d, kk, vv)
        for kk, vv in k.items():
            d.d[kk] = vv
        return d
    if n in ('set', 'frozenset'):
        s = PySet()
        if a:
            if isinstance(a[0], SymSet):
                return SymSet(a[0].m)
            items = I.iterate(a[0])
            if any(isinstance(x, SymVal) for x in items):
                ss = SymSet(z3.K(z3.IntSort(), z3.BoolVal(False)))
                for x in items:
                    set_add(I, ss, x)
                return ss
            for x in items:
                set_add(I, s, x)
        return s
    if n == 'range':
        if all(isinstance(x, int) for x in a):
            return range(*a)
        if len(a) <= 2:
            start = a[0] if len(a) == 2 else 0
            stop = a[-1]
            for x in (start, stop):
                if not (isinstance(x, int) or (isinstance(x, SymVal) and x.k in ('int', 'bool'))):
                    I.raise_builtin('TypeError', "'%s' object cannot be interpreted as an integer" % I.typename(x))
            return M._SymRange(to_term(start, 'int'), to_term(stop, 'int'))
        raise M.Unsupported('symbolic range with step')
    if n == 'object':
        return PyObj(ClassObj('object', [], None))
    if n == 'type':
        v = a[0]
        if isinstance(v, (PyObj,)):
            return v.cls
        if isinstance(v, PyList) and v.cls is not None:
            return v.cls
        if isinstance(v, EnumMember):
            return v.cls
        if isinstance(v, ExcObj):
            return v.cls
        for nm, py in (('bool', bool), ('int', int), ('float', float), ('str', str), ('tuple', tuple)):
            if type(v) is py:
                return I.builtins[nm]
        if isinstance(v, SymVal):
            return I.builtins[{'int': 'int', 'real': 'float', 'bool': 'bool', 'str': 'str', 'atom': 'str'}[v.k]]
        if isinstance(v, PyList):
            return I.builtins['list']
        if isinstance(v, PyDict):
            return I.builtins['dict']
        if isinstance(v, Opaque):
            # the class of an external object: some class object, the same one at every call (nothing is known about it)
            t = getattr(v, '_type_object', None)
            if t is None:
                t = v._type_object = Opaque('type of ' + getattr(v, 'name', 'object'))
            return t
        raise M.Unsupported('type() of %r' % (v,))
    if n == 'deque':
        l = PyList(I.iterate(a[0]) if a and a[0] is not None else [])
        l.is_deque = True
        ml = k.get('maxlen', a[1] if len(a) > 1 else None)
        if ml is not None:
            if not isinstance(ml, int):
                raise M.Unsupported('deque with symbolic maxlen')
            l.maxlen = ml
        return l
    raise M.Unsupported('call of builtin class %s' % n)


def str_of(I, x):
    """str(x): the text of a number / truth value is kept as a structure over the value (so that what is printed can still be
    compared with it), a string built by an uninterpreted str function is a string already; anything else is some string."""
    from .values import Struct
    if isinstance(x, Struct) and x.tag.startswith('str.'):
        return x
    if isinstance(x, SymVal) and x.k in ('int', 'real', 'bool'):
        return Struct('str.of', (x,))
    return I.opaque_str('str')


_NUM_TEXT = set('0123456789.-+einfa')        # characters the text of an int / float can contain


def _struct_bool_method(I, obj, name, a):
    """a truth-valued str method on a structured string: decided where the structure decides it, else one (fixed) unknown
    truth value per (string, method, arguments)"""
    if obj.tag == 'str.of' and name in ('endswith', 'startswith') and len(a) == 1 and isinstance(a[0], str) and a[0]:
        v = obj.fields[0]
        alphabet = set('TrueFals') if v.k == 'bool' else _NUM_TEXT
        if any(ch not in alphabet for ch in a[0]):
            return False
    if obj.tag == 'str.format' and isinstance(obj.fields[0], str) and name == 'endswith' and len(a) == 1 and isinstance(a[0], str):
        # the literal text after the last replacement field is the end of the result whatever the fields produce
        import string as _string
        try:
            parts = list(_string.Formatter().parse(obj.fields[0]))
        except ValueError:
            parts = None
        if parts:
            if parts[-1][1] is None:                   # ends in literal text
                tail = parts[-1][0]
                if len(tail) >= len(a[0]):
                    return tail.endswith(a[0])
                if not a[0].endswith(tail):
                    return False
            elif a[0]:
                # ends in a replacement field: the text of a number (padded at most with blanks, zeros or a % sign) ends in
                # one of those characters
                fname, fspec, conv = parts[-1][1], parts[-1][2] or '', parts[-1][3]
                base = fname.split('.')[0].split('[')[0]
                arg = None
                if base == fname:
                    if base == '':
                        n_auto = sum(1 for p_ in parts if p_[1] == '')
                        arg = obj.fields[1][n_auto - 1] if n_auto - 1 < len(obj.fields[1]) else None
                    elif base.isdecimal():
                        arg = obj.fields[1][int(base)] if int(base) < len(obj.fields[1]) else None
                    else:
                        arg = dict(obj.fields[2]).get(base)
                numeric = (isinstance(arg, SymVal) and arg.k in ('int', 'real')) or (isinstance(arg, (int, float)) and not isinstance(arg, bool))
                if numeric and conv is None and all(ch in '<>^=+- #0123456789.,_dfFeEgGxXobn%' for ch in fspec) \
                        and a[0][-1] not in _NUM_TEXT | set(' 0%abcdefABCDEFxXob'):
                    return False
    key = ('struct-bool', repr(obj), name, repr(tuple(a)))
    memo = I.ghost.setdefault('struct_bool_memo', {})
    if key not in memo:
        memo[key] = I.fresh('bool', name)
    return memo[key]


def charstr_to_int(I, s):
    """int(s) for a CharStr: every char must be a decimal digit (else ValueError)."""
    if not s.chars:
        I.raise_builtin('ValueError', 'invalid literal for int()')
    val = z3.IntVal(0)
    for c in s.chars:
        ct = c if z3.is_expr(c) else z3.IntVal(c)
        if not I.branch(z3.And(ct >= 48, ct <= 57), 'digit'):
            I.raise_builtin('ValueError', 'invalid literal for int()')
        val = val * 10 + (ct - 48)
    return mk(val, 'int')


def to_symset(s):
    """concrete set of ints as a z3 Array(Int -> Bool)."""
    if isinstance(s, SymSet):
        return s.m
    m = z3.K(z3.IntSort(), z3.BoolVal(False))
    for x in sorted(s.s):
        if not isinstance(x, int):
            raise _interp_mod().Unsupported('symbolic set of non-integers')
        m = z3.Store(m, x, True)
    return m


def promote_set(s):
    """turn a concrete set object into a symbolic one in place (identity and aliases preserved)."""
    if isinstance(s, PySet):
        m = to_symset(s)
        s.__class__ = SymSet
        s.m = m
    return s


def set_add(I, s, x):
    if isinstance(s, PySet) and isinstance(x, SymVal):
        promote_set(s)
    if isinstance(s, SymSet):
        s.m = z3.Store(s.m, to_term(x, 'int'), True)
        return
    s.s.add(x)


# ---------------------------------------------------------------------------- attributes of builtin values
def builtin_attr(I, obj, name):
    M = _interp_mod()

    def meth(f):
        return Builtin(name, lambda I_, a, k: f(*a, **k))

    if isinstance(obj, PyList):
        if obj.cls is not None:
            v = obj.cls.lookup(name)
            if v is not _MISSING:
                return I.bind(v, obj)
        L = obj
        if name in ('append', 'appendleft') and getattr(L, 'maxlen', None) is not None:
            def bounded_append(x, left=(name == 'appendleft')):
                from .values import Segment as _Seg
                n_ = py_len(I, L)
                full = I.truth(I.compare('GtE', n_, L.maxlen))
                if full:            # a full bounded deque discards an item from the opposite end
                    if any(isinstance(y, _Seg) for y in L.items):
                        I.seg_pop(L, left=not left)
                    elif L.items:
                        L.items.pop(-1 if left else 0)
                if left:
                    L.items.insert(0, x)
                else:
                    L.items.append(x)
            return meth(bounded_append)
        if name == 'append':
            return meth(lambda x: L.items.append(x))
        if name == 'appendleft':
            return meth(lambda x: L.items.insert(0, x))
        if name == 'extend':
            return meth(lambda xs: L.items.extend(list(I.read_items(xs)) if isinstance(xs, PyList) else I.iterate(xs)))
        from .values import Segment
        has_seg = any(isinstance(x, Segment) for x in L.items)
        if name == 'pop':
            def pop(i=-1):
                if has_seg and i in (-1, 0):
                    return I.seg_pop(L, left=(i == 0))
                if not L.items:
                    I.raise_builtin('IndexError', 'pop from empty list')
                return L.items.pop(I.norm_index(i, len(L.items)))
            return meth(pop)
        if name == 'popleft':
            def popleft():
                if has_seg:
                    return I.seg_pop(L, left=True)
                if not L.items:
                    I.raise_builtin('IndexError', 'pop from an empty deque')
                return L.items.pop(0)
            return meth(popleft)
        if name == 'clear':
            return meth(lambda: L.items.clear())
        if name == 'copy':
            return meth(lambda: PyList(list(I.read_items(L))))
        if name == 'insert':
            def insert(i, x):
                if not isinstance(i, int):
                    raise M.Unsupported('insert at symbolic index')
                L.items.insert(i, x)
            return meth(insert)
        if name == 'remove':
            def remove(x):
                for j, it in enumerate(L.items):
                    if I.truth(I.identical_or_equal(it, x)):
                        del L.items[j]
                        return None
                I.raise_builtin('ValueError', 'list.remove(x): x not in list')
            return meth(remove)
        if name == 'index':
            def index(x):
                for j, it in enumerate(L.items):
                    if I.truth(I.identical_or_equal(it, x)):
                        return j
                I.raise_builtin('ValueError', 'x not in list')
            return meth(index)
        if name == 'reverse':
            return meth(lambda: L.items.reverse())
        if name == 'count':
            return meth(lambda x: sum(1 for it in L.items if I.truth(I.identical_or_equal(it, x))))
        return _MISSING
    if isinstance(obj, SymSeq):
        if obj.cls is not None:
            v = obj.cls.lookup(name)
            if v is not _MISSING:
                return I.bind(v, obj)
        S = obj
        if name == 'append':
            def append(x):
                S.arr = z3.Store(S.arr, S.n, to_term(x))
                S.n = z3.simplify(S.n + 1)
            return meth(append)
        if name == 'clear':
            def clear():
                S.n = z3.IntVal(0)
            return meth(clear)
        if name == 'insert':
            def insert(i, x):
                # list.insert: a negative index counts from the end, and the position is clamped to 0..len
                it = to_term(i, 'int')
                pt = z3.If(it < 0, z3.If(S.n + it < 0, z3.IntVal(0), S.n + it), z3.If(it > S.n, S.n, it))
                I.fresh_n += 1
                kq = z3.Int('k!insert%d' % I.fresh_n)
                old = S.arr
                S.arr = z3.Lambda([kq], z3.If(kq < pt, z3.Select(old, kq),
                                              z3.If(kq == pt, to_term(x), z3.Select(old, kq - 1))))
                S.n = z3.simplify(S.n + 1)
            return meth(insert)
        if name == 'copy':
            return meth(lambda: SymSeq(S.arr, S.n, S.ek))
        return _MISSING
    if isinstance(obj, PyDict):
        D = obj
        if name == 'get':
            return meth(lambda kx, d=None: I.dict_get(D, kx, d))
        if name == 'items':
            return meth(lambda: M._DictView(D, 'items'))
        if name == 'keys':
            return meth(lambda: M._DictView(D, 'keys'))
        if name == 'values':
            return meth(lambda: M._DictView(D, 'values'))
        if name == 'clear':
            return meth(lambda: D.d.clear())
        if name == 'copy':
            return meth(lambda: PyDict(dict(I.read_dict(D))))
        if name == 'pop':
            def pop(kx, *d):
                kk = I.dict_find(D, kx)
                if kk is _MISSING:
                    if d:
                        return d[0]
                    I.raise_builtin('KeyError', kx)
                return D.d.pop(kk)
            return meth(pop)
        if name == 'update':
            def update(other=None, **kw):
                if isinstance(other, PyDict):
                    for kk in list(other.d):
                        I.dict_set(D, kk, other.d[kk])
                elif other is not None:
                    for pair in I.iterate(other):
                        kk, vv = I.iterate(pair)
                        I.dict_set(D, kk, vv)
                for kk, vv in kw.items():
                    D.d[kk] = vv
            return meth(update)
        if name == 'setdefault':
            def setdefault(kx, d=None):
                kk = I.dict_find(D, kx)
                if kk is _MISSING:
                    I.dict_set(D, kx, d)
                    return d
                return D.d[kk]
            return meth(setdefault)
        return _MISSING
    if isinstance(obj, M._DictView):
        return _MISSING
    if isinstance(obj, (PySet, SymSet)):
        S = obj
        if name == 'add':
            return meth(lambda x: set_add(I, S, x))
        if name == 'copy':
            return meth(lambda: PySet(set(S.s)) if isinstance(S, PySet) else SymSet(S.m))
        if name == 'update':
            def update(other):
                if isinstance(S, PySet) and isinstance(other, PySet):
                    S.s.update(other.s)
                elif isinstance(S, SymSet) and isinstance(other, (SymSet, PySet)):
                    kq = z3.Int('k!upd')
                    S.m = z3.Lambda([kq], z3.Or(z3.Select(S.m, kq), z3.Select(to_symset(other), kq)))
                elif isinstance(S, PySet) and isinstance(other, SymSet):
                    promote_set(S)
                    kq = z3.Int('k!upd')
                    S.m = z3.Lambda([kq], z3.Or(z3.Select(S.m, kq), z3.Select(other.m, kq)))
                elif isinstance(S, PySet):
                    for x in I.iterate(other):
                        set_add(I, S, x)
                else:
                    raise M.Unsupported('set update mix')
            return meth(update)
        if name == 'discard':
            return meth(lambda x: S.s.discard(x))
        if name == 'clear':
            return meth(lambda: S.s.clear())
        if name == 'union':
            def union(other):
                if isinstance(S, PySet) and isinstance(other, PySet):
                    return PySet(S.s | other.s)
                if isinstance(S, SymSet) and isinstance(other, SymSet):
                    kq = z3.Int('k!uni')
                    return SymSet(z3.Lambda([kq], z3.Or(z3.Select(S.m, kq), z3.Select(other.m, kq))))
                raise M.Unsupported('set union mix')
            return meth(union)
        return _MISSING
    if isinstance(obj, CharStr):
        C = obj
        if name in ('isdigit', 'isdecimal'):
            def isdigit():
                if not C.chars:
                    return False
                ts = []
                for c in C.chars:
                    ct = c if z3.is_expr(c) else z3.IntVal(c)
                    ts.append(z3.And(ct >= 48, ct <= 57))
                return mk(z3.And(*ts), 'bool')
            return meth(isdigit)
        if name == 'format':
            return meth(lambda *a, **k: I.opaque_str('fmt'))
        return _MISSING
    if isinstance(obj, str):
        S = obj
        if name == 'format':
            def fmt(*a, **k):
                if all(M._native(x) for x in a) and all(M._native(x) for x in k.values()):
                    try:
                        return S.format(*a, **k)
                    except (ValueError, IndexError, KeyError, TypeError) as e:
                        I.raise_builtin(type(e).__name__, str(e))
                return format_symbolic(I, S, a, k)
            return meth(fmt)
        if name == 'join':
            def join(xs):
                items = I.iterate(xs)
                if all(isinstance(x, str) for x in items):
                    return S.join(items)
                return I.opaque_str('join')
            return meth(join)
        if hasattr(S, name):
            real = getattr(S, name)
            def nat(*a, **k):
                if all(M._native(x) for x in a):
                    return I.native_call(real, a, k)
                raise M.Unsupported('str.%s with symbolic argument' % name)
            return meth(nat)
        return _MISSING
    from .values import SymNameOf, Struct
    if isinstance(obj, Struct) and obj.tag.startswith('str.') and hasattr(str, name) and not name.startswith('__'):
        # a string built by an uninterpreted str function: its methods are uninterpreted functions of it too
        def smeth(*a, **k):
            if name == 'format':
                _format_may_raise(I)
            if name in ('endswith', 'startswith', 'isdecimal', 'isdigit', 'isalpha', 'isalnum', 'isspace', 'isupper', 'islower', 'isidentifier', 'isnumeric'):
                return _struct_bool_method(I, obj, name, a)
            return Struct('str.' + name, (obj, tuple(a), tuple(sorted(k.items(), key=lambda kv: kv[0]))))
        return meth(smeth)
    if isinstance(obj, SymNameOf) and name == 'lower':
        fn = z3.Function('str_lower', z3.StringSort(), z3.StringSort())
        return meth(lambda: SymNameOf(fn(obj.t), obj.src, True))
    if isinstance(obj, SymVal):
        if obj.k == 'atom' and name in ('lower', 'upper', 'title', 'strip', 'lstrip', 'rstrip', 'casefold', 'capitalize'):
            # an atom stands for a name; a str -> str method of it is some (other) name: uninterpreted atom -> atom
            afn = z3.Function('atom_' + name, z3.IntSort(), z3.IntSort())
            return meth(lambda *a: SymVal(afn(obj.t), 'atom'))
        if obj.k in ('str', 'atom'):
            if name in ('format', 'lower', 'upper', 'title', 'replace', 'strip', 'ljust', 'rjust'):
                fn = z3.Function('str_' + name, z3.StringSort(), z3.StringSort())
                if obj.k == 'str' and name in ('lower', 'upper', 'title', 'strip'):
                    return meth(lambda *a: SymVal(fn(obj.t), 'str'))
                if name == 'format':
                    def sfmt(*a, **k):
                        _format_may_raise(I)
                        return I.opaque_str(name)
                    return meth(sfmt)
                return meth(lambda *a, **k: I.opaque_str(name))
            if name in ('isdecimal', 'isdigit'):
                return meth(lambda: I.fresh('bool', name))
            if obj.k == 'str' and name in ('endswith', 'startswith') :
                def ends(x, _n=name):
                    if not (isinstance(x, str) or (isinstance(x, SymVal) and x.k == 'str')):
                        raise M.Unsupported('str.%s of a non-string argument' % _n)
                    xt = to_term(x, 'str')
                    return mk(z3.SuffixOf(xt, obj.t) if _n == 'endswith' else z3.PrefixOf(xt, obj.t), 'bool')
                return meth(ends)
            if name == 'find':
                return meth(lambda *a: I.fresh('int', 'find'))
        if obj.k == 'real' and name == 'is_integer':
            return meth(lambda: mk(z3.ToReal(z3.ToInt(obj.t)) == obj.t, 'bool'))
        return _MISSING
    if isinstance(obj, (int, float)) and not isinstance(obj, bool):
        if name == 'is_integer':
            return meth(lambda: float(obj).is_integer())
        return _MISSING
    if isinstance(obj, tuple):
        if name == 'index':
            return meth(lambda x: obj.index(x))
        if name == 'count':
            return meth(lambda x: obj.count(x))
        return _MISSING
    if isinstance(obj, (re.Pattern, re.Match)):
        if hasattr(obj, name):
            real = getattr(obj, name)
            if callable(real):
                def nat(*a, **k):
                    if all(M._native(x) for x in a):
                        return I.native_call(real, a, k)
                    pred = I.ghost.get('regex_pred')
                    if pred is not None and name == 'match' and isinstance(obj, re.Pattern):
                        # the pattern's language is the regex engine's business: an uninterpreted predicate of the string
                        return Opaque('match') if I.truth(pred(obj, a[0])) else None
                    raise M.Unsupported('regex %s on a symbolic string' % name)
                return meth(nat)
            return real
        return _MISSING
    if isinstance(obj, BuiltinClass):
        if obj.name == 'dict' and name == 'fromkeys':
            return meth(lambda ks, v=None: PyDict({kx: v for kx in I.iterate(ks)}))
        return _MISSING
    if obj is None:
        return _MISSING
    if isinstance(obj, range):
        return _MISSING
    return _MISSING


def _format_may_raise(I):
    """str.format on a format string that is not a literal of the program (it came from data): its braces are not
    under the program's control, so the call may raise ValueError / KeyError / IndexError"""
    if I.spec_mode:
        return
    if I.branch(I.fresh('bool', 'format_string_is_malformed').t, 'format-raises'):
        I.raise_builtin('ValueError', 'format string built from data: unmatched or unexpected brace')


def format_symbolic(I, fmt, a, k):
    """str.format with symbolic arguments.  Exact for '{:02d}' on ints 0..99 (as CharStr); else opaque."""
    if fmt == '{:02d}' and len(a) == 1 and isinstance(a[0], SymVal) and a[0].k == 'int':
        n = a[0].t
        lo = I.branch(z3.And(n >= 0, n <= 99), 'fmt02d-range')
        if lo:
            return CharStr([z3.simplify(48 + n / 10), z3.simplify(48 + n % 10)])
        raise _interp_mod().Unsupported("'{:02d}'.format outside 0..99")
    from .values import Struct
    # integer presentation types reject floats (and 'f'/'e'/'g' reject strings): the one part of str.format that is decided
    # by the KIND of an argument, so it is modelled; the text produced stays uninterpreted
    try:
        import string as _string
        auto = 0
        for _lit, fname, spec, _conv in _string.Formatter().parse(fmt):
            if fname is None:
                continue
            base = fname.split('.')[0].split('[')[0]
            if base == '':
                arg = a[auto] if auto < len(a) else None
                auto += 1
            elif base.isdecimal():
                arg = a[int(base)] if int(base) < len(a) else None
            else:
                arg = k.get(base)
            if spec and spec[-1] in 'dxXobc' and (kind_of(arg) == 'real'):
                I.raise_builtin('ValueError', "Unknown format code '%s' for object of type 'float'" % spec[-1])
            if spec and spec[-1] in 'dxXobcfFeEgG%' and kind_of(arg) == 'str' and not isinstance(arg, Struct):
                I.raise_builtin('ValueError', "Unknown format code '%s' for object of type 'str'" % spec[-1])
    except ValueError as e:
        # a format string that str.format itself rejects (a single brace, ...) raises whatever the arguments are
        I.raise_builtin('ValueError', str(e))
    except IndexError:
        pass
    # str.format is the specification itself: an uninterpreted, deterministic function of its arguments
    return Struct('str.format', (fmt, tuple(a), tuple(sorted(k.items(), key=lambda kv: kv[0]))))


# ---------------------------------------------------------------------------- modules
def install_modules(I):
    M = _interp_mod()
    E = I.ext_modules

    def module(name, **ns):
        m = ModuleObj(name)
        m.ns.update(ns)
        E[name] = m
        return m

    # functools
    def wraps(I_, a, k):
        src = a[0]

        def deco(I2, a2, k2):
            f = a2[0]
            if isinstance(f, FuncObj) and isinstance(src, FuncObj):
                f.attrs.update(src.attrs)
                f.wrapped = src
                f.attrs['__wrapped__'] = src
            return f
        return Builtin('wraps.deco', deco)
    module('functools', wraps=Builtin('wraps', wraps))

    # itertools (concrete iterables)
    def it_product(I_, a, k):
        import itertools as _it
        pools = [I_.iterate(x) for x in a] * int(k.get('repeat', 1))
        return PyList([tuple(t) for t in _it.product(*pools)])

    def it_chain(I_, a, k):
        out = []
        for x in a:
            out.extend(I_.iterate(x))
        return PyList(out)
    module('itertools', product=Builtin('itertools.product', it_product), chain=Builtin('itertools.chain', it_chain))

    # enum
    def auto(I_, a, k):
        I_._enum_counter += 1
        return M._AutoVal(I_._enum_counter)
    module('enum', Enum=BuiltinClass('Enum'), auto=Builtin('auto', auto))

    # logging: arguments evaluated by the caller; call is a no-op that appends to the ghost log
    def logfn(level):
        def f(I_, a, k):
            I_.log.append((level, tuple(a)))
            return None
        return Builtin('logging.' + level, f)
    module('logging', debug=logfn('debug'), info=logfn('info'), warning=logfn('warning'),
           error=logfn('error'), critical=logfn('critical'), exception=logfn('error'),
           basicConfig=Builtin('basicConfig', lambda I_, a, k: I_.ghost.setdefault('logging_config', PyList()).items.append(PyDict(dict(k)))),
           DEBUG=10, INFO=20, WARNING=30, ERROR=40,
           getLogger=Builtin('getLogger', lambda I_, a, k: Opaque('logger', {
               lv: (lambda I2, o, a2, k2, lv=lv: I2.log.append((lv, tuple(a2)))) for lv in
               ('debug', 'info', 'warning', 'error')})))

    # numbers
    module('numbers', Number=BuiltinClass('Number'), Real=BuiltinClass('Real'), Integral=BuiltinClass('Integral'))

    # operator
    def opfn(name, cmp=None):
        def f(I_, a, k):
            if cmp:
                return I_.compare(cmp, a[0], a[1])
            return I_.binop(name, a[0], a[1])
        return Builtin('operator.' + (cmp or name), f)
    module('operator', add=opfn('Add'), sub=opfn('Sub'), mul=opfn('Mult'), truediv=opfn('Div'),
           mod=opfn('Mod'), pow=opfn('Pow'), floordiv=opfn('FloorDiv'),
           __eq__=opfn(None, 'Eq'), eq=opfn(None, 'Eq'), ne=opfn(None, 'NotEq'), gt=opfn(None, 'Gt'),
           ge=opfn(None, 'GtE'), lt=opfn(None, 'Lt'), le=opfn(None, 'LtE'),
           is_=Builtin('operator.is_', lambda I_, a, k: I_.compare('Is', a[0], a[1])),
           is_not=Builtin('operator.is_not', lambda I_, a, k: I_.compare('IsNot', a[0], a[1])),
           not_=Builtin('operator.not_', lambda I_, a, k: I_.unop('Not', a[0]) if hasattr(I_, 'unop') else (not I_.truth(a[0]))))

    # math
    def mathfn(name, sym=None):
        import math

        def f(I_, a, k):
            x = a[0]
            if all(isinstance(v, (int, float)) for v in a):
                return I_.native_call(getattr(math, name), a, k)
            if sym is None:
                fn = z3.Function('math_' + name, z3.RealSort(), z3.RealSort())
                return SymVal(fn(to_term(x, 'real')), 'real')
            return sym(I_, *a)
        return Builtin('math.' + name, f)

    def m_trunc(I_, x):
        return ops.py_int(x)

    def m_floor(I_, x):
        return mk(z3.ToInt(to_term(x, 'real')), 'int') if kind_of(x) == 'real' else ops.py_int(x)

    def m_ceil(I_, x):
        return mk(ops.ceil_real(to_term(x, 'real')), 'int') if kind_of(x) == 'real' else ops.py_int(x)

    def m_sqrt(I_, x):
        t = to_term(x, 'real')
        if I_.branch(t < 0, 'sqrt-domain'):
            I_.raise_builtin('ValueError', 'math domain error')
        r = I_.fresh('real', 'sqrt')
        I_.assume(z3.And(r.t >= 0, r.t * r.t == t))
        return r

    def m_fmod(I_, a, k):
        # C fmod: x - y * trunc(x / y), the result has the sign of x
        x, y = a
        if all(isinstance(v, (int, float)) for v in (x, y)):
            import math as _mm
            try:
                return _mm.fmod(x, y)
            except ValueError as e:
                I_.raise_builtin('ValueError', str(e))
        tx, ty = to_term(x, 'real'), to_term(y, 'real')
        if I_.branch(ty == 0, 'fmod-domain'):
            I_.raise_builtin('ValueError', 'math domain error')
        return mk(tx - ty * z3.ToReal(ops.trunc_real(tx / ty)), 'real')

    import math as _m
    module('math', fmod=Builtin('math.fmod', m_fmod), trunc=mathfn('trunc', m_trunc), floor=mathfn('floor', m_floor), ceil=mathfn('ceil', m_ceil),
           sqrt=mathfn('sqrt', m_sqrt), sin=mathfn('sin'), cos=mathfn('cos'), tan=mathfn('tan'),
           asin=mathfn('asin'), acos=mathfn('acos'), atan=mathfn('atan'),
           radians=mathfn('radians', lambda I_, x: mk(to_term(x, 'real') * to_term(_m.pi / 180.0, 'real'), 'real')),
           degrees=mathfn('degrees', lambda I_, x: mk(to_term(x, 'real') * to_term(180.0 / _m.pi, 'real'), 'real')),
           pi=_m.pi)

    # re: real engine on concrete strings only
    module('re', compile=Builtin('re.compile', lambda I_, a, k: I_.native_call(re.compile, a, k)),
           error=BuiltinClass('Exception'))

    import string as _str_mod
    module('string', **{n: getattr(_str_mod, n) for n in ('digits', 'ascii_letters', 'ascii_lowercase', 'ascii_uppercase', 'hexdigits', 'octdigits', 'punctuation', 'whitespace', 'printable')},
           Formatter=Builtin('string.Formatter', lambda I_, a, k: Opaque('Formatter', {
        'parse': lambda I2, o, a2, k2: formatter_parse(I2, a2[0])})))

    for stub in ('configparser', 'logging.handlers', 'logging.config', 'pathlib', 'signal', 'traceback', 'getpass', 'typing', 'abc', 'select', 'shutil'):
        module(stub)
    module('sys', path=PyList([]), argv=PyList([]), stdout=Opaque('stdout'))
    module('argparse')
    module('os', linesep='\n')
    module('os.path', join=Builtin('os.path.join', lambda I_, a, k: path_join(I_, a)))
    module('copy', copy=Builtin('copy.copy', shallow_copy))
    module('collections', deque=BuiltinClass('deque'))
    module('inspect', signature=Builtin('inspect.signature', inspect_signature),
           isfunction=Builtin('isfunction', lambda I_, a, k: isinstance(a[0], FuncObj)),
           getmembers=Builtin('getmembers', lambda I_, a, k: PyList(
               [(n, v) for n, v in sorted(a[0].ns.items())
                if len(a) < 2 or a[1] is None or I_.truth(I_.call(a[1], [v], {}))]) if isinstance(a[0], ModuleObj) else PyList([])))
    module('importlib', import_module=Builtin('import_module', lambda I_, a, k: I_.load_module(a[0])))
    module('platform', python_version=Builtin('python_version', lambda I_, a, k: '3.12.1'))
    module('builtins', **{k_: v for k_, v in I.builtins.items()})


def formatter_parse(I, fmt):
    import string
    if isinstance(fmt, str):
        try:
            # as in CPython: an iterator that can be consumed ONCE (a second loop over the same object sees nothing)
            return _interp_mod()._Iter([tuple(t) for t in string.Formatter().parse(fmt)])
        except ValueError as e:
            I.raise_builtin('ValueError', str(e))
    f = I.ghost.get('formatter_parse')
    if f is not None:
        return f(I, fmt)
    raise _interp_mod().Unsupported('Formatter.parse of a symbolic string')


def path_join(I, a):
    import os
    if all(isinstance(x, str) for x in a):
        return os.path.join(*a)
    fn = z3.Function('path_join', z3.StringSort(), z3.StringSort(), z3.StringSort())
    r = a[0]
    for x in a[1:]:
        r = SymVal(fn(to_term(r), to_term(x)), 'str')
    return r


def shallow_copy(I, a, k):
    v = a[0]
    if isinstance(v, PyObj):
        return PyObj(v.cls, dict(I.read_attrs(v)))
    if isinstance(v, PyList):
        n = PyList(list(I.read_items(v)), v.cls)
        return n
    if isinstance(v, PyDict):
        return PyDict(dict(I.read_dict(v)))
    if _interp_mod()._native(v):
        return v
    raise _interp_mod().Unsupported('copy.copy of %r' % (v,))


def inspect_signature(I, a, k):
    f = a[0]
    if isinstance(f, BoundMethod):
        f = f.func
    if not isinstance(f, FuncObj):
        raise _interp_mod().Unsupported('inspect.signature of %r' % (f,))
    names = [p.arg for p in f.node.args.posonlyargs + f.node.args.args]
    return Opaque('Signature', attrs={'parameters': PyDict({n: None for n in names})})
