"""Witness cross-check of the verifier against CPython (thorough tier).

For sampled *pure* paths of a verified contract (paths on which the real body ran without any abstraction: no loop
cut, no modular callee contract, no havoc, no fresh symbol after the pre-state was built) pyvc holds a symbolic
final state (result, arguments after the call, device and clock requests, exception).  A model of the path
condition is a concrete input on which the real function must — if pyvc's reading of Python is right — produce
exactly that final state.  So we

  1. take a z3 model of the path condition,
  2. evaluate pyvc's symbolic final state under the model (concretize),
  3. rebuild the same pre-state natively, run the REAL function of the checked tree under /venv/bin/python,
  4. compare the two final states structurally (object graph, numbers with a float tolerance, identity structure
     through reference ids, requests that reached the device and clock stubs, the exception class).

Agreement is evidence that pyvc's statement semantics and its SMT encodings of the operations met on that path are
the ones CPython has; a disagreement is an encoding defect of the verifier (or float rounding, where the path has
real-valued inputs: pyvc's R model computes in exact reals) and is reported, never silently dropped.
Nothing here is counted as a discharged obligation.
"""
import json
import os
import subprocess
import tempfile
from fractions import Fraction

import z3

from .values import (SymVal, CharStr, PyObj, PyList, PyDict, PySet, SymSeq, SymSet, SymMat, Segment, Struct,
                     SymEnumVal, Computed, Opaque, EnumMember, ClassObj, FuncObj, BoundMethod)
from . import ops


class NoRendering(Exception):
    pass


_UF_CACHE = {}


def has_uninterpreted(t):
    """does the term apply an uninterpreted FUNCTION (library behaviour left abstract: x**y, hsv, str.lower...)?
    Then a model's value for it is any value, not the one CPython computes: such paths are not compared."""
    todo, seen = [t], set()
    while todo:
        x = todo.pop()
        k = x.get_id()
        if k in seen:
            continue
        seen.add(k)
        if k in _UF_CACHE:
            if _UF_CACHE[k]:
                return True
            continue
        if z3.is_app(x):
            if x.num_args() > 0 and x.decl().kind() == z3.Z3_OP_UNINTERPRETED:
                _UF_CACHE[k] = True
                return True
            todo.extend(x.children())
        elif z3.is_quantifier(x):
            todo.append(x.body())
    return False


def concretize(I, v, model, memo):
    """value of a (possibly symbolic) pyvc object graph under a model: a graph of native scalars and Py* objects"""
    if v is None or isinstance(v, (bool, int, float, str)):
        return v
    if isinstance(v, Fraction):
        return float(v)
    if isinstance(v, SymEnumVal):
        ix = model.eval(v.t, model_completion=True).as_long()
        members = list(v.cls.members.values())
        if not 0 <= ix < len(members):
            raise NoRendering('enum index out of range')
        return members[ix]
    if isinstance(v, SymVal):
        if v.k == 'enum':
            raise NoRendering('symbolic enum')
        if has_uninterpreted(v.t):
            raise NoRendering('value of an uninterpreted library function')
        x = ops.model_value(model, v)
        if isinstance(x, Fraction):
            return float(x)
        if v.k == 'atom':
            from .replay import atom_str
            return atom_str(x)
        if v.k == 'real' and isinstance(x, int):
            return float(x)
        return x
    if isinstance(v, CharStr):
        out = []
        for c in v.chars:
            if not isinstance(c, int):
                c = model.eval(c.t if isinstance(c, SymVal) else c, model_completion=True).as_long()
            out.append(chr(c))
        return ''.join(out)
    if isinstance(v, tuple):
        return tuple(concretize(I, x, model, memo) for x in v)
    if isinstance(v, (EnumMember, ClassObj, FuncObj, BoundMethod, Opaque)):
        return v
    if id(v) in memo:
        return memo[id(v)]
    if isinstance(v, PyObj):
        o = PyObj(v.cls, {}, v.tag)
        memo[id(v)] = o
        for k, x in v.attrs.items():
            if isinstance(x, Computed):
                raise NoRendering('computed attribute %s' % k)
            o.attrs[k] = concretize(I, x, model, memo)
        return o
    if isinstance(v, PyList):
        l = PyList([], v.cls)
        l.is_deque = v.is_deque
        memo[id(v)] = l
        for x in v.items:
            if isinstance(x, Segment):
                raise NoRendering('abstract segment')
            l.items.append(concretize(I, x, model, memo))
        return l
    if isinstance(v, PyDict):
        d = PyDict()
        memo[id(v)] = d
        for k, x in v.d.items():
            d.d[concretize(I, k, model, memo)] = concretize(I, x, model, memo)
        return d
    if isinstance(v, PySet):
        s = PySet(concretize(I, x, model, memo) for x in v.s)
        memo[id(v)] = s
        return s
    if isinstance(v, SymSeq):
        n = model.eval(v.n, model_completion=True).as_long()
        if n > 64:
            raise NoRendering('long sequence')
        items = []
        for i in range(n):
            x = ops.term_to_py(model.eval(z3.Select(v.arr, i), model_completion=True), v.ek)
            if isinstance(x, Fraction) or (v.ek == 'real' and isinstance(x, int)):
                x = float(x)
            if v.ek == 'atom':
                from .replay import atom_str
                x = atom_str(x)
            items.append(x)
        l = PyList(items, v.cls)
        memo[id(v)] = l
        return l
    if isinstance(v, Struct) and v.tag.startswith('str.'):
        f = [concretize(I, x, model, memo) for x in v.fields]
        try:
            if v.tag == 'str.format':
                fmt, args, kwargs = f
                return fmt.format(*[_fmt_arg(x) for x in args], **{k: _fmt_arg(x) for k, x in kwargs})
            if v.tag == 'str.concat':
                return ''.join(f)
            recv, args, kwargs = f
            return getattr(recv, v.tag[4:])(*args, **dict(kwargs))
        except NoRendering:
            raise
        except Exception as e:
            raise NoRendering('string term %s: %r' % (v.tag, e))
    if isinstance(v, SymSet):
        # sets of small naturals (hours, minutes, zone numbers): members among 0..99 under the model
        s = PySet(i for i in range(100) if z3.is_true(model.eval(z3.Select(v.m, i), model_completion=True)))
        memo[id(v)] = s
        return s
    raise NoRendering(type(v).__name__)


def _fmt_arg(x):
    if isinstance(x, (PyObj, PyList, PyDict, PySet)):
        raise NoRendering('format of an object')
    if isinstance(x, EnumMember):
        raise NoRendering('format of an enum member')
    return x


# ---------------------------------------------------------------------------------------------- comparison
def _num(j):
    if isinstance(j, bool):
        return None
    if isinstance(j, int):
        return ('int', j)
    if isinstance(j, dict) and j.get('t') == 'float':
        return ('float', float(j['v']))
    if isinstance(j, dict) and j.get('t') == 'frac':
        return ('float', j['n'] / j['d'])
    return None


WILD = ('stub', 'opaque', 'func', 'bound', 'class')


def same_json(a, b, ida, idb, path, diffs, tol=1e-9):
    """a: pyvc final state (replay.encode), b: CPython final state (DRIVER enc)."""
    if len(diffs) > 5:
        return
    ta = a.get('t') if isinstance(a, dict) else None
    tb = b.get('t') if isinstance(b, dict) else None
    if ta in WILD or tb in WILD:
        return
    na, nb = _num(a), _num(b)
    if na is not None or nb is not None:
        if na is None or nb is None:
            diffs.append('%s: %s vs %s' % (path, json.dumps(a)[:60], json.dumps(b)[:60]))
        elif na[0] != nb[0]:
            diffs.append('%s: %s %r vs %s %r (int/float kind)' % (path, na[0], na[1], nb[0], nb[1]))
        elif abs(na[1] - nb[1]) > tol * max(1.0, abs(na[1]), abs(nb[1])):
            diffs.append('%s: %r vs %r' % (path, na[1], nb[1]))
        return
    if not isinstance(a, dict) or not isinstance(b, dict):
        if a != b or type(a) is not type(b):
            diffs.append('%s: %s vs %s' % (path, json.dumps(a)[:60], json.dumps(b)[:60]))
        return
    # references / identity structure
    if ta == 'ref' or tb == 'ref':
        xa = a.get('id')
        xb = b.get('id')
        if ta == 'ref' and tb == 'ref':
            if ida.get(xa, xb) != xb or idb.get(xb, xa) != xa:
                diffs.append('%s: aliasing differs' % path)
            return
        # one side shows again (in full) an object the other side only refers to: compare it with what the
        # reference stands for (the two encoders number objects differently; cycles are cut by the visited set)
        seen_a, seen_b, visited = ida.setdefault('__objs__', {}), idb.setdefault('__objs__', {}), ida.setdefault('__visited__', set())
        ra = seen_a.get(xa) if ta == 'ref' else a
        rb = seen_b.get(xb) if tb == 'ref' else b
        if ra is None or rb is None:
            diffs.append('%s: aliasing differs (%s vs %s)' % (path, ta, tb))
            return
        key = (ra.get('id'), rb.get('id'))
        if key in visited:
            return
        visited.add(key)
        same_json(ra, rb, ida, idb, path, diffs, tol)
        return
    if ta == 'deque':
        ta = 'list'
    if ta != tb:
        diffs.append('%s: %s vs %s' % (path, ta, tb))
        return
    if 'id' in a and 'id' in b:
        ida[a['id']] = b['id']
        idb[b['id']] = a['id']
    if 'id' in a:
        ida.setdefault('__objs__', {})[a['id']] = a
    if 'id' in b:
        idb.setdefault('__objs__', {})[b['id']] = b
    if ta in ('tuple', 'list'):
        if len(a['v']) != len(b['v']):
            diffs.append('%s: length %d vs %d' % (path, len(a['v']), len(b['v'])))
            return
        for i, (x, y) in enumerate(zip(a['v'], b['v'])):
            same_json(x, y, ida, idb, '%s[%d]' % (path, i), diffs, tol)
        return
    if ta == 'dict':
        if len(a['v']) != len(b['v']):
            diffs.append('%s: dict size %d vs %d' % (path, len(a['v']), len(b['v'])))
            return
        for i, ((ka, va), (kb, vb)) in enumerate(zip(a['v'], b['v'])):
            same_json(ka, kb, ida, idb, '%s.key%d' % (path, i), diffs, tol)
            same_json(va, vb, ida, idb, '%s[%s]' % (path, json.dumps(ka)[:20]), diffs, tol)
        return
    if ta == 'set':
        sa = sorted(json.dumps(x, sort_keys=True) for x in a['v'])
        sb = sorted(json.dumps(x, sort_keys=True) for x in b['v'])
        if len(sa) != len(sb):
            diffs.append('%s: set size %d vs %d' % (path, len(sa), len(sb)))
            return
        for i, (x, y) in enumerate(zip(sa, sb)):
            same_json(json.loads(x), json.loads(y), ida, idb, '%s{%d}' % (path, i), diffs, tol)
        return
    if ta == 'enum':
        if (a['c'], a['n']) != (b['c'], b['n']):
            diffs.append('%s: %s.%s vs %s.%s' % (path, a['c'], a['n'], b['c'], b['n']))
        return
    if ta == 'obj':
        if a['c'] != b['c']:
            diffs.append('%s: class %s vs %s' % (path, a['c'], b['c']))
            return
        ka, kb = set(a['a']), set(b['a'])
        if ka != kb:
            diffs.append('%s: attributes differ: only-pyvc=%s only-cpython=%s' % (path, sorted(ka - kb), sorted(kb - ka)))
            return
        for k in sorted(ka):
            same_json(a['a'][k], b['a'][k], ida, idb, '%s.%s' % (path, k), diffs, tol)
        if 'items' in a or 'items' in b:
            same_json({'t': 'list', 'v': a.get('items', [])}, {'t': 'list', 'v': b.get('items', [])}, ida, idb, path + '.items', diffs, tol)
        return
    if a != b:
        diffs.append('%s: %s vs %s' % (path, json.dumps(a)[:60], json.dumps(b)[:60]))


def compare_final(I, final, model, native_out, names):
    """-> (verdict, detail): verdict in agree / disagree / na"""
    from .replay import encode, NotEncodable
    memo = {}
    try:
        res = concretize(I, final['result'], model, memo)
        args_after = [concretize(I, final['args'][n], model, memo) for n in names]
        dev = [concretize(I, e, model, memo) for e in final['dev'].items]
        clk = [concretize(I, e, model, memo) for e in final['clk'].items]
    except NoRendering as e:
        return 'na', 'final state has no concrete rendering: %s' % e
    exc = final.get('exc')
    nraised = native_out.get('raised')
    if (exc or None) != (nraised or None):
        if exc and nraised:
            from .models import exc_is_sub
            if not (exc == nraised):
                return 'disagree', ['exception: pyvc %s vs CPython %s' % (exc, nraised)]
        else:
            return 'disagree', ['exception: pyvc %s vs CPython %s (%s)' % (exc, nraised, native_out.get('message'))]
    diffs = []
    ida, idb = {}, {}
    try:
        em = {}
        if not exc:
            same_json(encode(I, res, em), native_out.get('result'), ida, idb, 'result', diffs)
        em = {}
        for n, a, b in zip(names, args_after, native_out.get('args_after', [])):
            same_json(encode(I, a, em), b, ida, idb, n, diffs)
        for nm, mine, theirs in (('device-requests', dev, native_out.get('dev', [])), ('clock-requests', clk, native_out.get('clk', []))):
            if len(mine) != len(theirs):
                diffs.append('%s: %d vs %d' % (nm, len(mine), len(theirs)))
                continue
            for i, (x, y) in enumerate(zip(mine, theirs)):
                same_json(encode(I, x, em), y, ida, idb, '%s[%d]' % (nm, i), diffs)
    except NotEncodable as e:
        return 'na', 'final state not encodable: %s' % e
    if diffs:
        return 'disagree', diffs
    return 'agree', None
