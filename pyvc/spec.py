"""Contract language of pyvc (sidecar specifications; the repo files are never edited).

A contract names a function of /repo by (repo-relative path, qualified name), builds its
symbolic pre-state (the shape / type invariant part of the precondition), and lists
`requires`, `ensures`, allowed `raises`, loop invariants and, for modular use at call
sites, `modifies` and the kind of the result.  Clause texts are Python expressions that are
parsed with `ast` and evaluated *symbolically* by the interpreter in spec mode (no
branching, `and/or/not/if-else` become z3 connectives); `A ==> B` is sugar for implies(A, B).
"""
import ast
import itertools
import re
import time
import z3

from .values import (SymVal, CharStr, PyObj, PyList, SymSeq, PyDict, SymMap, PySet, SymSet,
                     ClassObj, BuiltinClass, EnumMember, FuncObj, BoundMethod, StaticMethod,
                     PropertyObj, ModuleObj, Builtin, ExcObj, Opaque, _MISSING)
from . import ops
from .ops import to_term, mk, kind_of, is_num

REGISTRY = []


class LoopSpec:
    def __init__(self, ordinal, invariants, modifies=(), decreases=None, havoc_kinds=None, index=None,
                 keep=(), keep_index=False, cut_concrete=False, havoc_with=None, progress=None):
        self.progress = progress    # integer expression that every pass of the loop strictly increases (towards a finite bound
                                    # that is assumed, e.g. the number of tokens of the text): rules out a pass that spins in place
        self.havoc_with = havoc_with or {}      # target -> fn(interp, env): contract-specific way of forgetting a location
        self.cut_concrete = cut_concrete    # cut even when the iterable is concrete (body forks on symbolic data)
        self.ordinal = ordinal
        self.invariants = list(invariants)      # [(id, text)]
        self.modifies = list(modifies)
        self.decreases = decreases
        self.havoc_kinds = havoc_kinds
        self.index = index
        self.keep = keep
        self.keep_index = keep_index


class Contract:
    def __init__(self, path, qualname, serves=(), unwrap=0, modular=False, name=None, src=None, group=None, uses=()):
        self.group = group          # a modular contract with a group replaces calls only in contracts that `uses` it
        self.uses = tuple(uses)
        self.src = src              # lemma: ghost function text (calls the real code), run in the module's namespace
        self.path = path
        self.qualname = qualname
        self.serves = list(serves)
        self.unwrap = unwrap
        self.modular = modular
        self.name = name or qualname
        self.arg_specs = []         # [(name, [alternatives])]
        self.case_filter = None
        self.setup_fn = None
        self.requires_ = []
        self.ensures_ = []
        self.raises_ = []           # [(exception class name, [ensures-on-raise (id,text)])]
        self.loops = {}
        self.modifies_ = []
        self.returns_ = None
        self.notes = []
        self.assumptions = []
        self.inline_only = False
        self.expect_paths = 1
        self.explicit_cases = None
        self.lemma_fn = None
        self.modes = ['R']
        self.defines_ = []
        self.effect_fn = None
        self.reveals_ = []
        self.bounded_note = None
        REGISTRY.append(self)

    def bounded(self, note):
        """this contract is verified only for pre-states up to a stated structural bound: its obligations are
        reported under coverage.bounded and never counted as proved."""
        self.bounded_note = note
        return self

    def reveal(self, text):
        """definitional unfolding of an opaque spec function, evaluated after the body (arguments and
        `result` in scope) and *assumed*.  Only definitions of spec functions may be revealed."""
        self.reveals_.append(text)
        return self

    def effect(self, fn):
        """modular use: fn(I, env) writes the post-state directly (instead of havoc + assume).  The
        ensures clauses are then *checked* at every call site against that state (obligations
        '...effect-satisfies...'), so an effect that does not realise the proven postcondition fails."""
        self.effect_fn = fn
        return fn

    def define(self, name, text):
        """name bound (after the body ran) to the value of a spec expression; usable in ensures."""
        self.defines_.append((name, text))
        return self

    # --- declaration API -------------------------------------------------------
    def arg(self, name, *alts):
        self.arg_specs.append((name, list(alts)))
        return self

    def cases(self, case_list):
        """explicit list of dicts {argname: alternative index or label}; default: full product."""
        self.explicit_cases = case_list
        return self

    def setup(self, fn):
        """fn(b: Builder, case: dict) -> dict of argument values (overrides arg())."""
        self.setup_fn = fn
        return fn

    def requires(self, cid, text):
        self.requires_.append((cid, text))
        return self

    def ensures(self, cid, text, serves=None):
        self.ensures_.append((cid, text, serves))
        return self

    def raises(self, excname, *ensures):
        self.raises_.append((excname, list(ensures)))
        return self

    def loop(self, ordinal, invariants, **kw):
        inv = [(('i%d' % i), t) if isinstance(t, str) else t for i, t in enumerate(invariants)]
        self.loops[ordinal] = LoopSpec(ordinal, inv, **kw)
        return self

    def modifies(self, *targets):
        self.modifies_.extend(targets)
        return self

    def returns(self, spec):
        self.returns_ = spec
        return self

    def assume_note(self, text):
        self.assumptions.append(text)
        return self

    @property
    def key(self):
        return (self.path, self.qualname)


def contract(path, qualname, **kw):
    return Contract(path, qualname, **kw)


# ------------------------------------------------------------------------------ arg specs
class ArgSpec:
    label = '?'

    def build(self, b, name):
        raise NotImplementedError


class Scalar(ArgSpec):
    def __init__(self, kind):
        self.kind = kind
        self.label = kind

    def build(self, b, name):
        return b.sym(self.kind, name)


class Const(ArgSpec):
    def __init__(self, value, label=None):
        self.value = value
        self.label = label or repr(value)

    def build(self, b, name):
        v = self.value
        return v(b) if callable(v) else v


class Enum(ArgSpec):
    """a member of an interpreted enum: Enum('bardolph.controller.units', 'UnitMode', 'RAW')"""

    def __init__(self, module, cls, member):
        self.module, self.cls, self.member = module, cls, member
        self.label = '%s.%s' % (cls, member)

    def build(self, b, name):
        return b.enum(self.module, self.cls, self.member)


class ListOf(ArgSpec):
    def __init__(self, kinds, label=None):
        self.kinds = kinds
        self.label = label or 'list[%s]' % ','.join(str(k) for k in kinds)

    def build(self, b, name):
        return PyList([k.build(b, '%s%d' % (name, i)) if isinstance(k, ArgSpec) else b.sym(k, '%s%d' % (name, i))
                       for i, k in enumerate(self.kinds)])


class Chars(ArgSpec):
    """string of fixed concrete length with symbolic characters from a given alphabet predicate."""

    def __init__(self, n, alphabet=None):
        self.n = n
        self.alphabet = alphabet
        self.label = 'chars[%d]' % n

    def build(self, b, name):
        cs = []
        for i in range(self.n):
            c = b.sym('int', '%s_c%d' % (name, i))
            if self.alphabet is not None:
                b.I.assume(z3.Or(*[c.t == ord(ch) for ch in self.alphabet]))
            else:
                b.I.assume(z3.And(c.t >= 0, c.t < 0x110000))
            cs.append(c.t)
        return CharStr(cs)


class Builder:
    """Pre-state construction API handed to contract setup functions."""

    def __init__(self, interp, case):
        self.I = interp
        self.case = case
        self.inputs = {}        # name -> symbolic scalar (for models / replay)
        self.provided = []      # (interface, object) pairs bound in bardolph.lib.injection
        self.pre_exec = []      # python source run by the native replay driver before the call

    def sym(self, kind, name):
        v = self.I.fresh(kind, name)
        self.inputs[name] = v
        return v

    def module(self, dotted):
        return self.I.load_module(dotted)

    def cls(self, dotted_module, name):
        return self.I.load_module(dotted_module).ns[name]

    def enum(self, dotted_module, clsname, member):
        return self.I.load_module(dotted_module).ns[clsname].members[member]

    def obj(self, cls, **attrs):
        """object of an interpreted class, bypassing __init__ (fields given explicitly)."""
        if isinstance(cls, tuple):
            cls = self.cls(*cls)
        return PyObj(cls, dict(attrs))

    def new(self, cls, *args, **kwargs):
        """object built by running the real constructor."""
        if isinstance(cls, tuple):
            cls = self.cls(*cls)
        return self.I.call(cls, list(args), kwargs)

    def seq(self, ek, name, cls=None):
        sort = {'int': z3.IntSort(), 'atom': z3.IntSort(), 'real': z3.RealSort(), 'bool': z3.BoolSort()}[ek]
        self.I.fresh_n += 1
        arr = z3.Array('%s#%d' % (name, self.I.fresh_n), z3.IntSort(), sort)
        n = self.sym('int', name + '_len')
        self.I.assume(n.t >= 0)
        s = SymSeq(arr, n.t, ek, cls)
        self.inputs[name] = s
        return s

    def assume(self, cond):
        self.I.assume(cond)

    def volatile(self, obj, field, reader):
        """field of obj is written by other threads: each read in code returns reader(I, obj, field)."""
        self.I.volatile[(id(obj), field)] = reader

    def on_write(self, obj, field, hook):
        """hook(I, obj, field, value) is called at every assignment to obj.field in the code under contract (guarded-by obligations)"""
        if not hasattr(self.I, 'write_hooks') or self.I.write_hooks is None:
            self.I.write_hooks = {}
        self.I.write_hooks[(id(obj), field)] = hook

    def ghost(self, name, value):
        self.I.ghost[name] = value
        return value

    def between(self, x, lo, hi):
        """assume lo <= x <= hi (works for symbolic and, in replays, concrete x)."""
        if isinstance(x, SymVal):
            self.I.assume(z3.And(x.t >= lo, x.t <= hi))

    def nonempty(self, *atoms):
        """assume these atoms (names) are not the empty string (replays render atoms as non-empty strings)"""
        from .interp import ATOM_NONEMPTY
        for a in atoms:
            if isinstance(a, SymVal):
                self.I.assume(ATOM_NONEMPTY(a.t))

    def opaque(self, name, methods=None, attrs=None, classes=()):
        return Opaque(name, methods, attrs, classes)


# ------------------------------------------------------------------------------ spec text parsing
_spec_cache = {}


def _split_top(text, sep):
    depth = 0
    i = 0
    out = []
    last = 0
    instr = None
    while i < len(text):
        ch = text[i]
        if instr:
            if ch == '\\':
                i += 1
            elif ch == instr:
                instr = None
        elif ch in '"\'':
            instr = ch
        elif ch in '([{':
            depth += 1
        elif ch in ')]}':
            depth -= 1
        elif depth == 0 and text.startswith(sep, i):
            out.append(text[last:i])
            i += len(sep)
            last = i
            continue
        i += 1
    out.append(text[last:])
    return out


def desugar(text):
    """A ==> B (lowest precedence, right associative) -> implies(A, B); also inside parentheses."""
    # recurse into parenthesised groups first
    res = []
    i = 0
    while i < len(text):
        ch = text[i]
        if ch in '"\'':
            j = i + 1
            while j < len(text) and text[j] != ch:
                j += 2 if text[j] == '\\' else 1
            res.append(text[i:j + 1])
            i = j + 1
        elif ch in '([{':
            close = {'(': ')', '[': ']', '{': '}'}[ch]
            depth = 1
            j = i + 1
            instr = None
            while j < len(text) and depth:
                c2 = text[j]
                if instr:
                    if c2 == '\\':
                        j += 1
                    elif c2 == instr:
                        instr = None
                elif c2 in '"\'':
                    instr = c2
                elif c2 in '([{':
                    depth += 1
                elif c2 in ')]}':
                    depth -= 1
                j += 1
            inner = text[i + 1:j - 1]
            if ch == '(':
                parts = _split_top(inner, ',')
                res.append('(' + ','.join(desugar(p) for p in parts) + ')')
            else:
                res.append(ch + inner + close)
            i = j
        else:
            res.append(ch)
            i += 1
    text = ''.join(res)
    parts = _split_top(text, '==>')
    if len(parts) == 1:
        return text
    out = parts[-1]
    for p in reversed(parts[:-1]):
        out = 'implies((%s), (%s))' % (p.strip(), out.strip())
    return out


def parse_spec(text):
    n = _spec_cache.get(text)
    if n is None:
        src = desugar(' '.join(text.split()))
        try:
            n = ast.parse(src, mode='eval').body
        except SyntaxError as e:
            raise SyntaxError('bad spec expression %r -> %r: %s' % (text, src, e))
        _spec_cache[text] = n
    return n


# ------------------------------------------------------------------------------ spec functions
def install_spec_fns(I):
    S = I.spec_fns

    def reg(name):
        def deco(f):
            S[name] = Builtin('spec.' + name, f)
            return f
        return deco

    def tt(I_, v):
        t = I_.truth_term(v)
        return z3.BoolVal(t) if isinstance(t, bool) else t

    @reg('implies')
    def _implies(I_, a, k):
        return mk(z3.Implies(tt(I_, a[0]), tt(I_, a[1])), 'bool')

    @reg('iff')
    def _iff(I_, a, k):
        return mk(tt(I_, a[0]) == tt(I_, a[1]), 'bool')

    @reg('ite')
    def _ite(I_, a, k):
        c = I_.truth_term(a[0])
        if isinstance(c, bool):
            return a[1] if c else a[2]
        return I_.ite(c, a[1], a[2])

    @reg('is_int')
    def _is_int(I_, a, k):
        v = a[0]
        return (isinstance(v, int) and not isinstance(v, bool)) or (isinstance(v, SymVal) and v.k == 'int')

    @reg('is_float')
    def _is_float(I_, a, k):
        v = a[0]
        return isinstance(v, float) or (isinstance(v, SymVal) and v.k == 'real')

    @reg('is_num')
    def _is_num(I_, a, k):
        return is_num(a[0])

    @reg('is_none')
    def _is_none(I_, a, k):
        return a[0] is None

    @reg('is_list')
    def _is_list(I_, a, k):
        return isinstance(a[0], (PyList, SymSeq))

    @reg('same')
    def _same(I_, a, k):
        return a[0] is a[1]

    @reg('round_he')
    def _round_he(I_, a, k):
        x = a[0]
        if isinstance(x, (int, float)):
            return round(x)
        return ops.py_round(x)

    @reg('floor')
    def _floor(I_, a, k):
        return mk(z3.ToInt(to_term(a[0], 'real')), 'int')

    @reg('real')
    def _real(I_, a, k):
        return mk(to_term(a[0], 'real'), 'real')

    @reg('clamp')
    def _clamp(I_, a, k):
        x, lo, hi = a
        kk = ops.num_kind(x, ops.num_kind(lo, hi) == 'real' and 1.0 or 1)
        if kind_of(x) == 'real' or kind_of(lo) == 'real' or kind_of(hi) == 'real':
            kk = 'real'
        xt, lt, ht = to_term(x, kk), to_term(lo, kk), to_term(hi, kk)
        return mk(z3.If(xt < lt, lt, z3.If(xt > ht, ht, xt)), kk)

    @reg('fmod')
    def _fmod(I_, a, k):
        """x mod m (floor semantics) as a real."""
        x, m = to_term(a[0], 'real'), to_term(a[1], 'real')
        return mk(x - m * z3.ToReal(z3.ToInt(x / m)), 'real')

    @reg('log_count')
    def _log_count(I_, a, k):
        if a:
            return sum(1 for lv, _ in I_.log if lv == a[0])
        return len(I_.log)

    @reg('ghost')
    def _ghost(I_, a, k):
        return I_.frozen_old(I_.ghost_read(a[0])) if I_.old_mode else I_.ghost_read(a[0])

    @reg('distinct')
    def _distinct(I_, a, k):
        return mk(z3.Distinct(*[to_term(x) for x in a]), 'bool')

    @reg('select')
    def _select(I_, a, k):
        s, i = a
        if isinstance(s, SymSeq):
            arr, n = I_.read_seq(s)
            return mk(z3.Select(arr, to_term(i, 'int')), s.ek)
        if isinstance(s, (SymSet, PySet)):
            from .models import to_symset
            m = s.m if isinstance(s, SymSet) else to_symset(s)
            if I_.old_mode and I_.old_snapshot is not None and id(s) in I_.old_snapshot:
                snap = I_.old_snapshot[id(s)]
                m = snap if z3.is_expr(snap) else to_symset(PySet(snap))
            return mk(z3.Select(m, to_term(i, 'int')), 'bool')
        raise TypeError('select on %r' % (s,))

    @reg('hue_same')
    def _hue_same(I_, a, k):
        x, y = to_term(a[0], 'int'), to_term(a[1], 'int')
        return mk(z3.Or(x == y, z3.And(x == 0, y == 65535), z3.And(x == 65535, y == 0)), 'bool')

    @reg('unit_converter')
    def _unit_converter(I_, a, k):
        """the documented conversion table (docs/language.rst 'units'): None for same mode."""
        u = I_.load_module('bardolph.controller.units')
        s_, d_ = a[0].name, a[1].name
        if s_ == d_:
            return None
        return u.ns['%s_to_%s' % (s_.lower(), d_.lower())]

    @reg('out_is')
    def _out_is(I_, a, k):
        """standard output so far consists of exactly these pieces (each piece stands for str(piece))"""
        if 'OutText' in I_.ghost:          # native replay: compare the captured text
            return I_.ghost['OutText'] == ''.join(str(p) for p in a)
        cur = I_.ghost.get('Out')
        items = cur.items if cur is not None else []
        return I_.seq_eq(items, list(a))

    @reg('unchanged')
    def _unchanged(I_, a, k):
        """the location named by the argument expression holds the identical value as on entry"""
        raise TypeError('unchanged() is a special form')

    @reg('typename')
    def _typename(I_, a, k):
        return I_.typename(a[0])


# ------------------------------------------------------------------------------ resolving the function
def module_name_of(path):
    if path.startswith('stdlib:'):
        return path[7:]
    p = path[:-3] if path.endswith('.py') else path
    return p.replace('/', '.')


def resolve(I, c):
    mod = I.load_module(module_name_of(c.path))
    if c.src is not None:
        from .interp import Env
        import textwrap
        tree = ast.parse(textwrap.dedent(c.src))
        ns = dict(mod.ns)
        env = Env(ns, None, ns)
        lm = ModuleObj(mod.name + '#lemma', mod.path)
        lm.ns = ns
        I._mod_stack = getattr(I, '_mod_stack', [])
        I._mod_stack.append(lm)
        try:
            I.exec_block(tree.body, env)
        finally:
            I._mod_stack.pop()
        f = ns.get(c.qualname)
        if isinstance(f, FuncObj):
            f.is_lemma = True
        return f
    parts = c.qualname.split('.')
    cur = mod.ns.get(parts[0], _MISSING)
    owner = None
    for p in parts[1:]:
        if cur is _MISSING:
            break
        owner = cur
        if isinstance(cur, ClassObj):
            cur = cur.attrs.get(p, _MISSING)
        elif isinstance(cur, ModuleObj):
            cur = cur.ns.get(p, _MISSING)
        else:
            cur = _MISSING
    if cur is _MISSING:
        return None
    if isinstance(cur, StaticMethod):
        cur = cur.func
    if isinstance(cur, PropertyObj):
        cur = cur.fget
    for _ in range(c.unwrap):
        w = getattr(cur, 'wrapped', None)
        if w is None:
            return None
        cur = w
    return cur


# ------------------------------------------------------------------------------ solving
def solve(ob, timeout_ms):
    t0 = time.time()
    s = z3.Solver()
    s.set('timeout', timeout_ms)
    for c in ob.pc:
        s.add(c)
    s.add(z3.Not(ob.goal))
    r = s.check()
    ob.solver = 'z3-%s' % z3.get_version_string()
    if r == z3.unknown:
        # second attempt: nonlinear real arithmetic tactic
        try:
            s2 = z3.Then('simplify', 'solve-eqs', 'smt').solver()
            s2.set('timeout', timeout_ms)
            for c in ob.pc:
                s2.add(c)
            s2.add(z3.Not(ob.goal))
            r = s2.check()
            if r != z3.unknown:
                s = s2
                ob.solver += '(tactic)'
        except z3.Z3Exception:
            pass
    ob.time = time.time() - t0
    if r == z3.unsat:
        ob.status = 'proved'
    elif r == z3.sat:
        ob.status = 'refuted'
        ob.model = s.model()
    else:
        ob.status = 'undecided'
        ob.info = dict(ob.info or {}, reason=s.reason_unknown())
    return ob


# ------------------------------------------------------------------------------ verifying one contract
class FnResult:
    def __init__(self, contract):
        self.contract = contract
        self.obligations = []       # solved Obligation objects (model converted)
        self.status = 'ok'          # ok | undecided | error
        self.message = ''
        self.paths = 0
        self.cases = 0
        self.inlined = []
        self.used_contracts = []
        self.time = 0.0
        self.returned_paths = 0
        self.source_sha = None


def case_list(c):
    if c.explicit_cases is not None:
        return c.explicit_cases
    names = [n for n, _ in c.arg_specs]
    alts = [range(len(a)) for _, a in c.arg_specs]
    return [dict(zip(names, combo)) for combo in itertools.product(*alts)] or [{}]


def arg_order(fn, args):
    """names of the setup's entries that are passed to the function, in the order of its parameters (entries whose
    name starts with '_' are spec-only unless a parameter has that name)"""
    params = [p_.arg for p_ in fn.node.args.posonlyargs + fn.node.args.args + fn.node.args.kwonlyargs]
    keys = [k_ for k_ in args if not k_.startswith('_') or k_ in params]
    if all(k_ in params for k_ in keys):
        keys.sort(key=params.index)
    return keys


def verify_contract(I, c, timeout_ms=10000, only_case=None):
    """Generate and discharge all obligations of contract c from the current source text."""
    res = FnResult(c)
    t0 = time.time()
    from .interp import Unsupported, PyRaise, PathEnd, Env
    try:
        fn = resolve(I, c)
    except Unsupported as e:
        res.status, res.message = 'undecided', 'cannot load %s: %s' % (c.path, e)
        return res
    if fn is None or not isinstance(fn, FuncObj):
        res.status, res.message = 'undecided', 'function %s not found in %s (contract no longer attaches)' % (
            c.qualname, c.path)
        return res
    if getattr(c, 'real_bodies_only', False):
        # every callee runs its own body (no contract stands in for one): for concrete pre-states through several layers
        I.contracts = {}
    if getattr(c, 'no_loop_cuts', False):
        # a concrete pre-state (e.g. a concrete token sequence): every loop on the way is executed, none is cut at an invariant
        I.loopspecs.clear()
    elif getattr(c, 'unroll_own_loops', False):
        # this contract's pre-state bounds the loops of the function itself (they are executed, not cut at the invariants
        # another contract of the same function gave)
        I.loopspecs[(c.path, fn.qualname)] = {}
    else:
        I.loopspecs.setdefault((c.path, fn.qualname), {}).update(c.loops)
    if c.loops:
        nloops = len([n for n in ast.walk(fn.node) if isinstance(n, (ast.While, ast.For))])
        for o in c.loops:
            if o >= nloops:
                res.status, res.message = 'undecided', 'loop %d of %s no longer exists' % (o, c.qualname)
                return res
    all_obs = []
    try:
        for case_i, case in enumerate(case_list(c)):
            if only_case is not None and case_i != only_case:
                continue
            res.cases += 1
            I.obligations = []
            label = ','.join('%s=%s' % (n, _alt_label(c, n, ix)) for n, ix in case.items())

            def thunk():
                b = Builder(I, case)
                I.active_groups = set(c.uses)
                I.ghost['contract_name'] = c.name
                I.ghost['Dev'] = PyList()       # requests that reached a device stub
                I.ghost['Clk'] = PyList()       # requests that reached a clock stub
                if c.setup_fn is not None:
                    args = c.setup_fn(b, case)
                else:
                    args = {}
                    for n, alts in c.arg_specs:
                        args[n] = alts[case[n]].build(b, n)
                I.cur_inputs = b.inputs
                I.spec_extra = {k_: v for k_, v in args.items() if k_.startswith('_')}
                penv = Env(dict(args), None, fn.module.ns, None)
                for cid, text in c.requires_:
                    I.assume(I.eval_spec(text, penv))
                if not I.feasible():
                    raise PathEnd()
                ghost_roots = [v for v in I.ghost.values() if not callable(v)]
                I.old_snapshot = I.snapshot(list(args.values()) + ghost_roots)
                I._verifying = fn
                I._in_body = False
                I.abstracted = 0
                exc = None
                result = None
                try:
                    call_args = [args[k_] for k_ in arg_order(fn, args)]
                    I._in_body = True
                    result = I.call_func_body(fn, call_args)
                except PyRaise as pr:
                    exc = pr.exc
                finally:
                    I._in_body = False
                    I._verifying = None
                if getattr(I, 'keep_finals', None) is not None:
                    I.keep_finals.append({'path': I.path_id, 'case': label, 'pc': list(I.pc), 'result': result,
                                          'exc': (exc.cls.name if exc is not None and hasattr(exc, 'cls') else None),
                                          'args': args, 'pure': I.abstracted == 0, 'dev': I.ghost['Dev'], 'clk': I.ghost['Clk']})
                if exc is not None:
                    allowed = None
                    for ename, ens in c.raises_:
                        if _exc_is(I, exc, ename):
                            allowed = ens
                            break
                    if allowed is None:
                        I.oblige('%s::no-exception-escapes' % c.name, False, kind='noexc',
                                 info={'exception': repr(exc), 'case': label})
                    else:
                        penv.vars['exc'] = exc
                        for cid, text in allowed:
                            I.oblige('%s::raises.%s' % (c.name, cid), I.eval_spec(text, penv), kind='post',
                                     info={'clause': text, 'case': label})
                    return 'raised'
                penv.vars['result'] = result
                for rtext in c.reveals_:
                    I.assume(I.eval_spec(rtext, penv))
                for dname, dtext in c.defines_:
                    try:
                        penv.vars[dname] = I.eval_spec_value(dtext, penv)
                    except PyRaise as pr:
                        I.oblige('%s::post.define-%s' % (c.name, dname), False, kind='post',
                                 info={'clause': dtext, 'case': label, 'exception': repr(pr.exc)})
                        return 'returned'
                for cid, text, _sv in c.ensures_:
                    inf = {'clause': text, 'case': label}
                    I.struct_mismatch = False
                    try:
                        goal = I.eval_spec(text, penv)
                    except PyRaise as pr:
                        goal = False
                        inf['clause_raised'] = repr(pr.exc)
                    if I.struct_mismatch:
                        inf['structural'] = 'the clause compares strings that were built differently: a refutation stands only if it replays'
                    I.oblige('%s::post.%s' % (c.name, cid), goal, kind='post', info=inf)
                return 'returned'

            outs = I.explore(thunk)
            res.paths += len(outs)
            res.returned_paths += sum(1 for _, o in outs if o in ('returned', 'raised'))
            for ob in I.obligations:
                ob.case = label
                ob.inputs = getattr(I, 'cur_inputs', {})
            all_obs.extend(I.obligations)
    except Unsupported as e:
        res.status, res.message = 'undecided', 'outside the supported subset: %s' % e
        return res
    except RecursionError:
        res.status, res.message = 'undecided', 'interpreter recursion limit'
        return res
    for ob in all_obs:
        solve(ob, timeout_ms)
    res.obligations = all_obs
    res.inlined = sorted(I.inlined)
    I.inlined = set()
    res.time = time.time() - t0
    if res.returned_paths == 0:
        res.status, res.message = 'undecided', 'vacuous: no feasible path reaches the end of %s' % c.qualname
    return res


def _alt_label(c, n, ix):
    for nm, alts in c.arg_specs:
        if nm == n and isinstance(ix, int) and ix < len(alts):
            return alts[ix].label
    return str(ix)


def _exc_is(I, exc, ename):
    from .models import exc_is_sub
    if isinstance(exc, ExcObj):
        return exc_is_sub(exc.cls.name, ename)
    if isinstance(exc, PyObj):
        for cls in exc.cls.mro():
            if cls.name == ename:
                return True
        return bool(exc.cls.builtin_base) and exc_is_sub(exc.cls.builtin_base, ename)
    return False


# ------------------------------------------------------------------------------ modular use at call sites
def apply_contract_at_call(I, fn, c, args, kwargs):
    from .interp import Env, PyRaise
    local = I.bind_args(fn, args, kwargs)
    penv = Env(dict(local), None, fn.module.ns, None)
    caller = I.cur_func_name()
    I.used_contracts.add(c.key)
    I.abstracted = getattr(I, 'abstracted', 0) + 1
    for cid, text in c.requires_:
        I.oblige('%s::call(%s).pre.%s' % (caller, c.name, cid), I.eval_spec(text, penv), kind='pre',
                 info={'clause': text})
    saved_snap = I.old_snapshot
    I.old_snapshot = I.snapshot(list(local.values()) + [v for v in I.ghost.values() if not callable(v)])
    try:
        if c.effect_fn is not None:
            c.effect_fn(I, penv)
        for target in c.modifies_:
            I.havoc_target(target, penv, LoopSpec(0, []))
        # exceptional exits the contract allows: nondeterministic choice
        for ename, ens in c.raises_:
            if I.branch(I.fresh('bool', 'raises_' + ename).t):
                exc = ExcObj(I.builtins[ename], ()) if ename in I.builtins else I.ghost['exc_factory'](I, ename)
                penv.vars['exc'] = exc
                for cid, text in ens:
                    I.assume(I.eval_spec(text, penv))
                raise PyRaise(exc)
        result = None
        if c.returns_ is not None:
            r = c.returns_
            if callable(r):
                result = r(I, penv)
            elif isinstance(r, ArgSpec):
                result = r.build(Builder(I, {}), 'result')
            else:
                result = I.fresh(r, 'result_' + fn.name)
        penv.vars['result'] = result
        for cid, text, _sv in c.ensures_:
            if c.effect_fn is not None:
                I.oblige('%s::call(%s).effect-satisfies.%s' % (caller, c.name, cid), I.eval_spec(text, penv),
                         kind='pre', info={'clause': text})
            else:
                I.assume(I.eval_spec(text, penv))
        return result
    finally:
        I.old_snapshot = saved_snap
