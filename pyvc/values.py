"""Value universe of the pyvc symbolic interpreter.

Concrete Python data (int, bool, float, str, None, tuple, frozenset, re.Pattern...) is
represented by itself.  Everything that can be symbolic or mutable has a class here.
"""
import z3


class SymVal:
    """A symbolic scalar: z3 term + Python-level kind.

    kinds: 'int' (python int, z3 Int), 'real' (python float modelled as exact real, z3 Real),
           'bool' (z3 Bool), 'atom' (element of a total order standing for a str name, z3 Int),
           'str'  (abstract string: z3 String sort; only equality / literals are used)
    """
    __slots__ = ('t', 'k')

    def __init__(self, t, k):
        self.t = t
        self.k = k

    def __repr__(self):
        return 'Sym<%s:%s>' % (self.k, self.t)

    # guard against accidental native use
    def __bool__(self):
        raise TypeError('SymVal used as native bool: %r' % (self,))

    def __eq__(self, other):
        raise TypeError('SymVal compared natively: %r' % (self,))

    def __hash__(self):
        return id(self)




class CharStr:
    """A string of concrete length whose characters are z3 Int terms (char codes) or ints."""
    __slots__ = ('chars',)

    def __init__(self, chars):
        self.chars = list(chars)

    def __repr__(self):
        return 'CharStr%r' % (self.chars,)


class PyObj:
    """Instance of an interpreted class."""
    __slots__ = ('cls', 'attrs', 'tag')

    def __init__(self, cls, attrs=None, tag=None):
        self.cls = cls
        self.attrs = attrs if attrs is not None else {}
        self.tag = tag

    def __repr__(self):
        return '<%s obj %s>' % (self.cls.name, self.tag or hex(id(self))[-5:])


class PyList:
    """list/deque of concrete length (items may be symbolic)."""
    __slots__ = ('items', 'cls', 'is_deque', 'orig', 'maxlen')

    def __init__(self, items=None, cls=None):
        self.items = list(items) if items is not None else []
        self.cls = cls      # ClassObj when an interpreted subclass of list (SortedList)
        self.is_deque = False
        self.maxlen = None  # deque(maxlen=n): appending to a full deque silently drops from the other end
        self.orig = None    # for old(...) copies: the live object this is a pre-state copy of

    def __repr__(self):
        return 'PyList%r' % (self.items,)


class SymSeq:
    """list of symbolic length over scalars: z3 Array(Int -> sort) + length term."""
    __slots__ = ('arr', 'n', 'ek', 'cls', 'orig')

    def __init__(self, arr, n, ek, cls=None):
        self.orig = None
        self.arr = arr
        self.n = n
        self.ek = ek
        self.cls = cls

    def __repr__(self):
        return 'SymSeq<%s,%s,%s>' % (self.arr, self.n, self.ek)


class PyDict:
    """dict with concrete (hashable native / EnumMember / ClassObj) keys, insertion ordered."""
    __slots__ = ('d', 'orig')

    def __init__(self, d=None):
        self.d = dict(d) if d is not None else {}
        self.orig = None

    def __repr__(self):
        return 'PyDict%r' % (self.d,)


class SymMap:
    """dict with symbolic scalar keys: z3 arrays dom: K->Bool, val: K->V.  Iteration order is not modelled."""
    __slots__ = ('dom', 'val', 'kk', 'vk')

    def __init__(self, dom, val, kk, vk):
        self.dom, self.val, self.kk, self.vk = dom, val, kk, vk


class PySet:

    def __init__(self, s=None):
        self.s = set(s) if s is not None else set()

    def __repr__(self):
        return 'PySet%r' % (self.s,)


class SymSet:
    """set of ints as z3 Array(Int -> Bool)."""

    def __init__(self, m):
        self.m = m


class ClassObj:
    def __init__(self, name, bases, module, node=None):
        self.name = name
        self.bases = bases          # list of ClassObj / builtin markers
        self.attrs = {}
        self.module = module
        self.node = node
        self.is_enum = any(getattr(b, 'is_enum', False) for b in bases)
        self.members = {}           # enum members by name
        self.builtin_base = None    # 'list', 'Exception', ...
        for b in bases:
            if isinstance(b, BuiltinClass):
                self.builtin_base = b.name
            elif isinstance(b, ClassObj) and b.builtin_base:
                self.builtin_base = b.builtin_base

    def mro(self):
        out = [self]
        for b in self.bases:
            if isinstance(b, ClassObj):
                for c in b.mro():
                    if c not in out:
                        out.append(c)
        return out

    def lookup(self, name):
        for c in self.mro():
            if name in c.attrs:
                return c.attrs[name]
        return _MISSING

    def is_subclass(self, other):
        if isinstance(other, BuiltinClass):
            return any(isinstance(b, BuiltinClass) and b.name == other.name
                       for c in self.mro() for b in c.bases) or other.name == 'object'
        return other in self.mro()

    def __repr__(self):
        return '<class %s>' % self.name


class BuiltinClass:
    """A builtin type used as a value (int, float, str, Exception, ...)."""

    def __init__(self, name, parents=()):
        self.name = name
        self.parents = parents
        self.is_enum = (name == 'Enum')

    def __repr__(self):
        return '<builtin class %s>' % self.name


_MISSING = object()


class EnumMember:
    __slots__ = ('cls', 'name', 'value')

    def __init__(self, cls, name, value):
        self.cls, self.name, self.value = cls, name, value

    def __repr__(self):
        return '%s.%s' % (self.cls.name, self.name)


class FuncObj:
    def __init__(self, node, module, closure, qualname, defaults, kwdefaults, cls=None):
        self.node = node
        self.module = module        # ModuleObj
        self.closure = closure      # Env or None
        self.qualname = qualname
        self.defaults = defaults
        self.kwdefaults = kwdefaults
        self.attrs = {}
        self.cls = cls              # defining class (for super())
        self.wrapped = None

    @property
    def name(self):
        return getattr(self.node, 'name', '<lambda>')

    def __repr__(self):
        return '<func %s>' % self.qualname


class BoundMethod:
    __slots__ = ('self', 'func')

    def __init__(self, self_, func):
        self.self = self_
        self.func = func

    def __repr__(self):
        return '<bound %r of %r>' % (self.func, self.self)


class StaticMethod:
    __slots__ = ('func',)

    def __init__(self, func):
        self.func = func


class PropertyObj:
    __slots__ = ('fget', 'fset')

    def __init__(self, fget, fset=None):
        self.fget, self.fset = fget, fset


class ModuleObj:
    def __init__(self, name, path=None):
        self.name = name
        self.path = path
        self.ns = {}

    def __repr__(self):
        return '<module %s>' % self.name


class Builtin:
    """A modelled builtin / external function: fn(interp, args, kwargs) -> value."""

    def __init__(self, name, fn):
        self.name = name
        self.fn = fn

    def __repr__(self):
        return '<builtin %s>' % self.name


class ExcObj:
    """Instance of a builtin exception class."""

    def __init__(self, cls, args=()):
        self.cls = cls      # BuiltinClass
        self.args = args

    def __repr__(self):
        return '%s%r' % (self.cls.name, tuple(self.args))


class Opaque:
    """An external object with modelled methods (device stubs, thread, event...)."""

    def __init__(self, name, methods=None, attrs=None, classes=()):
        self.name = name
        self.methods = methods or {}
        self.attrs = attrs or {}
        self.classes = classes      # ClassObj / BuiltinClass it is an instance of
        self.native = None          # {'kind': ...}: how replays rebuild this stub natively

    def __repr__(self):
        return '<opaque %s>' % self.name


class Computed:
    """attribute of an Opaque whose value is computed at every read: fn(interp, obj) -> value"""

    def __init__(self, fn):
        self.fn = fn


class SymMat:
    """list of `h` rows, each a list of `w` cells; cells are opaque ids (z3 Int): Array(Int, Array(Int, Int))."""

    def __init__(self, arr, h, w):
        self.arr, self.h, self.w = arr, h, w
        self.orig = None


class SymRowRef:
    """mat[r] of a SymMat: reads and writes go to the matrix"""

    def __init__(self, mat, r):
        self.mat, self.r = mat, r


class Struct:
    """immutable structured value with structural equality (results of uninterpreted library functions such as
    str.format: Struct('format', (fmt, args, kwargs)))"""

    def __init__(self, tag, fields):
        self.tag, self.fields = tag, tuple(fields)

    def __repr__(self):
        return '%s%r' % (self.tag, self.fields)


class Segment:
    """A run of `n` consecutive elements (n symbolic, >= 0) inside a PyList whose individual elements are not
    enumerated: elements off .. off+n-1 of the abstract sequence `base`.  Immutable: list operations replace it.
    `elem(interp, base, index_term)` yields the (canonical) element value, or is None when elements are opaque."""

    def __init__(self, base, off, n, elem=None, tag=''):
        self.base, self.off, self.n, self.elem, self.tag = base, off, n, elem, tag

    def __repr__(self):
        return 'Segment<%s[%s:+%s]>' % (self.base, self.off, self.n)


class SymEnumVal(SymVal):
    """symbolic member of an interpreted Enum class: t is the z3 Int index into cls.members (declaration order)"""
    __slots__ = ('cls',)

    def __init__(self, t, cls):
        SymVal.__init__(self, t, 'enum')
        self.cls = cls

    def __repr__(self):
        return 'SymEnum<%s:%s>' % (self.cls.name, self.t)


class SymNameOf(SymVal):
    """the .name (optionally lower-cased) of a symbolic enum member: an opaque string tied to its source"""
    __slots__ = ('src', 'lowered')

    def __init__(self, t, src, lowered=False):
        SymVal.__init__(self, t, 'str')
        self.src, self.lowered = src, lowered


def enum_index(member):
    return list(member.cls.members.values()).index(member)
