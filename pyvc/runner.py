"""Check runner: selects the contracts serving a property, verifies them in a process pool,
replays refutations on the real code, writes evidence, applies known findings, sets exit code.

Exit codes: 0 held / 1 violation (VIOLATION line) / 2 undecided (no verdict) / 3 checker error.
"""
import argparse
import re
import glob
import hashlib
import importlib
import json
import multiprocessing as mp
import os
import subprocess
import sys
import time
import traceback
from fractions import Fraction

VERIF = os.path.dirname(os.path.dirname(os.path.abspath(__file__)))
OUT = os.environ.get('PYVC_OUT', VERIF)      # evidence and replays are written here (the mutant self-test redirects it)
REPO = os.environ.get('PYVC_REPO', '/repo')
PY_REAL = os.environ.get('PYVC_PYTHON', '/venv/bin/python')


def stdlib_paths():
    """pure-Python stdlib modules that are interpreted from the source of the interpreter that runs the repo."""
    cache = os.path.join(VERIF, '.stdlib_paths.json')
    try:
        out = subprocess.check_output([PY_REAL, '-c', 'import colorsys,bisect,json;print(json.dumps({"colorsys":colorsys.__file__,"bisect_py":bisect.__file__}))'],
                                      timeout=60)
        return json.loads(out)
    except Exception:
        import colorsys, bisect
        return {'colorsys': colorsys.__file__, 'bisect_py': bisect.__file__}


_STD = None


def load_contracts():
    from pyvc import spec
    if not spec.REGISTRY:
        importlib.import_module('contracts.lib')
        for f in sorted(glob.glob(os.path.join(VERIF, 'contracts', '[cz]*.py'))):
            importlib.import_module('contracts.' + os.path.basename(f)[:-3])
    return spec.REGISTRY


def make_interp(timeout_ms):
    from pyvc.interp import Interp
    from pyvc import spec
    global _STD
    if _STD is None:
        _STD = stdlib_paths()
    I = Interp(REPO, stdlib_paths=_STD, timeout_ms=timeout_ms)
    spec.install_spec_fns(I)
    for c in load_contracts():
        if c.modular:
            I.contracts.setdefault(c.key, []).append(c)
        if c.loops:
            I.loopspecs.setdefault((c.path, c.qualname), {}).update(c.loops)
    for m in getattr(spec, 'EXTRA_INSTALLERS', []):
        m(I)
    return I


def pyval(v):
    if isinstance(v, Fraction):
        return {'frac': [v.numerator, v.denominator], 'float': float(v)}
    if isinstance(v, (int, float, str, bool)) or v is None:
        return v
    return repr(v)


def model_inputs(ob):
    from pyvc import ops
    from pyvc.values import SymVal, SymSeq
    out = {}
    if ob.model is None:
        return out
    for name, v in (ob.inputs or {}).items():
        try:
            if isinstance(v, SymVal):
                out[name] = pyval(ops.model_value(ob.model, v))
            elif isinstance(v, SymSeq):
                n = ob.model.eval(v.n, model_completion=True).as_long()
                import z3
                out[name] = [pyval(ops.term_to_py(ob.model.eval(z3.Select(v.arr, i), model_completion=True), v.ek))
                             for i in range(min(n, 50))]
        except Exception as e:      # model value not representable
            out[name] = 'unrepresentable: %s' % e
    return out


def crosscheck(I, c, r, max_paths):
    """Witness cross-check against CPython (thorough tier); see pyvc/xcheck.py."""
    import z3
    from pyvc import replay, xcheck
    out = {'paths': 0, 'agree': 0, 'disagree': [], 'na': 0, 'na_reasons': {}, 'pure_paths': 0, 'all_paths': 0}
    finals = I.keep_finals or []
    out['all_paths'] = len(finals)
    pure = [f for f in finals if f['pure']]
    out['pure_paths'] = len(pure)
    pure.sort(key=lambda f: (f['case'], str(f['path'])))
    if len(pure) > max_paths:
        step = len(pure) / float(max_paths)
        pure = [pure[int(i * step)] for i in range(max_paths)]

    def na(why, n=1):
        out['na'] += n
        out['na_reasons'][why[:110]] = out['na_reasons'].get(why[:110], 0) + n
    inputs_of = r.obligations[0].inputs if r.obligations else {}
    for f in pure:
        if any(xcheck.has_uninterpreted(t) for t in f['pc']):
            na('path decided by an uninterpreted library function')
            continue
        s = z3.Solver()
        s.set('timeout', 10000)
        for t in f['pc']:
            s.add(t)
        if s.check() != z3.sat:
            na('no model of the path condition within 10 s')
            continue
        model = s.model()
        fake = Obligation0(inputs_of, model)
        inputs = model_inputs(fake)
        if any(isinstance(v, str) and v.startswith('unrepresentable') for v in inputs.values()):
            na('model value not representable')
            continue
        obd = {'case': f['case'], 'inputs': inputs, 'kind': 'xcheck', 'info': {'clause': None}, 'name': c.name}
        try:
            info = replay.native_replay(None, c, obd, REPO)
        except Exception as e:
            info = {'why': 'replay machinery failed: %r' % (e,)}
        raw = info.get('raw')
        if raw is None:
            na(info.get('why') or 'no native run')
            continue
        out['paths'] += 1
        verdict, detail = xcheck.compare_final(I, f, model, raw, info['names'])
        if verdict == 'agree':
            out['agree'] += 1
        elif verdict == 'na':
            na(detail)
        else:
            has_real = any(isinstance(v, dict) or isinstance(v, float) for v in inputs.values()) or 'real' in f['case']
            out['disagree'].append({'case': f['case'], 'inputs': inputs, 'differences': detail, 'float_inputs': has_real})
    return out


class Obligation0:
    def __init__(self, inputs, model):
        self.model, self.inputs = model, inputs


def run_one(args):
    idx, case_i, timeout_ms = args
    t0 = time.time()
    try:
        from pyvc import spec
        cs = load_contracts()
        c = cs[idx]
        I = make_interp(timeout_ms)
        I.keep_finals = [] if XCHECK_PATHS > 0 and not c.modular else None
        r = spec.verify_contract(I, c, timeout_ms, only_case=case_i)
        obs = []
        for ob in r.obligations:
            obs.append({'name': ob.name, 'status': ob.status, 'time': round(ob.time, 4), 'kind': ob.kind,
                        'case': getattr(ob, 'case', ''), 'info': _plain(ob.info), 'solver': ob.solver,
                        'path': ob.path, 'inputs': model_inputs(ob) if ob.status == 'refuted' else None,
                        'pc_size': len(ob.pc)})
        xc = None
        if XCHECK_PATHS > 0 and r.status == 'ok' and not c.modular and getattr(c, 'crosscheck', True):
            try:
                xc = crosscheck(I, c, r, XCHECK_PATHS)
            except Exception:
                xc = {'paths': 0, 'agree': 0, 'disagree': [], 'na': 1, 'pure_paths': 0, 'all_paths': 0, 'na_reasons': {'crosscheck crashed: ' + traceback.format_exc()[-300:]: 1}}
        src = {}
        for p, text in I.sources.items():
            src[os.path.relpath(p, REPO) if p.startswith(REPO) else p] = hashlib.sha256(text.encode()).hexdigest()
        return {'idx': idx, 'path': c.path, 'name': c.name, 'qualname': c.qualname, 'serves': c.serves,
                'status': r.status, 'message': r.message, 'cases': r.cases, 'paths': r.paths,
                'obligations': obs, 'inlined': [list(x) for x in r.inlined], 'time': round(time.time() - t0, 3),
                'assumptions': c.assumptions, 'sources': src, 'bounded': c.bounded_note,
                'used_contracts': sorted(['%s:%s' % k for k in I.used_contracts]),
                'used_contract_notes': sorted({n for k in I.used_contracts for mc in I.contracts.get(k, []) for n in
                                               (mc.assumptions or ['%s: used through its contract at call sites (assumed there; its body is checked under its own contract where one is listed)' % mc.name])}),
                'ext_models': sorted(getattr(I, 'ext_loaded', ())),
                'covers': getattr(r, 'covers', None), 'crosscheck': xc}
    except Exception:
        return {'idx': idx, 'status': 'error', 'message': traceback.format_exc(), 'obligations': [],
                'name': '?', 'path': '?', 'serves': [], 'time': round(time.time() - t0, 3)}


def _plain(x):
    if x is None or isinstance(x, (int, float, str, bool)):
        return x
    if isinstance(x, dict):
        return {str(k): _plain(v) for k, v in x.items()}
    if isinstance(x, (list, tuple)):
        return [_plain(v) for v in x]
    return repr(x)


def load_known():
    p = os.path.join(VERIF, 'known_findings.json')
    if not os.path.exists(p):
        return []
    return json.load(open(p)).get('findings', [])


def matches_known(pid, fnres, ob, known):
    for k in known:
        if k.get('status') != 'known' or k.get('property') != pid:
            continue
        if k.get('obligation') != ob['name']:
            continue
        cases = k.get('cases')
        if cases is not None and ob.get('case') not in cases:
            continue
        return k
    return None


XCHECK_PATHS = 0


def mutant_selftest(pid, jobs):
    """Thorough tier: every confirmed seeded change kept under /verif/seeded for this property is applied to a scratch
    COPY of the current tree (outside /repo and /verif, removed afterwards) and the quick check is run on the copy:
    it must report a violation.  The outcome is recorded in the evidence; it never changes this run's exit code
    (the exit code speaks about /repo only)."""
    import shutil
    import tempfile
    out = []
    sdir = os.path.join(VERIF, 'seeded')
    if not os.path.isdir(sdir):
        return out
    for name in sorted(os.listdir(sdir)):
        mp = os.path.join(sdir, name, 'meta.json')
        if not os.path.exists(mp):
            continue
        meta = json.load(open(mp))
        if meta.get('superseded_by') or (meta.get('property') != pid and pid not in meta.get('also_checks', [])):
            continue
        if meta.get('property') != pid and pid in meta.get('also_checks', []):
            pass
        elif meta.get('also_checks') and meta.get('note', '').find('no longer') >= 0 and meta.get('property') == pid:
            out.append({'seed': name, 'status': 'not a violation of this property on the current tree (see its meta.json)'})
            continue
        scratch = tempfile.mkdtemp(prefix='pyvc_mutant_')
        try:
            tree = os.path.join(scratch, 'tree')
            shutil.copytree(REPO, tree, ignore=shutil.ignore_patterns('.git', '__pycache__', '*.egg-info', '.pytest_cache'))
            patch = os.path.join(sdir, name, 'patch.diff')
            ap = subprocess.run(['git', 'apply', '--unsafe-paths', '--directory=' + tree, patch], cwd='/', capture_output=True, text=True)
            if ap.returncode != 0:
                ap = subprocess.run(['patch', '-p1', '-s', '-i', patch], cwd=tree, capture_output=True, text=True)
            if ap.returncode != 0:
                out.append({'seed': name, 'status': 'patch does not apply to the current tree'})
                continue
            env = dict(os.environ, PYVC_REPO=tree, PYVC_OUT=os.path.join(scratch, 'out'), PYVC_XCHECK='0', PYVC_SELFTEST='0')
            t0 = time.time()
            p = subprocess.run([sys.executable, '-m', 'pyvc.runner', pid, '--tier', 'quick', '--jobs', str(jobs)], cwd=VERIF, env=env,
                               capture_output=True, text=True, timeout=3600)
            viol = [l for l in p.stdout.splitlines() if l.startswith('VIOLATION')]
            rec = {'seed': name, 'status': 'detected' if p.returncode == 1 and viol else 'NOT detected (exit %d)' % p.returncode,
                   'exit': p.returncode, 'obligations_failed': [re.sub(r'.*obligation=', '', v)[:160] for v in viol[:4]],
                   'wall_s': round(time.time() - t0, 1)}
            if meta.get('not_caught') and rec['status'] != 'detected':
                rec['why'] = meta['not_caught']        # a change this family cannot see, recorded when it was first tried
            out.append(rec)
        except Exception as e:
            out.append({'seed': name, 'status': 'self-test failed to run: %r' % (e,)})
        finally:
            shutil.rmtree(scratch, ignore_errors=True)
    return out


def main(argv=None):
    ap = argparse.ArgumentParser()
    ap.add_argument('property')
    ap.add_argument('--tier', default=os.environ.get('VERIF_TIER', 'quick'))
    ap.add_argument('--replay')
    ap.add_argument('--jobs', type=int, default=int(os.environ.get('PYVC_JOBS', '16')))
    ap.add_argument('--only', help='substring filter on contract names (debugging; evidence is not written)')
    ap.add_argument('-v', '--verbose', action='store_true')
    a = ap.parse_args(argv)
    pid = a.property
    tier = 'thorough' if a.tier == 'thorough' else 'quick'
    seed = int(os.environ.get('VERIF_SEED', '0') or 0)
    t0 = time.time()
    sys.path.insert(0, VERIF)
    if a.replay:
        from pyvc import replay
        return replay.rerun(a.replay)
    try:
        cs = load_contracts()
    except Exception:
        traceback.print_exc()
        print('CHECKER-ERROR loading contracts')
        return 3
    sel = [i for i, c in enumerate(cs) if pid in c.serves and (not a.only or a.only in c.name)]
    if not sel:
        print('CHECKER-ERROR no contracts serve %s' % pid)
        return 3
    timeout_ms = 10000 if tier == 'quick' else 60000
    global XCHECK_PATHS
    XCHECK_PATHS = int(os.environ.get('PYVC_XCHECK', '3' if tier == 'thorough' else '0'))
    from pyvc import spec as _spec
    tasks = []
    for i in sel:
        ncase = len(_spec.case_list(cs[i]))
        if ncase > 1:
            tasks.extend((i, k, timeout_ms) for k in range(ncase))
        else:
            tasks.append((i, None, timeout_ms))
    with mp.get_context('fork').Pool(min(a.jobs, len(tasks))) as pool:
        parts = pool.map(run_one, tasks, chunksize=1)
    # merge the per-case parts of one contract
    merged = {}
    order = []
    for p_ in parts:
        k = p_['idx']
        if k not in merged:
            merged[k] = p_
            order.append(k)
        else:
            m_ = merged[k]
            if p_['status'] == 'error' or m_['status'] == 'error':
                # a case that crashed the checker does not hide what the other cases of the contract found
                if p_['status'] == 'error':
                    m_.setdefault('case_errors', []).append(p_['message'])
                    continue
                p_.setdefault('case_errors', []).append(m_['message'])
                p_['case_errors'].extend(m_.get('case_errors', []))
                merged[k] = p_
                continue
            m_['obligations'].extend(p_['obligations'])
            for f_ in ('cases', 'paths'):
                m_[f_] = (m_.get(f_) or 0) + (p_.get(f_) or 0)
            m_['time'] = round(m_['time'] + p_['time'], 3)
            m_['inlined'] = sorted({tuple(x) for x in m_['inlined']} | {tuple(x) for x in p_['inlined']})
            m_['sources'].update(p_.get('sources', {}))
            if p_.get('crosscheck'):
                a_, b_ = m_.get('crosscheck'), p_['crosscheck']
                if not a_:
                    m_['crosscheck'] = b_
                else:
                    for f_ in ('paths', 'agree', 'na', 'pure_paths', 'all_paths'):
                        a_[f_] += b_[f_]
                    a_['disagree'].extend(b_['disagree'])
                    for k_, v_ in b_['na_reasons'].items():
                        a_['na_reasons'][k_] = a_['na_reasons'].get(k_, 0) + v_
            if p_['status'] == 'undecided' and m_['status'] == 'ok':
                m_['status'], m_['message'] = 'undecided', p_['message']
    results = [merged[k] for k in order]
    # bounded stand-ins and extra per-property python checks registered by contract modules
    from pyvc import spec, replay
    extra = []
    for fn in getattr(spec, 'EXTRA_CHECKS', {}).get(pid, []):
        try:
            extra.append(fn(tier, seed))
        except Exception:
            extra.append({'name': getattr(fn, '__name__', 'extra'), 'status': 'error', 'message': traceback.format_exc()})
    selftest = None
    if tier == 'thorough' and os.environ.get('PYVC_SELFTEST', '1') != '0' and not a.only:
        selftest = mutant_selftest(pid, a.jobs)
    known = load_known()
    n_ob = n_dis = 0
    refuted, undecided, errors, known_hits = [], [], [], []
    bounded_contracts = {}
    solver_time = {}
    samples = []
    fns = []
    sources = {}
    assumptions = set()
    generic_models = set()
    for r in results:
        if r['status'] == 'error':
            errors.append(r)
            continue
        for msg in r.get('case_errors', []):
            errors.append({'name': r['name'] + ' (one case)', 'message': msg})
        fns.append('%s:%s' % (r['path'], r['qualname']))
        sources.update(r.get('sources', {}))
        for x in r.get('assumptions', []):
            assumptions.add(x)
        for x in r.get('used_contract_notes', []):
            assumptions.add(x)
        for m in r.get('ext_models', []):
            n = external_note(m)
            if n is None:
                generic_models.add(m.split('.')[0])
            else:
                assumptions.add(n)
        if r['status'] == 'undecided':
            undecided.append({'function': r['name'], 'reason': r['message']})
        is_b = bool(r.get('bounded'))
        if is_b:
            bstat = bounded_contracts.setdefault(r['name'], {'name': r['name'], 'kind': 'bounded', 'bound': r['bounded'],
                                                             'obligations': 0, 'discharged': 0, 'cases': r.get('cases'), 'paths': r.get('paths')})
        for ob in r['obligations']:
            if is_b:
                bstat['obligations'] += 1
            else:
                n_ob += 1
            solver_time[ob['solver']] = solver_time.get(ob['solver'], 0.0) + ob['time']
            if ob['status'] == 'proved':
                if is_b:
                    bstat['discharged'] += 1
                else:
                    n_dis += 1
                if len(samples) < 6 and ob['kind'] == 'post':
                    samples.append({'obligation': ob['name'], 'case': ob['case'], 'clause': (ob['info'] or {}).get('clause'),
                                    'solver': ob['solver'], 'time_s': ob['time'], 'path_condition_size': ob['pc_size']})
            elif ob['status'] == 'refuted':
                k = matches_known(pid, r, ob, known)
                if k is not None:
                    known_hits.append((k, r, ob))
                    if is_b:
                        bstat['obligations'] -= 1
                    else:
                        n_ob -= 1       # reported as a known finding, not as an obligation of the proof
                else:
                    refuted.append((r, ob))
            else:
                undecided.append({'obligation': ob['name'], 'case': ob['case'], 'reason': (ob['info'] or {}).get('reason')})
    xc_tot = {'paths_explored': 0, 'pure_paths': 0, 'paths_replayed_natively': 0, 'final_states_agree': 0, 'without_native_rendering': 0,
              'disagreements': [], 'contracts_with_an_agreeing_witness': 0, 'why_not_rendered': {},
              'what': 'per sampled pure path: model of the path condition -> pyvc final state under the model vs final state of the '
                      'real function under /venv/bin/python on the same input (see pyvc/xcheck.py); not counted as proof'}
    for r in results:
        x = r.get('crosscheck')
        if not x:
            continue
        xc_tot['paths_replayed_natively'] += x['paths']
        xc_tot['paths_explored'] += x['all_paths']
        xc_tot['pure_paths'] += x['pure_paths']
        xc_tot['final_states_agree'] += x['agree']
        xc_tot['without_native_rendering'] += x['na']
        xc_tot['contracts_with_an_agreeing_witness'] += 1 if x['agree'] else 0
        for k_, v_ in x['na_reasons'].items():
            xc_tot['why_not_rendered'][k_] = xc_tot['why_not_rendered'].get(k_, 0) + v_
        for d_ in x['disagree']:
            xc_tot['disagreements'].append(dict(d_, contract=r['name']))
    bounded = list(bounded_contracts.values())
    for e in extra:
        if e.get('status') == 'error':
            errors.append(e)
        elif e.get('kind') == 'bounded':
            bounded.append(e)
            for v in e.get('violations', []):
                kk = None
                for kf in known:
                    if kf.get('status') == 'known' and kf.get('property') == pid and kf.get('obligation') == v['name']:
                        kk = kf
                if kk is not None:
                    known_hits.append((kk, {'name': e['name'], 'path': '', 'qualname': e['name']}, v))
                else:
                    refuted.append(({'name': e['name'], 'path': e.get('path', ''), 'qualname': e['name'], 'bounded': True}, v))
    # replays
    violations = []
    os.makedirs(os.path.join(OUT, 'replays', pid), exist_ok=True)
    seen = set()
    for r, ob in refuted:
        key = ob['name']
        if key in seen:
            continue
        seen.add(key)
        path, reproduced = replay.write_replay(pid, r, ob, cs, REPO)
        if not reproduced and (ob.get('info') or {}).get('structural'):
            undecided.append({'obligation': ob['name'], 'case': ob.get('case'), 'replay': path,
                              'reason': 'strings built differently and the counterexample does not replay on the real code: not decided'})
            continue
        violations.append((ob, path, reproduced))
    exit_code = 0
    for k, r, ob in known_hits:
        pass
    printed = set()
    for k, r, ob in known_hits:
        if k['id'] in printed:
            continue
        printed.add(k['id'])
        print('KNOWN-FINDING: property=%s %s' % (pid, k['what']))
    for ob, path, reproduced in violations:
        tail = '' if reproduced else ' no-failing-input-found'
        print('VIOLATION property=%s replay=%s obligation=%s%s' % (pid, path, ob['name'], tail))
        exit_code = 1
    if errors:
        for e in errors:
            print('CHECKER-ERROR %s: %s' % (e.get('name'), e.get('message', '').strip().splitlines()[-1] if e.get('message') else ''))
            if a.verbose:
                print(e.get('message'))
        if exit_code == 0:
            exit_code = 3
    if undecided and exit_code == 0:
        exit_code = 2
    for u in undecided:
        print('UNDECIDED %s' % json.dumps(u))
    if generic_models:
        assumptions.add('models of library modules (pyvc/models.py, contracts/lib.py), assumed to agree with CPython on the members the code uses: '
                        + ', '.join(sorted(generic_models)))
    wall = time.time() - t0
    ev = {
        'property_id': pid, 'tier': tier, 'seed': seed, 'level': 'proof',
        'coverage': {
            'obligations': n_ob, 'discharged': n_dis,
            'checker_cmd': './check %s --tier %s' % (pid, tier),
            'trusted_base': sorted(assumptions | set(BASE_TRUST)),
            'samples': samples,
            'functions_under_contract': sorted(set(fns)),
            'functions_inlined_into_callers': sorted({'%s:%s' % tuple(x) for r in results for x in r.get('inlined', [])}),
            'contracts': len(sel), 'cases': sum(r.get('cases', 0) for r in results),
            'paths': sum(r.get('paths', 0) for r in results),
            'solver_time_s': {k: round(v, 3) for k, v in solver_time.items()},
            'source_sha256': sources,
            'refuted': [{'obligation': ob['name'], 'case': ob.get('case'), 'replay': p, 'reproduced': rp} for ob, p, rp in violations],
            'known_findings_hit': sorted(printed),
            'undecided': undecided,
            'bounded': [{k: v for k, v in b.items() if k != 'violations'} for b in bounded],
            'seeded_changes_selftest': selftest if selftest is not None else 'not run in this tier',
            'cpython_witness_crosscheck': xc_tot if XCHECK_PATHS else 'not run in this tier',
            'explanation': 'obligations generated from the current /repo source text by pyvc (symbolic execution of the '
                           'real function bodies against sidecar contracts) and discharged by z3; bounded stand-ins are '
                           'listed separately and never counted in discharged',
        },
        'assumptions': sorted(assumptions | set(BASE_TRUST)),
        'wall_s': round(wall, 2),
        'violations': len(violations),
    }
    if not a.only:
        os.makedirs(os.path.join(OUT, 'evidence'), exist_ok=True)
        json.dump(ev, open(os.path.join(OUT, 'evidence', pid + '.json'), 'w'), indent=1)
    nb = sum(b_.get('obligations', 0) for b_ in bounded)
    print('%s tier=%s contracts=%d obligations=%d discharged=%d bounded-obligations=%d refuted=%d known=%d undecided=%d wall=%.1fs exit=%d' % (
        pid, tier, len(sel), n_ob, n_dis, nb, len(violations), len(printed), len(undecided), wall, exit_code))
    if selftest is not None:
        det = sum(1 for x in selftest if x['status'] == 'detected')
        print('%s seeded-changes-selftest: %d of %d detected%s' % (pid, det, len(selftest), ''.join(
            '; %s: %s' % (x['seed'], x['status']) for x in selftest if x['status'] != 'detected')))
    if XCHECK_PATHS:
        print('%s cpython-witness-crosscheck: pure-paths=%d replayed=%d final-states-agree=%d no-native-rendering=%d disagreements=%d' % (
            pid, xc_tot['pure_paths'], xc_tot['paths_replayed_natively'], xc_tot['final_states_agree'], xc_tot['without_native_rendering'], len(xc_tot['disagreements'])))
        for d_ in xc_tot['disagreements']:
            print('CROSSCHECK-DISAGREE %s' % json.dumps(d_, default=str)[:600])
    if a.verbose:
        for r in results:
            print('  %-60s %-9s cases=%s paths=%s obs=%d %.2fs %s' % (
                r['name'], r['status'], r.get('cases'), r.get('paths'), len(r['obligations']), r['time'], r.get('message', '')))
    return exit_code


def external_note(dotted):
    """the assumed contract of a module outside /repo, as the evidence lists it"""
    try:
        from contracts.lib import EXTERNAL
    except Exception:
        EXTERNAL = {}
    top = dotted.split('.')[0]
    if top in EXTERNAL:
        return 'assumed contract of %s (contracts/lib.py): %s' % (top, EXTERNAL[top])
    return None


BASE_TRUST = [
    'pyvc (own VC generator: symbolic interpreter over the real source; cross-checked against CPython, mutation self-test)',
    'z3 unsat answers',
    'Python int = mathematical Int; float = exact Real in symbolic positions (no rounding/overflow/NaN) [R model]',
    'CPython executes the source as the language reference says; generator expressions and generator functions evaluated eagerly (run to their end where they are created / called)',
]

if __name__ == '__main__':
    sys.exit(main())
