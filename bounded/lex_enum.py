#!/venv/bin/python
"""Bounded stand-in (NOT proof) for the part of C16 / C06 that is decided by the regular-expression engine:
exhaustive enumeration of short strings through the REAL Lex of a tree.

usage: lex_enum.py <repo> <tier> <seed>   -> JSON on stdout
"""
import itertools
import json
import random
import sys
import os
import glob

repo, tier, seed = sys.argv[1], sys.argv[2], int(sys.argv[3])
sys.path.insert(0, repo)
from bardolph.parser.lex import Lex                     # noqa
from bardolph.parser.token import TokenTypes            # noqa

DOC_KEYWORDS = ('all and as assign at begin break breakpoint column cycle default define else end from get group if in location '
                'logical not off on or print printf println pause raw row repeat return rgb set stage to units while with wait zone').split()
REGISTERS = 'hue saturation brightness kelvin red green blue default duration time'.split()
ABBREV = {'H': 'hue', 'S': 'saturation', 'B': 'brightness', 'K': 'kelvin'}
INTERNAL = 'compare eof error literal_string mark name null number register syntax_error time_pattern unknown'.split()
violations = []
stats = {}


def toks(text):
    return [(t.token_type.name, str(t) if t.token_type.has_string() else '') for t in Lex(text).tokens()]


def report(name, what, text):
    if len(violations) < 20:
        violations.append({'name': name, 'what': what, 'input': text})


# (a) identifiers: every name of the documented form that is not a keyword / register / abbreviation is a NAME, case-sensitively
def identifiers():
    n = 0
    cands = set()
    for w in DOC_KEYWORDS + REGISTERS + INTERNAL:
        for variant in (w.upper(), w.capitalize(), w[0].upper() + w[1:], w[:-1] + w[-1].upper(), w + '_', '_' + w, w + '1'):
            cands.add(variant)
        cands.add(w)
    alpha = 'aZ_9'
    L = 3 if tier == 'quick' else 5
    for k in range(1, L + 1):
        for t in itertools.product(alpha, repeat=k):
            s = ''.join(t)
            if s[0] != '9':
                cands.add(s)
    for w in sorted(cands):
        n += 1
        got = toks(w)
        if w in DOC_KEYWORDS:
            want = [(w.upper(), ''), ('EOF', '')]
        elif w in REGISTERS:
            want = [('REGISTER', w), ('EOF', '')]
        elif w in ABBREV:
            want = [('REGISTER', ABBREV[w]), ('EOF', '')]
        else:
            want = [('NAME', w), ('EOF', '')]
        if w == 'default':
            want = [('DEFAULT', ''), ('EOF', '')] if got and got[0][0] == 'DEFAULT' else want
        if got != want:
            report('bounded:identifier-is-a-name', 'word %r lexed as %r, documented: %r' % (w, got, want), w)
    stats['identifiers'] = n


# (b) layout independence on a corpus: re-join the token texts with other white space / comments / no space around marks
def corpus():
    texts = []
    for f in sorted(glob.glob(os.path.join(repo, 'scripts', '*.ls'))):
        try:
            texts.append(open(f).read())
        except OSError:
            pass
    texts += ['hue 120 saturation {50+3*2} set "Top" and group "Pole" zone 1 3', 'define f with a b begin if {a<=b and not a==0} return [g a {b%3}] else print "x y" end',
              'repeat with i from 0 to 5 begin printf "{} {hue:.1f}\\n" i time at 8:00 or *:30 wait end']
    return texts


MARKS = set('[]{}()+-*/%^<>=!')


def layout():
    rnd = random.Random(seed)
    n = 0
    rounds = 20 if tier == 'quick' else 200
    for text in corpus():
        base = toks(text)
        if any(t[0] == 'ERROR' for t in base):
            continue
        # token texts as written (re-lex line by line to get the raw pieces)
        import re
        pieces = []
        for line in text.split('\n'):
            for m in Lex._TOKEN.finditer(line):
                p = m.group(0)
                if p == '#':
                    break
                pieces.append(p)
        for _ in range(rounds):
            out = []
            for i, p in enumerate(pieces):
                out.append(p)
                nxt = pieces[i + 1] if i + 1 < len(pieces) else ''
                glue_ok = bool(nxt) and (p[-1] in MARKS or nxt[0] in MARKS) and not (p[-1] in '<>=!' and nxt[0] in '=') \
                    and not (p[-1] in '*:' or nxt[0] in '*:') and not (p[-1] == '-' and nxt[0] in '0123456789.') \
                    and not (p in '+-' and nxt in '+-') and not (p[-1] in '0123456789' and nxt[0] in '.') and not (p[-1] == '.')
                choice = rnd.random()
                if glue_ok and choice < 0.3:
                    sep = ''
                elif choice < 0.6:
                    sep = rnd.choice([' ', '  ', '\t', ' \t '])
                elif choice < 0.8:
                    sep = rnd.choice(['\n', '\n\n  ', ' # a comment "with" {marks}\n', ' # form\x0cfeed hue 7 in a comment\n',
                                      '\r\n', '\r\n\r\n\t', ' # a comment before a CR LF line end\r\n'])
                else:
                    sep = ' '
                out.append(sep)
            n += 1
            new = toks(''.join(out))
            if new != base:
                report('bounded:layout-does-not-change-the-tokens', 'token sequence differs after re-layout', ''.join(out)[:200])
    stats['relayouts'] = n


# (c) string literals: any characters other than a double quote or a line break
def strings():
    n = 0
    ESCQ = '\\"'          # an escaped double quote inside the literal: stands for the character "
    alpha = ['a', '#', '\\', '{', ' ', "'", ']', '-', '\x0c', '\u2028', '\x85', ESCQ, '\\n', '\\t']     # backslash-n / backslash-t stay two characters     # incl. characters str.splitlines() would split at
    L = 3 if tier == 'quick' else 4
    for k in range(0, L + 1):
        for t in itertools.product(alpha, repeat=k):
            if any(t[i] == '\\' and t[i + 1] == ESCQ for i in range(len(t) - 1)) or (t and t[-1] == '\\'):
                continue        # a lone backslash directly before a quote: which of the two escapes is not documented
            written = ''.join(t)
            s = ''.join('"' if x == ESCQ else x for x in t)
            n += 1
            got = toks('define x "%s" on all' % written)
            want_tail = [('ON', ''), ('ALL', ''), ('EOF', '')]
            if got[:2] != [('DEFINE', ''), ('NAME', 'x')] or got[3:] != want_tail or got[2][0] != 'LITERAL_STRING' or got[2][1] != s:
                report('bounded:string-literal-content', 'literal %r lexed as %r' % (s, got), s)
    stats['string_literals'] = n


# (d) every short string: the lexer terminates without raising, exactly one EOF token and it is last, NUMBER tokens are numerals
def everything():
    n = 0
    alpha = ['a', 'H', '5', '.', '"', '\\', '#', ' ', '\n', '{', ']', '(', '+', '-', '*', '%', '^', '<', '=', '!', ':']
    L = 3 if tier == 'quick' else 4
    for k in range(0, L + 1):
        for t in itertools.product(alpha, repeat=k):
            s = ''.join(t)
            n += 1
            try:
                got = toks(s)
            except Exception as e:     # noqa
                report('bounded:lexer-never-raises', '%s: %s' % (type(e).__name__, e), s)
                continue
            if [x[0] for x in got].count('EOF') != 1 or got[-1][0] != 'EOF':
                report('bounded:eof-only-last', repr(got), s)
            for ty, tx in got:
                if ty == 'NUMBER':
                    try:
                        float(tx)
                    except ValueError:
                        report('bounded:number-tokens-are-numerals', tx, s)
    stats['all_short_strings'] = n


# (e) operators, braces and brackets need no surrounding white space
def operators():
    n = 0
    ops = ['+', '-', '*', '/', '%', '^', '<', '<=', '>', '>=', '==', '!=']
    for op in ops:
        for a, b_ in (('5', '3'), ('x', 'y'), ('x', '3')):
            if op == '-' and b_[0].isdigit():
                pass
            n += 1
            spaced = toks('assign z {%s %s %s}' % (a, op, b_))
            tight = toks('assign z {%s%s%s}' % (a, op, b_))
            if spaced != tight:
                report('bounded:operators-need-no-white-space', '%r vs %r' % (tight, spaced), '{%s%s%s}' % (a, op, b_))
    stats['operator_pairs'] = n


for f in (identifiers, layout, strings, everything, operators):
    f()
print(json.dumps({'stats': stats, 'violations': violations}))
