#!/venv/bin/python
"""Bounded stand-in (NOT proof) for the composition half of C18: capture with the real ScriptSnapshot, change every
light, compile and run the captured script on the repo's fake lights, compare every plain light / zone / cell.

usage: snapshot_replay.py <repo> <tier> <seed>  -> JSON
"""
import json
import random
import sys

repo, tier, seed = sys.argv[1], sys.argv[2], int(sys.argv[3])
sys.path.insert(0, repo)
import logging                                                              # noqa
from bardolph.controller import light_set, i_controller                   # noqa
from bardolph.controller.snapshot import ScriptSnapshot                   # noqa
from bardolph.controller.script_job import ScriptJob                      # noqa
from bardolph.controller.color_matrix import ColorMatrix                  # noqa
from bardolph.fakes import fake_clock, fake_light_api, fake_light        # noqa
from bardolph.fakes.fake_light_api import LightType                       # noqa
from bardolph.lib import injection, settings, log_config, std_out_output  # noqa
from bardolph.lib.injection import provide                                # noqa
from bardolph.runtime import runtime_module                               # noqa

rnd = random.Random(seed)
NAMES = ['Top', 'a b', 'x#y', "it's", 'tab\there', 'end\\', '{curly}', 'ünï', '5', 'if', 'K', 'C:\\porch\\', '[b]', '%',
         'Lamp ', ' Desk', 'Tile\t', '-', '{0}', '(', 'a{b', 'Hall\\north', 'a\\tb']
violations, stats = [], {'populations': 0, 'lights': 0}


class Strip(fake_light.MultizoneLight):
    def get_num_zones(self):
        return len(self._zone_colors)

    def get_zone_colors(self, start_index=0, end_index=None):
        return super().get_zone_colors(start_index, len(self._zone_colors) if end_index is None else end_index)


def configure(specs):
    injection.configure()
    settings.using({'log_level': logging.CRITICAL, 'log_to_console': False, 'single_light_discover': True, 'use_fakes': True}).configure()
    log_config.configure()
    fake_clock.configure()
    api = fake_light_api.FakeLightApi(specs)
    api._lights = [Strip(l.get_name(), l.get_group(), l.get_location(), len(l._zone_colors)) if isinstance(l, fake_light.MultizoneLight) else l
                   for l in api._lights]
    injection.bind_instance(api).to(i_controller.LightApi)
    light_set.configure()
    std_out_output.configure()
    runtime_module.configure()
    return api


def rc():
    return [rnd.choice([0, 1, 65535, 32768, rnd.randrange(65536)]) for _ in range(4)]


def state(api):
    out = {}
    for l in api.get_lights():
        if isinstance(l, fake_light.MultizoneLight):
            out[l.get_name()] = [list(c) for c in l._zone_colors]
        elif isinstance(l, fake_light.MatrixLight):
            out[l.get_name()] = [list(c) for row in l._matrix.matrix for c in row]
        else:
            out[l.get_name()] = (list(l._color), l._power)
    return out


def scramble(api):
    for l in api.get_lights():
        if isinstance(l, fake_light.MultizoneLight):
            l._zone_colors = [rc() for _ in l._zone_colors]
        elif isinstance(l, fake_light.MatrixLight):
            l._matrix = ColorMatrix.new_from_iterable(l.get_height(), l.get_width(), (rc() for _ in range(l.get_height() * l.get_width())))
        else:
            l._color, l._power = rc(), rnd.choice([0, 65535])


rounds = 12 if tier == 'quick' else 150
for _ in range(rounds):
    names = rnd.sample(NAMES, rnd.randint(1, 4))
    specs = []
    for n in names:
        kind = rnd.choice(['plain', 'plain', 'mz', 'matrix'])
        if kind == 'plain':
            specs.append((n, 'g', 'l'))
        elif kind == 'mz':
            specs.append((n, 'g', 'l', LightType.MULTI_ZONE, rnd.choice([1, 2, 5, 16])))
        else:
            specs.append((n, 'g', 'l', LightType.MATRIX, rnd.choice([1, 2, 6]), rnd.choice([1, 3, 5])))
    api = configure(specs)
    scramble(api)
    # the fake keeps power only through set_power: record what we set
    for l in api.get_lights():
        if type(l) is fake_light.Light:
            real_get = l._power
            l.get_power = (lambda p: (lambda: p))(real_get)
    captured = state(api)
    try:
        text = ScriptSnapshot().generate(None).text
    except Exception as e:      # the real capture raised: a violation of the property, not a fault of this harness
        violations.append({'name': 'bounded:snapshot-capture-never-raises', 'what': '%s: %s' % (type(e).__name__, e), 'input': repr(specs)})
        continue
    scramble(api)
    for l in api.get_lights():
        if type(l) is fake_light.Light:
            l.set_power_orig = l.set_power
            def sp(power, duration, l=l):
                l._power = 65535 if power else 0
                return l.set_power_orig(power, duration)
            l.set_power = sp
    job = ScriptJob.from_string(text)
    stats['populations'] += 1
    stats['lights'] += len(specs)
    if job.program is None:
        violations.append({'name': 'bounded:snapshot-script-always-compiles', 'what': job.compile_errors.strip()[:200], 'input': repr(names)})
        continue
    try:
        job.execute()
    except Exception as e:
        violations.append({'name': 'bounded:snapshot-replay-never-raises', 'what': '%s: %s' % (type(e).__name__, e), 'input': repr(specs)})
        continue
    after = state(api)
    for n in captured:
        if captured[n] != after[n]:
            violations.append({'name': 'bounded:snapshot-replay-restores-the-state', 'what': 'light %r: captured %r, after replay %r' % (n, captured[n], after[n]),
                               'input': repr(specs)})
            break
print(json.dumps({'bound': '%d random populations of 1..4 lights with hostile names, random raw states, zone counts up to 16, matrices up to 6x5' % rounds,
                  'evaluations': stats['populations'], 'stats': stats, 'violations': violations[:10]}))
